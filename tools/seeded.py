"""Try the registered checks on a seeded breaking change, in a scratch worktree of /repo.

    python tools/seeded.py verify <candidate-dir> [--checks C02,C13] [--tier quick]
    python tools/seeded.py rerun  seeded/<id> [--checks ...]

<candidate-dir> holds patch.diff, demo.py, meta.json (property = the id the change is meant to break).
Steps (nothing is ever applied to /repo itself):
  1. scratch worktree of /repo HEAD under /tmp; demo.py on the clean tree must exit 0
  2. git apply patch.diff; demo.py must exit 1
  3. the pinned test suite on the patched tree must pass exactly the baseline's stable_pass set
  4. VERIF_REPO=<worktree> VERIF_SCRATCH=<tmp> ./check <id> --tier <tier>  for each requested check
     (default: the property named in meta.json); detected = exit status 1 with a VIOLATION line
  5. worktree and scratch output removed
Prints one JSON object (also written to <candidate-dir>/result.json)."""
import sys, os, json, subprocess, shutil, tempfile, argparse, re, time
import xml.etree.ElementTree as ET

VERIF = os.path.dirname(os.path.dirname(os.path.abspath(__file__)))
REPO = '/repo'
PY = '/venv/bin/python'


def sh(cmd, cwd=None, env=None, timeout=None):
    try:
        p = subprocess.run(cmd, cwd=cwd, env=env, timeout=timeout, stdout=subprocess.PIPE, stderr=subprocess.STDOUT, text=True)
        return p.returncode, p.stdout
    except subprocess.TimeoutExpired as e:
        o = e.stdout or ''
        if isinstance(o, bytes): o = o.decode('utf-8', 'replace')
        return 124, o + '\n[timeout]'


def demo(wt, d):
    env = dict(os.environ, PYTHONPATH=wt, PYTHONHASHSEED='0', PYTHONDONTWRITEBYTECODE='1')
    tmp = tempfile.mkdtemp(prefix='seed-demo-')
    shutil.copy(os.path.join(d, 'demo.py'), os.path.join(tmp, 'demo.py'))
    rc, out = sh([PY, os.path.join(tmp, 'demo.py')], cwd=wt, env=env, timeout=900)
    shutil.rmtree(tmp, ignore_errors=True)
    return rc, out[-1500:]


def tests(wt):
    base = json.load(open('/root/.vp/BASELINE.json'))
    want = set(base['stable_pass'])
    xml = tempfile.mktemp(prefix='seed-junit-', suffix='.xml')
    env = dict(os.environ, PYTHONDONTWRITEBYTECODE='1')
    env.pop('PYTHONPATH', None)
    rc, out = sh([PY, '-m', 'pytest', '-ra', '-q', '-p', 'no:cacheprovider', '--timeout=900',
                  '--continue-on-collection-errors', '--junitxml=' + xml], cwd=wt, env=env, timeout=1800)
    passed = set()
    try:
        for tc in ET.parse(xml).getroot().iter('testcase'):
            if not any(ch.tag in ('failure', 'error', 'skipped') for ch in tc):
                passed.add('%s::%s' % (tc.get('classname'), tc.get('name')))
    except Exception as e:
        return False, 'junit parse failed: %r\n%s' % (e, out[-800:])
    finally:
        if os.path.exists(xml): os.remove(xml)
    missing = sorted(want - passed)
    return (not missing), ('%d passed; baseline %d; missing from baseline: %s' % (len(passed), len(want), missing[:6]))


def run(d, checks, tier, skip_tests=False):
    d = os.path.abspath(d)
    meta = json.load(open(os.path.join(d, 'meta.json')))
    pid = meta['property']
    checks = checks or [pid]
    wt = tempfile.mkdtemp(prefix='seed-wt-')
    os.rmdir(wt)
    scratch = tempfile.mkdtemp(prefix='seed-scratch-')
    res = {'candidate': d, 'property': pid, 'at': time.strftime('%Y-%m-%dT%H:%M:%S'), 'tier': tier}
    try:
        rc, out = sh(['git', '-C', REPO, 'worktree', 'add', '-q', '--detach', wt, 'HEAD'])
        if rc != 0: raise RuntimeError(out)
        res['repo_head'] = sh(['git', '-C', REPO, 'rev-parse', '--short', 'HEAD'])[1].strip()
        rc0, o0 = demo(wt, d)
        res['demo_clean'] = {'exit': rc0, 'tail': o0[-400:]}
        rc, out = sh(['git', '-C', wt, 'apply', os.path.join(d, 'patch.diff')])
        res['patch_applies'] = (rc == 0)
        if rc != 0:
            res['error'] = out[-800:]
            return res
        rc1, o1 = demo(wt, d)
        res['demo_patched'] = {'exit': rc1, 'tail': o1[-400:]}
        if not skip_tests:
            ok, msg = tests(wt)
            res['tests_same_as_baseline'] = ok
            res['tests'] = msg
        res['valid_seed'] = (rc0 == 0 and rc1 == 1 and res.get('tests_same_as_baseline', True))
        res['checks'] = {}
        for c in checks:
            env = dict(os.environ, VERIF_REPO=wt, VERIF_SCRATCH=scratch)
            t0 = time.time()
            rc, out = sh([os.path.join(VERIF, 'check'), c, '--tier', tier], cwd=VERIF, env=env, timeout=5400)
            viol = [l for l in out.splitlines() if l.startswith('VIOLATION')]
            r = {'exit': rc, 'violation_lines': viol[:5], 'wall_s': round(time.time() - t0, 1),
                 'detected': bool(rc == 1 and viol)}
            for l in viol[:1]:
                m = re.search(r'replay=(\S+)', l)
                if m and os.path.exists(m.group(1)):
                    try:
                        rp = json.load(open(m.group(1)))
                        r['replay'] = {k: rp.get(k) for k in ('finding_key', 'found_by', 'no_failing_input_found', 'required')}
                        r['replay']['broke'] = [b.get('name') for b in rp.get('broke', [])][:5]
                        r['replay']['input'] = json.dumps(rp.get('input'), default=str)[:600]
                    except Exception: pass
            if not r['detected']: r['tail'] = out[-1200:]
            res['checks'][c] = r
        return res
    finally:
        sh(['git', '-C', REPO, 'worktree', 'remove', '--force', wt])
        shutil.rmtree(wt, ignore_errors=True)
        shutil.rmtree(scratch, ignore_errors=True)
        sh(['git', '-C', REPO, 'worktree', 'prune'])


def main():
    ap = argparse.ArgumentParser()
    ap.add_argument('mode', choices=['verify', 'rerun'])
    ap.add_argument('dir')
    ap.add_argument('--checks', default='')
    ap.add_argument('--tier', default='quick')
    ap.add_argument('--skip-tests', action='store_true')
    a = ap.parse_args()
    checks = [c for c in a.checks.split(',') if c]
    res = run(a.dir, checks, a.tier, a.skip_tests)
    with open(os.path.join(a.dir, 'result.json'), 'w') as f: json.dump(res, f, indent=1)
    print(json.dumps(res, indent=1))
    return 0


if __name__ == '__main__':
    sys.exit(main())
