"""Per-property MANIFEST entries (text, note, technique).  Only finished checks are listed."""
CHECKS = {
 'C16': {
  'text': 'Full over the model of float()/int(): fortran_float and fortran_int are translated from the Python AST on every run; Coq proves, for every ASCII string with no length bound, that the generated functions equal a reference model, never raise, agree with float()/int() wherever those accept, return the blank value on blank fields and NaN/None whenever the text contains a character that cannot occur in a number (a theorem about the float() grammar itself). The float()/int() grammar model and the generated functions are run (extracted) against CPython and the real functions on ~110k strings per run; an oracle sweep checks the Fortran-rendering clause on the implementation.',
  'note': 'Trusted: Coq kernel; pyfun.py translator (fail-closed, validated by the correspondence run); PTBase.PyVal/PyStr/PyNum semantics of Python str methods and of the float()/int() grammar on latin-1 strings (validated against the running interpreter, not verified); CPython strtod; extraction (ExtrOcamlBasic, ExtrOcamlString). The rendering clause (D exponents, dropped exponent letter, embedded blanks) is at this commit decided by the oracle sweep plus the generated-code correspondence, not yet by a theorem.',
  'technique': 'Coq proof over AST-translated functions + extracted-model correspondence',
 },
}
NOT_APPLICABLE = {}
