#!/bin/bash
# stage_seeds.sh <out-dir> <Cxx> <first-number>: copy m1..mN of a mutation agent's output to seeded/Cxx-m<k> and verify them
out=$1; pid=$2; k=$3
cd /verif
dirs=""
for m in $out/m*; do
  [ -f $m/patch.diff ] || continue
  d=seeded/$pid-m$k; mkdir -p $d
  cp $m/patch.diff $m/demo.py $m/meta.json $d/
  dirs="$dirs $d"; k=$((k+1))
done
echo $dirs | tr ' ' '\n' | grep . | xargs -P 3 -I{} sh -c 'VERIF_JOBS=6 /venv/bin/python tools/seeded.py verify {} > /tmp/logs/seed-$(basename {}).log 2>&1'
for d in $dirs; do python3 - $d/result.json <<'P'
import json,sys
r=json.load(open(sys.argv[1]))
print(r['candidate'].split('/')[-1], 'valid=',r.get('valid_seed'), r.get('patch_applies'), (r.get('demo_clean') or {}).get('exit'), (r.get('demo_patched') or {}).get('exit'), r.get('tests_same_as_baseline'), {k:(v['detected'],v['wall_s'],(v.get('replay') or {}).get('finding_key')) for k,v in r.get('checks',{}).items()})
P
done
