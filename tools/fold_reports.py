"""Folds reports/Cxx.md (written by the builders of each check) and the seeded-change results
(seeded/*/meta.json + result.json) into DESIGN.md between the markers

    <!-- BEGIN GENERATED: per-check reports -->  ...  <!-- END GENERATED: per-check reports -->
    <!-- BEGIN GENERATED: seeded changes -->     ...  <!-- END GENERATED: seeded changes -->

so that the hand-written parts of DESIGN.md stay hand-written.  Run: python3 tools/fold_reports.py"""
import os, re, json, glob

HERE = os.path.dirname(os.path.dirname(os.path.abspath(__file__)))


def block(name, body, text):
    b, e = '<!-- BEGIN GENERATED: %s -->' % name, '<!-- END GENERATED: %s -->' % name
    if b not in text:
        raise SystemExit('marker missing in DESIGN.md: ' + b)
    pre, rest = text.split(b, 1)
    _, post = rest.split(e, 1)
    return pre + b + '\n' + body.rstrip() + '\n' + e + post


def reports():
    out = []
    for f in sorted(glob.glob(os.path.join(HERE, 'reports', 'C*.md'))):
        pid = os.path.basename(f)[:-3]
        txt = open(f).read().strip()
        txt = re.sub(r'(?m)^(#+) ', lambda m: '#' * min(6, len(m.group(1)) + 3) + ' ', txt)   # demote headings
        out.append('### F.%s\n\n%s\n' % (pid, txt))
    return '\n'.join(out) or '(no reports yet)'


def seeded():
    rows = []
    for d in sorted(glob.glob(os.path.join(HERE, 'seeded', 'C*'))):
        try: meta = json.load(open(os.path.join(d, 'meta.json')))
        except Exception: continue
        res = {}
        if os.path.exists(os.path.join(d, 'result.json')):
            try: res = json.load(open(os.path.join(d, 'result.json')))
            except Exception: res = {}
        sid = os.path.basename(d)
        summ = ' '.join(str(meta.get('summary', '')).split())
        if len(summ) > 230: summ = summ[:227] + '...'
        needs = ' '.join(str(meta.get('needs_to_manifest', '')).split())
        if len(needs) > 200: needs = needs[:197] + '...'
        if meta.get('superseded'):
            verdict = 'superseded: ' + meta['superseded']
        elif not res:
            verdict = 'not run yet (check not registered)'
        elif not res.get('valid_seed'):
            verdict = 'seed rejected (demo clean %s / patched %s, tests same %s)' % (
                (res.get('demo_clean') or {}).get('exit'), (res.get('demo_patched') or {}).get('exit'), res.get('tests_same_as_baseline'))
        else:
            parts = []
            for c, r in sorted((res.get('checks') or {}).items()):
                if r.get('detected'):
                    rp = r.get('replay') or {}
                    how = rp.get('finding_key') or ('no-failing-input-found: ' + ', '.join(str(x) for x in (rp.get('broke') or [])[:2]))
                    parts.append('%s **caught** (%s; %s)' % (c, rp.get('found_by') or 'proof/tie', how))
                else:
                    parts.append('%s MISSED' % c)
            verdict = '; '.join(parts) or 'no check run'
        rows.append('| %s | %s | %s | %s |' % (sid, summ.replace('|', '/'), needs.replace('|', '/'), verdict.replace('|', '/')))
    head = '| seed | change | needs, to manifest | verdict of `./check` (quick tier, scratch worktree) |\n|---|---|---|---|\n'
    return head + '\n'.join(rows)


def status():
    """one row per property: registered?, theorems checked on the last committed evidence, axioms, cases,
    findings fixed / still listed, seeded changes caught"""
    import re
    man = json.load(open(os.path.join(HERE, 'MANIFEST.json')))
    reg = {c['property_id']: c for c in man['checks']}
    na = {c['property_id']: c['reason'] for c in man.get('not_applicable', [])}
    kf = open(os.path.join(HERE, 'known_findings.txt')).read().split('\n')
    rows = []
    for i in range(1, 21):
        pid = 'C%02d' % i
        fixed = [l for l in kf if l.startswith('fixed: property=%s ' % pid)]
        listed = [l for l in kf if l.startswith('finding: property=%s ' % pid)]
        caught = missed = 0
        for d in glob.glob(os.path.join(HERE, 'seeded', pid + '-*')):
            try:
                if json.load(open(os.path.join(d, 'meta.json'))).get('superseded'): continue
                r = json.load(open(os.path.join(d, 'result.json')))
            except Exception: continue
            if not r.get('valid_seed'): continue
            det = any(c.get('detected') for c in (r.get('checks') or {}).values())
            caught += det; missed += (not det)
        ev = {}
        try: ev = json.load(open(os.path.join(HERE, 'evidence', pid + '.json')))
        except Exception: pass
        cov = ev.get('coverage', {})
        thms = cov.get('theorems', [])
        ax = sorted({a.split('.')[0] for t in thms for a in (t.get('axioms') or [])})
        if pid in reg:
            rows.append('| %s | registered | %d | %s | %s | %d fixed, %d listed | %d / %d |' % (
                pid, len([t for t in thms if t.get('status') == 'proved']), ', '.join(ax) or 'none', cov.get('evaluations', '?'),
                len(fixed), len(listed), caught, caught + missed))
        else:
            rows.append('| %s | not claimed: %s | | | | %d fixed, %d listed | |' % (pid, na.get(pid, '?')[:80], len(fixed), len(listed)))
    head = ('| id | status | theorems checked (last quick run) | axiom groups in Print Assumptions | oracle/correspondence evaluations | genuine defects | seeded changes caught |\n'
            '|---|---|---|---|---|---|---|\n')
    return head + '\n'.join(rows)


def fixes():
    """the fix: commits applied to /repo and the findings still listed, from known_findings.txt"""
    import subprocess, re
    kf = open(os.path.join(HERE, 'known_findings.txt')).read().split('\n')
    try:
        log = subprocess.run(['git', '-C', '/repo', 'log', '--format=%h %s'], stdout=subprocess.PIPE, text=True).stdout.split('\n')
    except Exception: log = []
    subj = dict((l.split(' ', 1)[0], l.split(' ', 1)[1]) for l in log if ' ' in l)
    rows = []
    for l in kf:
        m = re.match(r'fixed: property=(\S+) (\S+) (.*)', l)
        if m:
            h = m.group(2)
            s_ = subj.get(h, next((v for k, v in subj.items() if k.startswith(h) or h.startswith(k)), '(commit subject not found)'))
            rows.append('| %s | `%s` | %s |' % (m.group(1), h, s_.replace('|', '/')[:200]))
    out = '| property whose check found it | commit in /repo | commit subject |\n|---|---|---|\n' + '\n'.join(rows)
    rows2 = []
    for l in kf:
        m = re.match(r'finding: property=(\S+) key=(\S+) (.*)', l)
        if m: rows2.append('| %s | `%s` | %s |' % (m.group(1), m.group(2), ' '.join(m.group(3).split())[:260].replace('|', '/')))
    out += '\n\nFindings still listed (recorded, not repaired; each prints a `KNOWN-FINDING:` line when its witness reproduces):\n\n| property | key | what fails |\n|---|---|---|\n' + '\n'.join(rows2)
    return out


def main():
    p = os.path.join(HERE, 'DESIGN.md')
    text = open(p).read()
    text = block('per-check reports', reports(), text)
    text = block('seeded changes', seeded(), text)
    text = block('status table', status(), text)
    text = block('repo fixes', fixes(), text)
    open(p, 'w').write(text)
    print('DESIGN.md updated')


if __name__ == '__main__':
    main()
