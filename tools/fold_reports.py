"""Folds reports/Cxx.md (written by the builders of each check) and the seeded-change results
(seeded/*/meta.json + result.json) into DESIGN.md between the markers

    <!-- BEGIN GENERATED: per-check reports -->  ...  <!-- END GENERATED: per-check reports -->
    <!-- BEGIN GENERATED: seeded changes -->     ...  <!-- END GENERATED: seeded changes -->

so that the hand-written parts of DESIGN.md stay hand-written.  Run: python3 tools/fold_reports.py"""
import os, re, json, glob

HERE = os.path.dirname(os.path.dirname(os.path.abspath(__file__)))


def block(name, body, text):
    b, e = '<!-- BEGIN GENERATED: %s -->' % name, '<!-- END GENERATED: %s -->' % name
    if b not in text:
        raise SystemExit('marker missing in DESIGN.md: ' + b)
    pre, rest = text.split(b, 1)
    _, post = rest.split(e, 1)
    return pre + b + '\n' + body.rstrip() + '\n' + e + post


def reports():
    out = []
    for f in sorted(glob.glob(os.path.join(HERE, 'reports', 'C*.md'))):
        pid = os.path.basename(f)[:-3]
        txt = open(f).read().strip()
        txt = re.sub(r'(?m)^(#+) ', lambda m: '#' * min(6, len(m.group(1)) + 3) + ' ', txt)   # demote headings
        out.append('### F.%s\n\n%s\n' % (pid, txt))
    return '\n'.join(out) or '(no reports yet)'


def seeded():
    rows = []
    for d in sorted(glob.glob(os.path.join(HERE, 'seeded', 'C*'))):
        try: meta = json.load(open(os.path.join(d, 'meta.json')))
        except Exception: continue
        res = {}
        if os.path.exists(os.path.join(d, 'result.json')):
            try: res = json.load(open(os.path.join(d, 'result.json')))
            except Exception: res = {}
        sid = os.path.basename(d)
        summ = ' '.join(str(meta.get('summary', '')).split())
        if len(summ) > 230: summ = summ[:227] + '...'
        needs = ' '.join(str(meta.get('needs_to_manifest', '')).split())
        if len(needs) > 200: needs = needs[:197] + '...'
        if meta.get('superseded'):
            verdict = 'superseded: ' + meta['superseded']
        elif not res:
            verdict = 'not run yet (check not registered)'
        elif not res.get('valid_seed'):
            verdict = 'seed rejected (demo clean %s / patched %s, tests same %s)' % (
                (res.get('demo_clean') or {}).get('exit'), (res.get('demo_patched') or {}).get('exit'), res.get('tests_same_as_baseline'))
        else:
            parts = []
            for c, r in sorted((res.get('checks') or {}).items()):
                if r.get('detected'):
                    rp = r.get('replay') or {}
                    how = rp.get('finding_key') or ('no-failing-input-found: ' + ', '.join(str(x) for x in (rp.get('broke') or [])[:2]))
                    parts.append('%s **caught** (%s; %s)' % (c, rp.get('found_by') or 'proof/tie', how))
                else:
                    parts.append('%s MISSED' % c)
            verdict = '; '.join(parts) or 'no check run'
        rows.append('| %s | %s | %s | %s |' % (sid, summ.replace('|', '/'), needs.replace('|', '/'), verdict.replace('|', '/')))
    head = '| seed | change | needs, to manifest | verdict of `./check` (quick tier, scratch worktree) |\n|---|---|---|---|\n'
    return head + '\n'.join(rows)


def main():
    p = os.path.join(HERE, 'DESIGN.md')
    text = open(p).read()
    text = block('per-check reports', reports(), text)
    text = block('seeded changes', seeded(), text)
    open(p, 'w').write(text)
    print('DESIGN.md updated')


if __name__ == '__main__':
    main()
