"""C16 -- Fortran-written numbers are read with Fortran's meaning, and never raise.

tie: T (fortran_float/fortran_int translated from the AST on every run) + H (CPython's
float()/int() grammar, Base/PyNum.v, validated against the running interpreter; the rendering
functions of coq/C16/Styles.v and IntRender.v, run extracted against an independent formatter).
Purity (the result is a function of the text and the caller's blank value only) holds of the model by
construction and is only TESTED on the implementation (call_order)."""
import os, sys, math, struct, itertools, random
import vf
from translate import pyfun

ALPHABET = '019+-.eEdD_ *naif'      # 17 characters


def bits(x):
    return struct.pack('<d', x)


def model_value(line):
    """Parse one canonical model line into a comparable Python value."""
    if line.startswith('F '):
        _, ng, m, e = line.split(' ')
        e = int(e)
        # strtod on the exact decimal text: the trusted decimal->double step
        return ('f', bits(float('%s%se%d' % ('-' if ng == '1' else '', m, e))))
    if line.startswith('INF '): return ('f', bits(-math.inf if line[4] == '1' else math.inf))
    if line == 'NAN': return ('nan',)
    if line == 'NONE': return ('none',)
    if line.startswith('I '): return ('i', int(line[2:]))
    if line.startswith('S '): return ('s', bytes.fromhex(line[2:]).decode('latin-1'))
    if line.startswith('RAISE '): return ('raise', line[6:])
    if line == 'ERR': return ('raise', 'ValueError')
    return ('?', line)


def impl_value(f, *a):
    try: r = f(*a)
    except Exception as e: return ('raise', type(e).__name__)
    if r is None: return ('none',)
    if isinstance(r, float):
        return ('nan',) if r != r else ('f', bits(r))
    if isinstance(r, int): return ('i', r)
    if isinstance(r, str): return ('s', r)
    return ('?', repr(r))


def render_real(rng):
    """One Fortran rendering of a random real, with the value Fortran would read back
    (computed from the canonical E form by strtod, independently of the code under test)."""
    nd = rng.choice([1, 2, 3, 5, 7, 8, 13, 15, 16, 17, rng.randint(1, 17)])
    digs = ''.join(rng.choice('0123456789') for _ in range(nd))
    if rng.random() < 0.8: digs = rng.choice('123456789') + digs[1:]
    e = rng.choice([0, 1, -1, 9, 10, -9, -10, 99, 100, -99, -100, 300, -300, rng.randint(-300, 300)])
    neg = rng.random() < 0.4
    form = rng.choice(['d.ddd', '0.ddd', '.ddd', 'ddd.'])
    if form == 'd.ddd': mant = digs[0] + '.' + digs[1:]
    elif form == '0.ddd': mant = '0.' + digs
    elif form == '.ddd': mant = '.' + digs
    else: mant = digs + '.'
    canonical = ('-' if neg else '') + mant + 'e' + str(e)
    sign = '-' if neg else rng.choice(['', '', '+'])
    style = rng.choice(['E', 'D', 'e', 'd', 'none', 'blankplus', 'noexp'])
    ae = abs(e)
    if style == 'noexp':
        canonical = ('-' if neg else '') + mant
        text = sign + mant
    elif style == 'none' and ae >= 100:
        text = sign + mant + ('-' if e < 0 else '+') + '%03d' % ae
    elif style == 'blankplus' and e >= 0:
        text = sign + mant + rng.choice('EDed') + ' ' + ('%02d' % ae)
    else:
        letter = style if style in 'EDed' else rng.choice('EDed')
        text = sign + mant + letter + ('-' if e < 0 else '+') + ('%02d' % ae if rng.random() < 0.7 else '%03d' % ae)
    pad = rng.random()
    if pad < 0.3: text = ' ' * rng.randint(1, 6) + text
    elif pad < 0.45: text = text + ' ' * rng.randint(1, 4)
    elif pad < 0.6: text = ' ' * rng.randint(1, 3) + text + ' ' * rng.randint(1, 3)
    if rng.random() < 0.15:     # an embedded blank anywhere inside the field
        i = rng.randint(1, len(text) - 1)
        text = text[:i] + ' ' + text[i:]
    return text, float(canonical), style


def render_int(rng):
    n = rng.choice([0, 1, -1, 9, 10, 99, 100, 99999, rng.randint(-10**9, 10**9), rng.randint(-999, 999)])
    text = str(n)
    if n >= 0 and rng.random() < 0.2: text = '+' + text
    text = ' ' * rng.randint(0, 6) + text + ' ' * rng.randint(0, 3)
    if rng.random() < 0.15 and len(text) > 1:
        i = rng.randint(1, len(text) - 1); text = text[:i] + ' ' + text[i:]
    return text, n


def py_render_real(neg, digs, e, plus, lead0, scale, ek, el, ep, ew, gaps):
    """Independent formatter written from Fortran's edit-descriptor rules (Ew.d / Dw.d / ESw.d / kP /
    Ew.dEe / Fw.d / SP), NOT from the Coq definition: the real (-1)^neg * 0.digs * 10^e with `scale`
    digits before the point, exponent part ek = 'L' letter el + sign (ep: '+', 'b' blank, 'n' nothing
    for a non-negative exponent) + at least ew digits, 'D' letter dropped, 'N' no exponent; gaps[i]
    blanks in front of the i-th character, gaps[len] blanks at the end."""
    k = min(scale, len(digs))
    pe = e - k
    body = ('-' if neg else '+' if plus else '') + ('0' if lead0 else '') + digs[:k] + '.' + digs[k:]
    if ek != 'N':
        sg = '-' if pe < 0 else ('+' if ek == 'D' else {'+': '+', 'b': ' ', 'n': ''}[ep])
        body += (el if ek == 'L' else '') + sg + str(abs(pe)).zfill(ew)
    return put_blanks(body, gaps)


def py_render_int(z, plus, m, gaps):
    return put_blanks(('-' if z < 0 else '+' if plus else '') + str(abs(z)).zfill(m), gaps)


def put_blanks(body, gaps):
    g = lambda i: gaps[i] if i < len(gaps) else 0
    return ''.join(' ' * g(i) + c for i, c in enumerate(body)) + ' ' * g(len(body))


def gen_gaps(rng, n):
    """blank placement for a text of n characters: padding in front / behind, sometimes blanks inside"""
    gaps = [0] * (n + 1)
    r = rng.random()
    if r < 0.5: gaps[0] = rng.randint(1, 6)
    if 0.35 < r < 0.7: gaps[n] = rng.randint(1, 4)
    if rng.random() < 0.3:
        for _ in range(rng.choice([1, 1, 2, 3, n])):
            gaps[rng.randint(0, n)] += rng.randint(1, 2)
    while gaps and gaps[-1] == 0: gaps.pop()
    return gaps


def styled_real(rng):
    nd = rng.choice([1, 2, 3, 5, 7, 8, 13, 15, 16, 17, rng.randint(1, 17), rng.randint(18, 40)])
    digs = ''.join(rng.choice('0123456789') for _ in range(nd))
    if rng.random() < 0.8: digs = rng.choice('123456789') + digs[1:]
    e = rng.choice([0, 1, -1, 9, 10, -9, -10, 99, 100, 101, -98, -99, -100, 300, -300, rng.randint(-300, 300), rng.randint(-300, 300), rng.choice([-400, 400, 1000])])
    neg = rng.random() < 0.4
    plus = rng.random() < 0.25
    lead0 = rng.random() < 0.5
    scale = rng.choice([0, 0, 1, 1, nd, rng.randint(0, nd + 2)])
    ek = rng.choice('LLLLDDN')
    el = rng.choice('EeDd'); ep = rng.choice('++bn'); ew = rng.choice([1, 2, 2, 3, 3, 4])
    if ek == 'N': e = min(scale, nd)          # Fw.d output: the point stands where the exponent says
    p = (neg, digs, e, plus, lead0, scale, ek, el, ep, ew)
    n = len(py_render_real(*p, gaps=[]))
    return p + (gen_gaps(rng, n),)


def styled_int(rng):
    z = rng.choice([0, 1, -1, 9, 10, -10, 99, 100, 99999, rng.randint(-10**9, 10**9), rng.randint(-999, 999), rng.randint(-10**30, 10**30)])
    plus = rng.random() < 0.2
    m = rng.choice([0, 0, 0, 1, 3, 5, 8])
    n = len(py_render_int(z, plus, m, []))
    return (z, plus, m, gen_gaps(rng, n))


def style_name(p):
    neg, digs, e, plus, lead0, scale, ek, el, ep, ew, gaps = p
    return {'L': 'letter-%s/%s' % (el, {'+': 'plus', 'b': 'blank-for-plus', 'n': 'no-sign'}[ep]), 'D': 'letter-dropped', 'N': 'no-exponent'}[ek]


def styles(ctx, exe, n_real, n_int):
    """The rendering FUNCTIONS the Coq theorems fortran_float_every_style / fortran_int_rendering speak
    about (Styles.render, IntRender.render_int, run extracted) against an independent Fortran-style
    formatter, and the property clause on the implementation: the printed text is read back as the
    value Fortran would read (strtod of the canonical E form / the integer)."""
    import fixed_format_file as fff
    rng = random.Random(ctx.seed + 16)
    b = lambda x: '1' if x else '0'
    reals = [styled_real(rng) for _ in range(n_real)]
    ints = [styled_int(rng) for _ in range(n_int)]
    rtexts = [py_render_real(*p) for p in reals]
    itexts = [py_render_int(*p) for p in ints]
    if exe:
        lines = ['\t'.join(['rr', b(neg), digs, str(e), b(plus), b(lead0), str(scale), ek, el, ep, str(ew), ','.join(map(str, gaps))])
                 for (neg, digs, e, plus, lead0, scale, ek, el, ep, ew, gaps) in reals]
        lines += ['\t'.join(['ri', str(z), b(plus), str(m), ','.join(map(str, gaps))]) for (z, plus, m, gaps) in ints]
        out = vf.run_driver(exe, lines)
        for p, t, o in zip(reals, rtexts, out[:len(reals)]):
            h, _, val = o.partition('\t')
            try: mt = bytes.fromhex(h).decode('latin-1')
            except ValueError: mt = None
            neg, digs, e = p[0], p[1], p[2]
            if mt != t:
                ctx.disagreement('Styles.render-vs-fortran-formatter', {'real': list(p)}, o, repr(t))
            elif model_value(val) != ('f', bits(float(('-' if neg else '') + '0.' + digs + 'e' + str(e)))):
                ctx.disagreement('Styles.real_value-vs-strtod', {'real': list(p)}, val, '0.%se%d' % (digs, e))
        for p, t, o in zip(ints, itexts, out[len(reals):]):
            try: mt = bytes.fromhex(o).decode('latin-1')
            except ValueError: mt = None
            if mt != t:
                ctx.disagreement('IntRender.render_int-vs-fortran-formatter', {'int': list(p)}, o, repr(t))
        ctx.corr_cases('Styles.render-vs-fortran-formatter', len(reals))
        ctx.corr_cases('IntRender.render_int-vs-fortran-formatter', len(ints))
        ctx.corr_cases('Styles.real_value-vs-strtod', len(reals))
    dist = {}
    for i, (p, text) in enumerate(zip(reals, rtexts)):
        neg, digs, e = p[0], p[1], p[2]
        want = float(('-' if neg else '') + '0.' + digs + 'e' + str(e))
        dist[style_name(p)] = dist.get(style_name(p), 0) + 1
        got = impl_value(fff.fortran_float, text, 0.0)
        ctx.count(('styled-real', text))
        if i < 3: ctx.sample({'rendering': text, 'style': style_name(p), 'fortran_value': want, 'read': repr(got)})
        if got != ('f', bits(want)):
            ctx.failure('fortran-styles', 'fortran_float:rendering', {'text': text}, repr(got), 'float %r' % want)
    ctx.oracle_cases('fortran-styles', len(reals), styles=dist)
    for p, text in zip(ints, itexts):
        got = impl_value(fff.fortran_int, text, 0)
        ctx.count(('styled-int', text))
        if got != ('i', p[0]):
            ctx.failure('fortran-int-styles', 'fortran_int:rendering', {'text': text}, repr(got), 'int %r' % p[0])
    ctx.oracle_cases('fortran-int-styles', len(ints))


def gen_strings(ctx):
    maxlen = 5 if ctx.thorough else 4
    exh = [''.join(t) for n in range(0, maxlen + 1) for t in itertools.product(ALPHABET, repeat=n)]
    rng = ctx.rng
    rnd = []
    printable = ''.join(chr(i) for i in range(32, 127))
    numish = '0123456789+-.eEdD _'
    for _ in range(200000 if ctx.thorough else 20000):
        n = rng.randint(1, 20)
        pool = numish if rng.random() < 0.7 else printable
        rnd.append(''.join(rng.choice(pool) for _ in range(n)))
    edge = ['1_0', '1__0', '_1', '1_', '1_.5', '1._5', '1.5_e3', '1.5e_3', '1.5e3_', 'inf', 'INF', '-Infinity', 'infinit', 'nan', '-nan',
            '+NaN', '1e400', '1e-400', '\t1.5\n', '1.5\x0b', '\x1c1\x1f', '0x10', '1,5', '١', '1.e5', '.e5', 'e5', '1e', '1e+', '.', '+.', '-.',
            '1.5-100', '1.5+100', '-1.5-100', '+1.5+100', '.5-100', '-.5+100', '1.5d-100', '1.5 d 3', '1.5e 05', '- 1.5', '1 .5',
            '*' * 10, '1.5*', '  **  ', '1-5-100', '1.5--100', '1.5e-100-3', '1.5+', '1.5-', '+', '-', '++1', '--1', '+-1', 'd', 'D5', '1d', '1D+', ' d ',
            '123456789012345678901234567890', '0.' + '0' * 30 + '1', '١٢', 'é']
    edge = [s for s in edge if all(ord(c) < 256 for c in s)]
    return exh, rnd, edge


class GlueRefusal(Exception):
    pass


def readers_glue(path):
    """Module-level glue of fixed_format_file.py, walked on the AST (never imported), fail-closed:
      fortran_read_float = partial(fortran_float, blank_value = None)      (and _int)
      def read_function_dict(floatfn=..., intfn=..., strfn=..., spacefn=...): literal dict + for loop
      fortran_read_function = read_function_dict(fortran_read_float, fortran_read_int)
    -> Gallina: gen_fortran_read_float/int (the partial applications) and the table
    gen_fortran_read_function : list (ascii * (pyval -> res pyval)) of the keys bound to them, plus
    gen_fortran_read_other_keys (keys left to the non-numeric default readers)."""
    import ast
    tree = ast.parse(open(path).read())
    def bad(what, node=None):
        raise GlueRefusal('%s%s' % (what, ' at line %d' % node.lineno if node is not None and hasattr(node, 'lineno') else ''))
    assigns, fdef, ven, imports_partial = {}, None, None, False
    def nodoc(b): return [s for s in b if not (isinstance(s, ast.Expr) and isinstance(s.value, ast.Constant) and isinstance(s.value.value, str))]
    for st in tree.body:
        if isinstance(st, ast.ImportFrom) and st.module == 'functools' and any(a.name == 'partial' and a.asname is None for a in st.names):
            imports_partial = True
        if isinstance(st, ast.Assign):
            for tg in st.targets:
                names = [tg.id] if isinstance(tg, ast.Name) else [n.id for n in ast.walk(tg) if isinstance(n, ast.Name)]
                for nm in names:
                    if nm in ('fortran_read_float', 'fortran_read_int', 'fortran_read_function', 'partial',
                              'fortran_float', 'fortran_int', 'read_function_dict', 'default_read_float', 'default_read_int',
                              'default_read_function', 'value_error_none', 'float', 'int', 'ValueError'):
                        if nm in assigns or len(st.targets) != 1 or not isinstance(tg, ast.Name): bad('re-assignment of ' + nm, st)
                        assigns[nm] = st
        elif isinstance(st, (ast.AugAssign, ast.AnnAssign, ast.Delete)):
            bad('unexpected module-level statement', st)
        elif isinstance(st, (ast.FunctionDef, ast.ClassDef)):
            if st.name == 'read_function_dict':
                if fdef is not None or not isinstance(st, ast.FunctionDef): bad('read_function_dict defined twice', st)
                fdef = st
            elif st.name == 'value_error_none':
                if ven is not None or not isinstance(st, ast.FunctionDef): bad('value_error_none defined twice', st)
                ven = st
            elif st.name in ('fortran_read_float', 'fortran_read_int', 'fortran_read_function', 'partial',
                             'default_read_float', 'default_read_int', 'default_read_function', 'float', 'int', 'ValueError'):
                bad('def/class shadows ' + st.name, st)
    for nm in ('partial', 'fortran_float', 'fortran_int', 'read_function_dict', 'value_error_none', 'float', 'int', 'ValueError'):
        if nm in assigns: bad('module-level assignment to ' + nm, assigns[nm])
    if not imports_partial: bad('from functools import partial not found')
    # the partial applications
    out = []
    for nm, base in (('fortran_read_float', 'fortran_float'), ('fortran_read_int', 'fortran_int')):
        st = assigns.get(nm)
        if st is None: bad(nm + ' not assigned')
        c = st.value
        if not (isinstance(c, ast.Call) and isinstance(c.func, ast.Name) and c.func.id == 'partial'
                and len(c.args) == 1 and isinstance(c.args[0], ast.Name) and c.args[0].id == base
                and len(c.keywords) == 1 and c.keywords[0].arg == 'blank_value'
                and isinstance(c.keywords[0].value, ast.Constant) and c.keywords[0].value.value is None):
            bad(nm + ' is not partial(%s, blank_value = None)' % base, st)
        out.append('(* fixed_format_file.py:%d  %s = partial(%s, blank_value = None) *)\n'
                   'Definition gen_%s (v_s : pyval) : res pyval := gen_%s v_s VNone.\n' % (st.lineno, nm, base, nm, base))
    # value_error_none(f): def fn(x): try: return f(x) / except ValueError: return None ; return fn
    if ven is None: bad('value_error_none not found')
    va = ven.args
    if va.vararg or va.kwarg or va.kwonlyargs or va.posonlyargs or va.defaults or ven.decorator_list or len(va.args) != 1:
        bad('value_error_none signature', ven)
    fpar = va.args[0].arg
    vb = nodoc(ven.body)
    ok = len(vb) == 2 and isinstance(vb[0], ast.FunctionDef) and isinstance(vb[1], ast.Return) \
        and isinstance(vb[1].value, ast.Name) and vb[1].value.id == vb[0].name and vb[0].name != fpar
    if ok:
        inner = vb[0]; ia = inner.args
        ok = not (ia.vararg or ia.kwarg or ia.kwonlyargs or ia.posonlyargs or ia.defaults or inner.decorator_list) \
            and len(ia.args) == 1 and ia.args[0].arg not in (fpar, inner.name)
    if ok:
        xpar = ia.args[0].arg; ib = nodoc(inner.body)
        ok = len(ib) == 1 and isinstance(ib[0], ast.Try) and not ib[0].orelse and not ib[0].finalbody \
            and len(ib[0].body) == 1 and isinstance(ib[0].body[0], ast.Return) and len(ib[0].handlers) == 1
    if ok:
        r = ib[0].body[0].value; h = ib[0].handlers[0]
        ok = isinstance(r, ast.Call) and isinstance(r.func, ast.Name) and r.func.id == fpar and not r.keywords \
            and len(r.args) == 1 and isinstance(r.args[0], ast.Name) and r.args[0].id == xpar \
            and isinstance(h.type, ast.Name) and h.type.id == 'ValueError' and h.name is None \
            and len(h.body) == 1 and isinstance(h.body[0], ast.Return) \
            and (h.body[0].value is None or (isinstance(h.body[0].value, ast.Constant) and h.body[0].value.value is None))
    if not ok: bad('value_error_none is not  def fn(x): try: return f(x) / except ValueError: return None;  return fn', ven)
    out.append('(* fixed_format_file.py:%d  value_error_none *)\n'
               'Definition gen_value_error_none (f : pyval -> res pyval) (v_x : pyval) : res pyval :=\n'
               '  (try_ (f v_x) [(catch ValueError, Ok VNone)]).\n' % ven.lineno)
    for nm, builtin in (('default_read_float', 'float'), ('default_read_int', 'int')):
        st = assigns.get(nm)
        if st is None: bad(nm + ' not assigned')
        c = st.value
        if not (st.lineno > ven.lineno and isinstance(c, ast.Call) and isinstance(c.func, ast.Name) and c.func.id == 'value_error_none'
                and not c.keywords and len(c.args) == 1 and isinstance(c.args[0], ast.Name) and c.args[0].id == builtin):
            bad(nm + ' is not value_error_none(%s)' % builtin, st)
        out.append('(* fixed_format_file.py:%d  %s = value_error_none(%s) *)\n'
                   'Definition gen_%s : pyval -> res pyval := gen_value_error_none b_%s.\n' % (st.lineno, nm, builtin, nm, builtin))
    # read_function_dict: symbolic evaluation key -> parameter name
    if fdef is None: bad('read_function_dict not found')
    a = fdef.args
    if a.vararg or a.kwarg or a.kwonlyargs or a.posonlyargs or fdef.decorator_list: bad('read_function_dict signature', fdef)
    params = [x.arg for x in a.args]
    body = nodoc(fdef.body)
    if len(body) < 2 or not isinstance(body[-1], ast.Return): bad('read_function_dict body shape', fdef)
    def key(n):
        if isinstance(n, ast.Constant) and isinstance(n.value, str) and len(n.value) == 1 and n.value.isalpha() and n.value.isascii(): return n.value
        bad('dictionary key is not a one-letter literal', n)
    def par(n):
        if isinstance(n, ast.Name) and n.id in params: return n.id
        bad('dictionary value is not a parameter', n)
    first = body[0]
    if not (isinstance(first, ast.Assign) and len(first.targets) == 1 and isinstance(first.targets[0], ast.Name)
            and isinstance(first.value, ast.Dict)): bad('read_function_dict: first statement is not var = {...}', first)
    var = first.targets[0].id
    if var in params: bad('result variable shadows a parameter', first)
    table = {}
    for k, v in zip(first.value.keys, first.value.values):
        if k is None: bad('dict unpacking', first)
        table[key(k)] = par(v)
    for st in body[1:-1]:
        if isinstance(st, ast.Assign) and len(st.targets) == 1 and isinstance(st.targets[0], ast.Subscript) \
           and isinstance(st.targets[0].value, ast.Name) and st.targets[0].value.id == var:
            table[key(st.targets[0].slice)] = par(st.value)
        elif isinstance(st, ast.For) and isinstance(st.target, ast.Name) and not st.orelse and isinstance(st.iter, (ast.List, ast.Tuple)) \
             and len(st.body) == 1 and isinstance(st.body[0], ast.Assign) and len(st.body[0].targets) == 1 \
             and isinstance(st.body[0].targets[0], ast.Subscript) and isinstance(st.body[0].targets[0].value, ast.Name) \
             and st.body[0].targets[0].value.id == var and isinstance(st.body[0].targets[0].slice, ast.Name) \
             and st.body[0].targets[0].slice.id == st.target.id and st.target.id not in params and st.target.id != var:
            p_ = par(st.body[0].value)
            for e in st.iter.elts: table[key(e)] = p_
        else: bad('read_function_dict: unsupported statement', st)
    ret = body[-1].value
    if not (isinstance(ret, ast.Name) and ret.id == var): bad('read_function_dict does not return its dictionary', body[-1])
    # parameter defaults (plain names only)
    if len(a.defaults) > len(params) or not all(isinstance(d_, ast.Name) for d_ in a.defaults): bad('read_function_dict defaults', fdef)
    defaults = dict(zip(params[len(params) - len(a.defaults):], [d_.id for d_ in a.defaults]))
    def dictionary(name, needs, numeric):
        # <name> = read_function_dict(<names>) -> rows of the keys bound to the readers in [numeric], other keys
        st = assigns.get(name)
        if st is None: bad(name + ' not assigned')
        if not (st.lineno > fdef.lineno and all(st.lineno > assigns[n_].lineno for n_ in needs)):
            bad(name + ' assigned before its ingredients', st)
        c = st.value
        if not (isinstance(c, ast.Call) and isinstance(c.func, ast.Name) and c.func.id == 'read_function_dict'
                and all(isinstance(x, ast.Name) for x in c.args) and all(isinstance(k.value, ast.Name) and k.arg for k in c.keywords)):
            bad(name + ' is not read_function_dict(<names>)', st)
        bound = {}
        if len(c.args) > len(params): bad('too many arguments', st)
        for p_, x in zip(params, c.args): bound[p_] = x.id
        for k in c.keywords:
            if k.arg not in params or k.arg in bound: bad('bad keyword argument', st)
            bound[k.arg] = k.value.id
        for p_ in params:
            if p_ not in bound:
                if p_ not in defaults: bad('missing argument ' + p_, st)
                bound[p_] = defaults[p_]
        rows, others = [], []
        for k in sorted(table):
            fn = bound.get(table[k])
            if fn in numeric: rows.append('("%s"%%char, gen_%s)' % (k, fn))
            else: others.append('"%s"%%char' % k)
        stem = 'gen_' + name.replace('_function', '')
        out.append('(* fixed_format_file.py:%d  %s = read_function_dict(%s), dictionary built at line %d *)\n'
                   'Definition gen_%s : list (ascii * (pyval -> res pyval)) :=\n  [%s].\n'
                   'Definition %s_other_keys : list ascii := [%s].\n'
                   % (st.lineno, name, ', '.join([x.id for x in c.args] + ['%s=%s' % (k.arg, k.value.id) for k in c.keywords]),
                      fdef.lineno, name, '; '.join(rows), stem, '; '.join(others)))
    # the defaults are evaluated at the def: the default readers must exist by then
    if not all(assigns[n_].lineno < fdef.lineno for n_ in ('default_read_float', 'default_read_int')):
        bad('read_function_dict defined before the default readers', fdef)
    dictionary('fortran_read_function', ('fortran_read_float', 'fortran_read_int'), ('fortran_read_float', 'fortran_read_int'))
    dictionary('default_read_function', ('default_read_float', 'default_read_int'), ('default_read_float', 'default_read_int'))
    return '\n' + '\n'.join(out)


def translate(ctx):
    path = os.path.join(ctx.repo, 'fixed_format_file.py')
    try:
        t = pyfun.Translator(path)
        t.translate('fortran_float'); t.translate('fortran_int')
        text = pyfun.HEADER + t.text()
    except pyfun.Refusal as e:
        ctx.refusal('pyfun(fortran_float, fortran_int)', e)
        return False
    try:
        text += readers_glue(path)
    except GlueRefusal as e:
        ctx.refusal('glue(fortran_read_float, fortran_read_int, read_function_dict, fortran_read_function)', e)
        return False
    ctx.gen('GenFortran', text)
    return True


def correspond(ctx, exe, strings):
    import fixed_format_file as fff
    lines, expect = [], []
    for s in strings:
        h = vf.hexs(s)
        lines.append('pf\t' + h); expect.append(impl_value(float, s))
        lines.append('pi\t' + h); expect.append(impl_value(int, s))
        lines.append('ff\t' + h); expect.append(impl_value(fff.fortran_float, s, 'BLANK'))
        lines.append('fi\t' + h); expect.append(impl_value(fff.fortran_int, s, 'BLANK'))
    out = vf.run_driver(exe, lines)
    names = {'pf': 'py_float-vs-CPython-float', 'pi': 'py_int-vs-CPython-int',
             'ff': 'gen_fortran_float-vs-fortran_float', 'fi': 'gen_fortran_int-vs-fortran_int'}
    cnt = {k: 0 for k in names}
    kinds = {}
    for l, o, e in zip(lines, out, expect):
        k = l[:2]; cnt[k] += 1
        m = model_value(o)
        kinds[e[0]] = kinds.get(e[0], 0) + 1
        if m != e:
            ctx.disagreement(names[k], {'kind': k, 'string': bytes.fromhex(l[3:]).decode('latin-1')}, o, repr(e))
    for k, n in cnt.items(): ctx.corr_cases(names[k], n)
    ctx.extra['input_distribution'] = {'result_kinds_of_implementation': kinds, 'strings': len(strings)}


def oracle(ctx, n_real, n_int, strings):
    """The property statement evaluated on the implementation alone."""
    import fixed_format_file as fff
    rng = ctx.rng
    styles = {}
    for i in range(n_real):
        text, want, style = render_real(rng)
        styles[style] = styles.get(style, 0) + 1
        got = impl_value(fff.fortran_float, text, 0.0)
        ctx.count(('real', text))
        if i < 4: ctx.sample({'rendering': text, 'fortran_value': want, 'read': repr(got)})
        if got != ('f', bits(want)):
            ctx.failure('fortran-renderings', 'fortran_float:rendering', {'text': text}, repr(got), 'float %r' % want)
    ctx.oracle_cases('fortran-renderings', n_real, styles=styles)
    for i in range(n_int):
        text, want = render_int(rng)
        got = impl_value(fff.fortran_int, text, 0)
        ctx.count(('int', text))
        if got != ('i', want):
            ctx.failure('fortran-int-renderings', 'fortran_int:rendering', {'text': text}, repr(got), 'int %r' % want)
    ctx.oracle_cases('fortran-int-renderings', n_int)
    bad = set(chr(i) for i in range(256)) - set('0123456789+-._ \t\n\r\x0b\x0c\x1c\x1d\x1e\x1f') - set('edinftyaEDINFTYA')
    badi = set(chr(i) for i in range(256)) - set('0123456789+-_ \t\n\r\x0b\x0c\x1c\x1d\x1e\x1f')
    n = 0
    for s in strings:
        n += 1
        ctx.count(('str', s), nontrivial=bool(s.strip()))
        rf = impl_value(fff.fortran_float, s, 'BLANK')
        ri = impl_value(fff.fortran_int, s, 'BLANK')
        if rf[0] == 'raise':
            ctx.failure('never-raises', 'fortran_float:raises', {'text': s}, repr(rf), 'no exception')
        if ri[0] == 'raise':
            ctx.failure('never-raises', 'fortran_int:raises', {'text': s}, repr(ri), 'no exception')
        if not s.strip():
            if rf != ('s', 'BLANK'): ctx.failure('blank', 'fortran_float:blank', {'text': s}, repr(rf), 'blank value')
            if ri != ('s', 'BLANK'): ctx.failure('blank', 'fortran_int:blank', {'text': s}, repr(ri), 'blank value')
            continue
        pf = impl_value(float, s)
        if pf[0] != 'raise' and rf != pf:
            ctx.failure('py-compatible', 'fortran_float:py-compatible', {'text': s}, repr(rf), repr(pf))
        pi = impl_value(int, s)
        if pi[0] != 'raise' and ri != pi:
            ctx.failure('py-compatible', 'fortran_int:py-compatible', {'text': s}, repr(ri), repr(pi))
        if any(c in bad for c in s) and rf != ('nan',):
            ctx.failure('bad-char', 'fortran_float:bad-char', {'text': s}, repr(rf), 'nan')
        if any(c in badi for c in s) and ri != ('none',):
            ctx.failure('bad-char', 'fortran_int:bad-char', {'text': s}, repr(ri), 'None')
    ctx.oracle_cases('string-sweep', n)
    call_order(ctx, strings)


def call_order(ctx, strings):
    """The readers are functions of (text, caller's blank value) only: the same text read through
    the differently configured entry points (explicit blank values, the defaults 0.0 / 0, the
    blank_value=None partials fortran_read_float / fortran_read_int used by t2incon and the
    fortran read-function dictionary), in every order within one process, gives each caller its own
    blank value on blank fields and the same value as a first call on everything else."""
    import fixed_format_file as fff
    rng = ctx.rng
    blanks = ['', ' ', '     ', '\t', ' \n', ' ' * 10, ' ' * 20]
    others = [s for s in strings if s.strip()]
    sample = blanks + [rng.choice(others) for _ in range(400)] if others else blanks
    fdict = getattr(fff, 'fortran_read_function', {})
    readers = [('fortran_float(s)', lambda s: fff.fortran_float(s), 0.0, 'f'),
               ('fortran_float(s, "A")', lambda s: fff.fortran_float(s, 'A'), 'A', 'f'),
               ('fortran_float(s, blank_value=-1.5)', lambda s: fff.fortran_float(s, blank_value=-1.5), -1.5, 'f'),
               ('fortran_read_float(s)', lambda s: fff.fortran_read_float(s), None, 'f'),
               ('fortran_int(s)', lambda s: fff.fortran_int(s), 0, 'i'),
               ('fortran_int(s, "B")', lambda s: fff.fortran_int(s, 'B'), 'B', 'i'),
               ('fortran_int(s, blank_value=7)', lambda s: fff.fortran_int(s, blank_value=7), 7, 'i'),
               ('fortran_read_int(s)', lambda s: fff.fortran_read_int(s), None, 'i')]
    if 'e' in fdict: readers.append(("fortran_read_function['e'](s)", lambda s: fdict['e'](s), None, 'f'))
    if 'd' in fdict: readers.append(("fortran_read_function['d'](s)", lambda s: fdict['d'](s), None, 'i'))

    def canon(v):
        if isinstance(v, float): return ('f', bits(v)) if v == v else ('nan',)
        return ('v', repr(v))
    n = 0
    for s in sample:
        first = {}
        for rep in range(3):
            order = list(range(len(readers)))
            rng.shuffle(order)
            for k in order:
                name, fn, blank, kind = readers[k]
                n += 1
                try: got = canon(fn(s))
                except Exception as e: got = ('raise', type(e).__name__)
                ctx.count(('order', s, name, rep), nontrivial=(rep == 0))
                if not s.strip():
                    if got != canon(blank):
                        ctx.failure('call-order', 'fortran_read:blank-value-not-the-callers',
                                    {'text': s, 'call': name, 'earlier_calls_in_process': [readers[j][0] for j in order[:order.index(k)]]},
                                    repr(got), "the caller's blank value %r" % (blank,))
                else:
                    ref = first.setdefault(kind, got)
                    if got != ref:
                        ctx.failure('call-order', 'fortran_read:depends-on-earlier-calls', {'text': s, 'call': name},
                                    repr(got), 'the value %r every other entry point returns for this text' % (ref,))
    ctx.oracle_cases('call-order', n, readers=len(readers), texts=len(sample))

def field(text, w):
    return text.rjust(w) if len(text) <= w else None


def dictionaries(ctx, rounds, n_probes, n_files):
    """The module-level reader DICTIONARIES (fortran_read_function: what t2incon and every parser given it
    read numbers with) and Fortran dictionaries a caller builds with read_function_dict(fortran_read_float,
    fortran_read_int) keep Fortran's meaning whatever else happens in the process: other dictionaries being
    built with the public helper (with no, strict, or custom readers), those dictionaries being used, edited
    or emptied by their owner, parsers and t2incon objects being created with other readers - in shuffled
    order, every clause evaluated again after every few steps; directly, and through t2incon() on
    Fortran-written INCON files.  Expectations are independent of the code under test (strtod of the
    canonical E form, the integer, None for blank, nan / None for asterisks)."""
    import fixed_format_file as fff
    import tempfile, shutil
    rng = random.Random(ctx.seed + 61)
    try:
        from t2incons import t2incon
    except Exception as e:       # the readers are still checked directly
        t2incon = None
        ctx.log('C16 dictionaries: t2incons not importable (%r): INCON step skipped' % (e,))

    def canon(v):
        if isinstance(v, float): return ('f', bits(v)) if v == v else ('nan',)
        return ('v', repr(v))
    def shown(c): return repr(struct.unpack('<d', c[1])[0]) if c[0] == 'f' else 'nan' if c[0] == 'nan' else c[1]
    fprobes, iprobes = [], []
    while len(fprobes) < n_probes:
        p = styled_real(rng)
        neg, digs, e = p[0], p[1], p[2]
        fprobes.append((py_render_real(*p), canon(float(('-' if neg else '') + '0.' + digs + 'e' + str(e)))))
    fprobes += [(' 0.1013000000000D+06', canon(0.1013e6)), ('  0.2500000000000-101', canon(0.25e-101)), ('-.1234567890123+105', canon(-.1234567890123e105)),
                (' 1.5 E 03', canon(1.5e3)), ('1.+100', canon(1e100)), ('     ', canon(None)), ('', canon(None)), (' \n', canon(None)),
                ('********', ('nan',)), (' ***', ('nan',))]
    for _ in range(max(4, n_probes // 3)):
        p = styled_int(rng)
        iprobes.append((py_render_int(*p), canon(p[0])))
    iprobes += [('   12', canon(12)), (' 1 2 ', canon(12)), ('- 7', canon(-7)), ('     ', canon(None)), ('', canon(None)), ('*****', canon(None))]

    # Fortran-written INCON files: fields of width 20 (reals), 5 (integers), 15 (porosity)
    tmp = tempfile.mkdtemp(prefix='c16-incon-')
    files = []
    if t2incon is not None:
        for k in range(n_files):
            lines, want = ['INCON'], []
            for b in range(rng.randint(1, 4)):
                vals, texts = [], []
                while len(texts) < rng.randint(1, 4):
                    p = styled_real(rng)
                    t = field(py_render_real(*p).rstrip(), 20)
                    if t is None: continue
                    texts.append(t); vals.append(canon(float(('-' if p[0] else '') + '0.' + p[1] + 'e' + str(p[2]))))
                nseq, nadd = rng.randint(0, 99), rng.randint(1, 9999)
                por = rng.choice(['0.10000000E+00', '0.25000000D+00', ' .3500000e 00', '1.50000000-001'])
                porv = {'0.10000000E+00': 0.1, '0.25000000D+00': 0.25, ' .3500000e 00': 0.35, '1.50000000-001': 0.15}[por]
                lines.append('  a%2d' % (b + 1) + rng.choice(['%5d', '%-5d', '%4d ']) % nseq + '%5d' % nadd + por.rjust(15))
                lines.append(''.join(texts))
                want.append((canon(nseq), canon(nadd), canon(porv), vals))
            fn = os.path.join(tmp, 'f%d.incon' % k)
            with open(fn, 'w') as f: f.write('\n'.join(lines) + '\n\n')
            files.append((fn, want, lines))

    history = []
    mine = []           # Fortran dictionaries built by this caller, with the step at which they were built
    counts = {'reader-calls': 0, 'incon-reads': 0, 'steps': 0, 'parser-reads': 0, 'parser-files': 0}

    def fail(key, inp, got, req):
        inp = dict(inp); inp['earlier_steps_in_process'] = history[-12:]
        ctx.failure('reader-dictionaries', key, inp, repr(got), req)

    def check_dict(name, d):
        for typ, probes in (('f', fprobes), ('e', fprobes), ('g', fprobes), ('d', iprobes)):
            try: rd = d[typ]
            except Exception as e:
                fail('fortran_read_function:changed-by-other-dictionaries', {'dictionary': name, 'type': typ}, ('raise', type(e).__name__), 'a reader for %r' % typ)
                continue
            for text, exp in probes:
                counts['reader-calls'] += 1
                try: got = canon(rd(text))
                except Exception as e: got = ('raise', type(e).__name__)
                ctx.count(('dict', name, typ, text, len(history)), nontrivial=bool(text.strip()))
                if got != exp:
                    fail('fortran_read_function:changed-by-other-dictionaries', {'text': text, 'dictionary': name, 'type': typ}, got,
                         "Fortran's value %s, as before the other dictionaries were built" % (shown(exp),))
                    return

    def check_module(): check_dict('fortran_read_function', fff.fortran_read_function)
    def check_mine():
        for at, d in mine: check_dict('read_function_dict(fortran_read_float, fortran_read_int) built at step %d' % at, d)
    def check_incon():
        if not files: return
        fn, want, lines = rng.choice(files)
        for label, kw in (('t2incon(file)', {}), ('t2incon(file, read_function=fortran_read_function)', {'read_function': fff.fortran_read_function})):
            counts['incon-reads'] += 1
            try:
                inc = t2incon(fn, **kw)
                got = [(canon(b.nseq), canon(b.nadd), canon(b.porosity), [canon(v) for v in b.variable]) for b in inc]
            except Exception as e: got = ('raise', type(e).__name__, str(e)[:80])
            ctx.count(('incon', fn, label, len(history)))
            if got != want:
                fail('fortran_read_function:changed-by-other-dictionaries', {'call': label, 'file_lines': lines}, got, 'the values Fortran wrote (nseq, nadd, porosity, variables): %s' % ([(shown(a), shown(b), shown(c), [shown(v) for v in vs]) for a, b, c, vs in want],))
                return

    def check_parsers():
        """real fixed_format_file objects of ONE specification (a fresh one each time, so every order can be
        played): parsers given the default / custom functions and parsers given fortran_read_function, opened,
        used and kept alive in different orders; every parser given the Fortran functions must read Fortran's values."""
        import copy
        widths = {'d': [5, 6, 10], 'e': [20, 15, 12], 'f': [20, 12], 'g': [20, 15]}
        names, specs, texts, want = [], [], [], []
        for j in range(rng.randint(2, 6)):
            typ = rng.choice('deefgd')
            w = rng.choice(widths[typ])
            while True:
                r = rng.random()
                if r < 0.08: t, exp = ' ' * w, canon(None)
                elif r < 0.16: t, exp = '*' * w, (canon(None) if typ == 'd' else ('nan',))
                elif typ == 'd':
                    q = styled_int(rng); t, exp = field(py_render_int(*q).rstrip(), w), canon(q[0])
                else:
                    q = styled_real(rng)
                    t, exp = field(py_render_real(*q).rstrip(), w), canon(float(('-' if q[0] else '') + '0.' + q[1] + 'e' + str(q[2])))
                if t is not None: break
            if rng.random() < 0.3: t = t.strip().ljust(w)
            names.append('v%d' % j); specs.append('%d%s%s' % (w, '.3' if typ != 'd' else '', typ)); texts.append(t); want.append(exp)
        spec = {'rec': [names, specs], 'other': [['a', 'b'], ['5d', '10.3e']]}
        line = ''.join(texts)
        fn = os.path.join(tmp, 'p%d.txt' % counts['parser-files']); counts['parser-files'] += 1
        with open(fn, 'w') as f: f.write((line + '\n') * 8)
        other = rng.choice([('default_read_function', lambda: fff.default_read_function), ('read_function_dict()', lambda: fff.read_function_dict()),
                            ('read_function_dict(<f>, <g>)', lambda: fff.read_function_dict(lambda x: None, lambda x: None))])
        same = lambda: spec if rng.random() < 0.7 else copy.deepcopy(spec)
        scenario = rng.choice(['other-first', 'fortran-alive-then-other', 'fortran-other-fortran'])
        opened, log = [], []
        def op(kind):
            rf = fff.fortran_read_function if kind == 'F' else other[1]()
            o = fff.fixed_format_file(fn, 'r', same(), rf) if (kind == 'F' or rng.random() < 0.5 or other[0] != 'default_read_function') else fff.fixed_format_file(fn, 'r', same())
            opened.append(o); log.append('open parser with %s' % ('fortran_read_function' if kind == 'F' else other[0])); return o
        def use(o, kind, how):
            log.append('%s on the parser with %s' % (how, 'fortran_read_function' if kind == 'F' else other[0]))
            try: vals = o.read_values('rec') if how == 'read_values' else o.parse_string(line, 'rec')
            except Exception as e: vals = ('raise', type(e).__name__)
            if kind != 'F': return True
            counts['parser-reads'] += 1
            ctx.count(('parser', line, scenario, len(log), len(history)))
            got = [canon(v) for v in vals] if isinstance(vals, list) else vals
            if got != want:
                fail('fixed_format_file:fortran-parser-reads-with-other-functions', {'record': line, 'specification': spec['rec'], 'steps_on_this_specification': list(log)},
                     got, "Fortran's values %s" % ([shown(w_) for w_ in want],))
                return False
            return True
        try:
            if scenario == 'other-first':
                d = op('D'); use(d, 'D', 'read_values'); f1 = op('F')
                ok = use(f1, 'F', 'read_values') and use(f1, 'F', 'parse_string')
            elif scenario == 'fortran-alive-then-other':
                f1 = op('F'); d = op('D'); use(d, 'D', rng.choice(['read_values', 'parse_string']))
                ok = use(f1, 'F', 'read_values') and use(op('F'), 'F', 'read_values') and use(f1, 'F', 'parse_string')
            else:
                f1 = op('F'); ok = use(f1, 'F', 'read_values'); d = op('D'); use(d, 'D', 'read_values')
                ok = ok and use(op('F'), 'F', 'parse_string') and use(f1, 'F', 'read_values')
        finally:
            for o in opened:
                try: o.close()
                except Exception: pass
        history.append('fixed_format_file parsers of one specification: %s' % scenario)

    def d_default(): fff.read_function_dict()
    def d_strict(): fff.read_function_dict(float, int)
    def d_custom(): fff.read_function_dict(floatfn=lambda s: 'X', intfn=lambda s: 'Y')
    def d_partial(): fff.read_function_dict(intfn=fff.default_read_int)
    def d_str(): fff.read_function_dict(strfn=lambda s: s.upper(), spacefn=lambda s: '')
    def d_build_mine(): mine.append((len(history), fff.read_function_dict(fff.fortran_read_float, fff.fortran_read_int)))
    def d_edit_own():
        d = fff.read_function_dict()
        d['e'] = d['f'] = d['g'] = lambda s: 'mine'; d['d'] = lambda s: -1; d['q'] = str
    def d_empty_own():
        d = fff.read_function_dict(float, int); d.clear()
    def d_use_default():
        for typ in 'fegd':
            for t in (' 1.5D+03', '1.5', ' 12', '  ', '***'):
                try: fff.default_read_function[typ](t)
                except Exception: pass
    def d_strict_incon():
        if files:
            try: t2incon(rng.choice(files)[0], read_function=fff.default_read_function)
            except Exception: pass
    def d_custom_incon():
        if files:
            try: t2incon(rng.choice(files)[0], read_function=fff.read_function_dict(lambda s: None, lambda s: None))
            except Exception: pass
    def d_readers():
        for t in (' 1.5D+03', '  ', '***', '1 2'):
            fff.fortran_float(t); fff.fortran_int(t, 'B'); fff.fortran_read_float(t); fff.fortran_read_int(t)
    disturb = [d_default, d_strict, d_custom, d_partial, d_str, d_build_mine, d_edit_own, d_empty_own, d_use_default, d_strict_incon, d_custom_incon, d_readers]
    checks = [check_module, check_mine, check_incon, check_parsers, check_parsers]
    try:
        check_module(); check_mine()              # before anything else was built
        # the first parser of the INCON specification in this process is given the DEFAULT functions (the demanding order:
        # only parsers given the Fortran functions are constrained by the property), then the Fortran ones
        d_strict_incon(); history.append('t2incon(file, read_function=default_read_function)  [first parser of the INCON specification in the process]')
        check_incon(); check_parsers(); check_parsers()
        for r in range(rounds):
            acts = disturb + checks + [rng.choice(checks)]
            rng.shuffle(acts)
            for f in acts + checks:
                if f in checks: f()
                else:
                    counts['steps'] += 1
                    try: f()
                    except Exception as e: history.append('%s raised %s' % (f.__name__[2:], type(e).__name__))
                    else: history.append({'default': 'read_function_dict()', 'strict': 'read_function_dict(float, int)', 'custom': 'read_function_dict(floatfn=<f>, intfn=<g>)',
                                          'partial': 'read_function_dict(intfn=default_read_int)', 'str': 'read_function_dict(strfn=<f>, spacefn=<g>)',
                                          'build_mine': 'read_function_dict(fortran_read_float, fortran_read_int)', 'edit_own': 'd = read_function_dict(); d[...] = <own readers>',
                                          'empty_own': 'd = read_function_dict(float, int); d.clear()', 'use_default': 'default_read_function[typ](text)',
                                          'strict_incon': 't2incon(file, read_function=default_read_function)', 'custom_incon': 't2incon(file, read_function=read_function_dict(<f>, <g>))',
                                          'readers': 'fortran_float/int/read_float/read_int(text)'}[f.__name__[2:]])
                if len(ctx.new_failures) >= 25: break
            for _ in range(10):
                if len(ctx.new_failures) < 25: check_parsers()
    finally:
        shutil.rmtree(tmp, ignore_errors=True)
    ctx.oracle_cases('reader-dictionaries', counts['reader-calls'] + counts['incon-reads'] + counts['parser-reads'], steps_between_checks=counts['steps'],
                     parser_reads=counts['parser-reads'], parser_specifications=counts['parser-files'],
                     incon_reads=counts['incon-reads'], probes=len(fprobes) + len(iprobes), incon_files=len(files))


def run(ctx):
    ctx.rule = ('strings: exhaustive over the 17-character alphabet %r up to length %d, random strings to width 20 '
                '(70%% over a number-like alphabet, 30%% printable), an edge-case pool, random Fortran renderings of reals '
                '(sign x 1..17 digits x exponent -300..300 x E/D/e/d/no-letter/blank-for-plus/no-exponent x 4 mantissa forms x padding x embedded blank) '
                'and of integers; styled renderings: random (sign, 1..40 digits, exponent -300..300 and a few beyond) x (explicit plus, 0.ddd/.ddd, 0..n+2 digits before the point, '
                'exponent letter E/e/D/d with +/blank/no sign and 1..4 digits | letter dropped | no exponent) x blank placement (padding and blanks at any position), printed both by the '
                'extracted Coq rendering function and by an independent formatter; integers likewise (sign, Iw.m zero fill, blanks anywhere); '
                'a case is distinct by its text and non-trivial when it is not blank' % (ALPHABET, 5 if ctx.thorough else 4))
    ctx.trusted += ['Coq 8.16.1 kernel (coqc); vm_compute only inside proofs by reflection on closed terms; no native_compute',
                    'translator tools/translate/pyfun.py (Python AST -> Gallina over PTBase.PyVal), fail-closed',
                    'PTBase.PyVal / PyStr / PyNum: hand-written semantics of the Python operations used (str methods, slicing, float()/int() grammar), validated on this run against the running CPython',
                    'extraction: ExtrOcamlBasic + ExtrOcamlString (ascii->char, string->char list), OCaml 4.13.1, ocaml/main.ml',
                    "CPython's strtod (decimal text -> double), identical on both sides of every comparison"]
    ctx.assumptions += ['strings are ASCII/latin-1 (non-ASCII digits and whitespace that CPython also accepts are outside the model)',
                        'float() results are compared as the double nearest to the decimal the model denotes']
    ctx.stage()
    ok = translate(ctx)
    exe = None
    if ok:
        ok = ctx.coq_build()
        exe = vf.build_driver(ctx)
    exh, rnd, edge = gen_strings(ctx)
    rr = random.Random(ctx.seed + 5)
    rend = [render_real(rr)[0] for _ in range(40000 if ctx.thorough else 8000)] + [render_int(rr)[0] for _ in range(2000)]
    strings = edge + exh + rnd + rend
    if exe:
        correspond(ctx, exe, strings)
    oracle(ctx, 200000 if ctx.thorough else 30000, 20000 if ctx.thorough else 5000, strings)
    styles(ctx, exe, 200000 if ctx.thorough else 20000, 40000 if ctx.thorough else 5000)
    dictionaries(ctx, 12 if ctx.thorough else 3, 120 if ctx.thorough else 40, 24 if ctx.thorough else 6)   # last: it builds and edits other dictionaries

    def deep(broken):
        rng = random.Random(ctx.seed + 77)
        ctx.rng = rng
        oracle(ctx, 300000, 50000, [''.join(rng.choice(ALPHABET + '0123456789') for _ in range(rng.randint(1, 12))) for _ in range(200000)])
    return ctx.finish(deep_search=deep)


def replay(ctx, data):
    import fixed_format_file as fff
    inp = data.get('input') or {}
    text = inp.get('text')
    key = data.get('finding_key', '')
    if key.startswith('fortran_read_function:') or key.startswith('fixed_format_file:'):
        dictionaries(ctx, 4, 20, 3)
        for r in ctx.new_failures[:3]: print('replay: reader-dictionaries: %s -> %s ; required: %s' % (r['input'], r['observed'], r['required']))
        return bool(ctx.new_failures)
    if text is None: return True
    req = data.get('required', '')
    f = fff.fortran_int if key.startswith('fortran_int') else fff.fortran_float
    got = impl_value(f, text, 'BLANK' if ('blank' in key or 'raises' in key or 'compat' in key or 'bad' in key) else 0)
    print('replay: %s(%r) -> %r ; required: %s' % (f.__name__, text, got, req))
    if key.startswith('fortran_read:'):
        call_order(ctx, [text, '1.5', '12'])
        return bool(ctx.new_failures)
    if 'raises' in key: return got[0] == 'raise'
    if 'rendering' in key:
        try: want = float(req.split(' ', 1)[1]) if req.startswith('float') else int(req.split(' ', 1)[1])
        except Exception: return True
        return got != (('f', bits(want)) if isinstance(want, float) else ('i', want))
    if 'bad-char' in key: return got != (('nan',) if f is fff.fortran_float else ('none',))
    if 'blank' in key: return got != ('s', 'BLANK')
    if 'compat' in key:
        pv = impl_value(float if f is fff.fortran_float else int, text)
        return pv[0] != 'raise' and got != pv
    return True
