"""C13 oracle: the property statement evaluated on the implementation alone.

An initial-conditions set is described by a plain dict (`desc`), built into a t2incon through
the public API, written with t2incon.write(filename, reset) into a scratch directory, read
back with t2incon(filename, num_variables=..., check_blocknames=...), and written again:

  * same blocks in the same order, same names;
  * every primary variable to 13 decimals of its scientific form (12 when the value is
    negative with a 3-digit exponent: the 20-column field cannot hold more), porosity,
    permeabilities and the timing reals to 9 (fewer when the field cannot hold them);
  * nseq / nadd, absent stays absent; the simulator flavour; timing when not reset, none when reset;
  * the second file equals the first byte for byte.

Nothing here uses the Coq model or the format table of the code: the column widths
(20.13 / 15.9 / 5-column integers, 6,6,3 for TOUGHREACT timing) are those of the file format."""
import os, math, json
from decimal import Decimal

CONV3_LAYER_CHARS = 'abcdefghijklmnopqrstuvwxyz'


# ---------------------------------------------------------------- descriptions <-> JSON
def f2j(x):
    if x is None: return None
    return float(x).hex()


def j2f(x):
    if x is None: return None
    return float.fromhex(x)


def desc_to_json(d):
    return {'sim': d['sim'], 'reset': d['reset'], 'nv': d['nv'], 'check': d['check'],
            'timing': None if d['timing'] is None else {k: (f2j(v) if k in ('tstart', 'sumtim') else v) for k, v in d['timing'].items()},
            'blocks': [{'name': b['name'], 'nseq': b['nseq'], 'nadd': b['nadd'], 'porosity': f2j(b['porosity']),
                        'perm': None if b['perm'] is None else [f2j(k) for k in b['perm']],
                        'vars': [f2j(v) for v in b['vars']], 'vars_readable': [repr(v) for v in b['vars']]} for b in d['blocks']]}


def desc_from_json(j):
    return {'sim': j['sim'], 'reset': j['reset'], 'nv': j['nv'], 'check': j['check'],
            'timing': None if j['timing'] is None else {k: (j2f(v) if k in ('tstart', 'sumtim') else v) for k, v in j['timing'].items()},
            'blocks': [{'name': b['name'], 'nseq': b['nseq'], 'nadd': b['nadd'], 'porosity': j2f(b['porosity']),
                        'perm': None if b['perm'] is None else [j2f(k) for k in b['perm']],
                        'vars': [j2f(v) for v in b['vars']]} for b in j['blocks']]}


# ---------------------------------------------------------------- a guard against readers that never return
import signal as _signal


class Hang(Exception):
    pass


class _Guard:
    armed = False
    fired = False


def _alarm(signum, frame):
    if _Guard.armed:
        _Guard.fired = True
        raise Hang()


def guarded(fn, limit=2):
    """fn() under a repeating CPU-time timer -> ('OK', value) | ('RAISE', exception) | ('HANG',).
    CPU time because the machine may be loaded; repeating because PyTOUGH's bare `except:` clauses can swallow one
    interruption (and then return garbage): once the timer has fired the outcome is HANG whatever came back."""
    old = _signal.signal(_signal.SIGVTALRM, _alarm)
    _Guard.fired = False; _Guard.armed = True
    res = None
    try:
        try:
            _signal.setitimer(_signal.ITIMER_VIRTUAL, limit, 0.05)
            try:
                res = ('OK', fn())
            except Hang:
                res = ('HANG',)
            except Exception as e:
                res = ('RAISE', e)
        finally:
            _Guard.armed = False
            _signal.setitimer(_signal.ITIMER_VIRTUAL, 0)
            _signal.signal(_signal.SIGVTALRM, old)
    except Hang:
        res = ('HANG',)
    return ('HANG',) if _Guard.fired or res is None else res


# ---------------------------------------------------------------- building / dumping objects
def build(desc):
    import numpy as np
    from t2incons import t2incon, t2blockincon
    inc = t2incon()
    inc.simulator = desc['sim']
    for b in desc['blocks']:
        perm = None if b['perm'] is None else np.array(b['perm'])
        inc.add_incon(t2blockincon(list(b['vars']), b['name'], b['porosity'], perm, b['nseq'], b['nadd']))
    inc.timing = None if desc['timing'] is None else dict(desc['timing'])
    return inc


def build_edited(desc):
    """the same set reached through edits of a larger, different one: blocks replaced in place (add_incon of an existing
    name, item assignment), a leading and a trailing block deleted, attribute arrays set through the properties"""
    import numpy as np
    from t2incons import t2incon, t2blockincon
    inc = t2incon()
    inc.add_incon(t2blockincon([1.0, 2.0, 3.0], 'ZZZ98', 0.5, np.array([1e-15, 1e-15, 1e-15]), 7, 8))
    for b in desc['blocks']:
        inc.add_incon(t2blockincon([-1.0] * (len(b['vars']) + 1), b['name'], 0.99, np.array([9e-9, 9e-9, 9e-9]), 1, 1))
    inc.add_incon(t2blockincon([1.0], 'ZZZ99'))
    inc.timing = {'kcyc': 9, 'iter': 9, 'nm': 9, 'tstart': 9.0, 'sumtim': 9.0}
    inc.simulator = 'TOUGHREACT' if desc['sim'] == 'TOUGH2' else 'TOUGH2'
    for k, b in enumerate(desc['blocks']):
        perm = None if b['perm'] is None else np.array(b['perm'])
        new = t2blockincon(list(b['vars']), b['name'], b['porosity'], perm, b['nseq'], b['nadd'])
        if k % 2: inc[b['name']] = new
        else: inc.add_incon(new)
    inc.delete_incon('ZZZ98'); inc.delete_incon('ZZZ99')
    inc.simulator = desc['sim']
    inc.timing = None if desc['timing'] is None else dict(desc['timing'])
    return inc


DIRTY = {'sim': 'TOUGHREACT', 'reset': False, 'nv': 2, 'check': True,
         'timing': {'kcyc': 4321, 'iter': 8765, 'nm': 21, 'tstart': 86400.0, 'sumtim': 31557600.0},
         'blocks': [{'name': 'QQQ%2d' % k, 'nseq': 3, 'nadd': 4, 'porosity': 0.33, 'perm': [4e-14, 5e-14, 6e-14], 'vars': [7.0e6, 250.0]} for k in (1, 2, 3)]}


def used_object(tmpdir, flavour):
    """an object that already holds another file (blocks, nseq/nadd, restart timing; for TOUGHREACT: permeabilities)"""
    from t2incons import t2incon
    d = dict(DIRTY, sim=flavour)
    if flavour == 'TOUGH2': d['blocks'] = [dict(b, perm=None) for b in DIRTY['blocks']]
    f = os.path.join(tmpdir, 'dirty.incon')
    build(d).write(f, reset=False)
    inc = t2incon(f, num_variables=2)
    if inc.simulator != flavour or inc.timing is None or inc.num_blocks != 3: raise Exception('the used object is not what it should be')
    return inc


def toughreact_timing(line):
    """a timing record as the TOUGHREACT layout (6d,6d,3d) cuts it -- what a reader that believes the object to be
    TOUGHREACT makes of the integers of a TOUGH2 record"""
    def num(t):
        t = t.replace(' ', '')
        try: return int(t) if t else None
        except ValueError: return None
    return {'kcyc': num(line[0:6]), 'iter': num(line[6:12]), 'nm': num(line[12:15])}


def snapshot(inc):
    """plain-data view of a t2incon, through the public attributes"""
    blocks = []
    for k in range(inc.num_blocks):
        b = inc[k]
        blocks.append({'name': b.block, 'nseq': b.nseq, 'nadd': b.nadd, 'porosity': b.porosity,
                       'perm': None if b.permeability is None else [float(x) for x in b.permeability],
                       'vars': list(b.variable)})
    return {'sim': inc.simulator, 'timing': None if inc.timing is None else dict(inc.timing), 'blocks': blocks}


# ---------------------------------------------------------------- "to p decimals"
def sci_exponent(x):
    return Decimal(x).adjusted()


def decimals_that_fit(x, width, p):
    """largest q <= p such that x in scientific form with q decimals fits `width` columns"""
    for q in range(p, -1, -1):
        d = Decimal(x)
        # exponent after rounding to q decimals (9.99..e99 may become 1.0e100)
        e = d.adjusted() if x != 0 else 0
        r = d.scaleb(-e).quantize(Decimal(1).scaleb(-q)) if x != 0 else Decimal(0)
        if abs(r) >= 10: e += 1
        n = (1 if math.copysign(1.0, x) < 0 else 0) + 1 + (1 + q if q > 0 else 0) + 2 + max(2, len(str(abs(e))))
        if n <= width: return q
    return None


def close_to(x, y, width, p):
    """y is x to the decimals the field can hold"""
    if not isinstance(y, float) or y != y: return False
    if x == 0: return y == 0
    q = decimals_that_fit(x, width, p)
    if q is None: return True      # cannot be represented at all: nothing is demanded
    dx, dy = Decimal(x), Decimal(y)
    e = dx.adjusted()
    bound = Decimal(5).scaleb(e - q - 1) + Decimal(math.ulp(abs(y)) if y != 0 else 0)
    return abs(dx - dy) <= bound


def fits_int(n, width):
    return len('%d' % n) <= width


def representable(desc):
    """every value fits its columns at some precision (otherwise a loud failure is allowed)"""
    tr = desc['sim'] == 'TOUGHREACT'
    if len(desc['blocks']) > 99999 and desc['timing'] is not None and not desc['reset']: return False
    for b in desc['blocks']:
        if len(b['name']) > 5: return False
        for n in (b['nseq'], b['nadd']):
            if n is not None and not fits_int(n, 5): return False
        reals = [(v, 20, 13) for v in b['vars']] + [(b['porosity'], 15, 9)] + [(k, 15, 9) for k in (b['perm'] or [])]
        for v, w, p in reals:
            if v is not None and decimals_that_fit(v, w, p) is None: return False
    t = desc['timing']
    if t is not None and not desc['reset']:
        for n, w in zip((t['kcyc'], t['iter'], t['nm']), (6, 6, 3) if tr else (5, 5, 5)):
            if n is not None and not fits_int(n, w): return False
        for v in (t['tstart'], t['sumtim']):
            if v is not None and decimals_that_fit(v, 15, 9) is None: return False
        if t['sumtim'] is not None and decimals_that_fit(t['sumtim'], 12, 6) is None: return False
    return True


# ---------------------------------------------------------------- the property
def compare(desc, got):
    """every kind of difference between the description and what was read back (at most one witness per kind)"""
    out = []
    if got['sim'] != desc['sim']: out.append(('flavour', got['sim'], desc['sim']))
    names = [b['name'] for b in desc['blocks']]
    gnames = [b['name'] for b in got['blocks']]
    if sorted(names) != sorted(gnames): return out + [('names', gnames[:8], names[:8])]
    if names != gnames: return out + [('order', gnames[:8], names[:8])]
    seen = set()

    def add(kind, obs, req):
        if kind not in seen: seen.add(kind); out.append((kind, obs, req))
    for b, g in zip(desc['blocks'], got['blocks']):
        if len(b['vars']) != len(g['vars']): add('variables', g['vars'], b['vars'])
        else:
            for x, y in zip(b['vars'], g['vars']):
                if not close_to(x, y, 20, 13): add('variables', repr(y), repr(x))
        if (b['porosity'] is None) != (g['porosity'] is None) or \
           (b['porosity'] is not None and not close_to(b['porosity'], g['porosity'], 15, 9)):
            add('porosity', repr(g['porosity']), repr(b['porosity']))
        if (b['perm'] is None) != (g['perm'] is None) or \
           (b['perm'] is not None and not all(close_to(x, y, 15, 9) for x, y in zip(b['perm'], g['perm']))):
            add('permeability', repr(g['perm']), repr(b['perm']))
        if (b['nseq'], b['nadd']) != (g['nseq'], g['nadd']) or any(isinstance(v, bool) or not isinstance(v, (int, type(None))) for v in (g['nseq'], g['nadd'])):
            add('nseq-nadd', repr((g['nseq'], g['nadd'])), repr((b['nseq'], b['nadd'])))
    t, gt = desc['timing'], got['timing']
    if desc['reset'] or t is None:
        if gt is not None: add('timing', repr(gt), 'None')
    else:
        if gt is None: add('timing', 'None', repr(t))
        else:
            for k in ('kcyc', 'iter', 'nm'):
                if gt.get(k) != t[k]: add('timing', repr(gt), repr(t))
            for k in ('tstart', 'sumtim'):
                if (t[k] is None) != (gt.get(k) is None) or (t[k] is not None and not close_to(t[k], gt[k], 15, 9)):
                    add('timing', repr(gt), repr(t))
    return out


def toughreact_without_permeability(desc):
    return desc['sim'] == 'TOUGHREACT' and not any(b['perm'] is not None for b in desc['blocks'])


def sci_text(x, w, p):
    """x in scientific notation, right-justified in w columns with the most decimals (at most p) that fit"""
    for q in range(p, -1, -1):
        t = '%*.*e' % (w, q, x)
        if len(t) <= w: return t
    return None


def header_double_rounding(desc, h1, h2, got):
    """the two long headers differ in the sumtim field only, and each holds 12.6e of the value its writer had in memory:
    the original sumtim, and sumtim as the 15.9e timing record returned it"""
    t = desc['timing']
    if t is None or desc['reset'] or t.get('sumtim') is None or not got or not got.get('timing'): return False
    if h1[:-12] != h2[:-12] or len(h1) != 67 or len(h2) != 67: return False
    s, s2 = t['sumtim'], got['timing'].get('sumtim')
    return isinstance(s2, float) and close_to(s, s2, 15, 9) and h1[-12:] == sci_text(s, 12, 6) and h2[-12:] == sci_text(s2, 12, 6)


def used_decimals(x, w, p):
    """the number of decimals with which x is written into w columns (at most p)"""
    for q in range(p, -1, -1):
        if len('%*.*e' % (w, q, x)) <= w: return q
    return None


def file_layout(desc, got):
    """per line of the written file: list of (column, width, decimals, value written, value re-read) for its real fields
    (None for lines without reals: the header, blank lines, '+++')"""
    tr = desc['sim'] == 'TOUGHREACT'
    lines = [None]
    for b, g in zip(desc['blocks'], got['blocks']):
        h = [(15, 15, 9, b['porosity'], g['porosity'])]
        if tr and b['perm'] is not None and g['perm'] is not None:
            h += [(30 + 15 * k, 15, 9, b['perm'][k], g['perm'][k]) for k in range(3)]
        lines.append(h)
        for k in range(0, len(b['vars']), 4):
            lines.append([(20 * j, 20, 13, x, y) for j, (x, y) in enumerate(zip(b['vars'][k:k + 4], g['vars'][k:k + 4]))])
    t, gt = desc['timing'], got['timing']
    if t is not None and not desc['reset'] and gt is not None:
        lines.append(None)
        lines.append([(15, 15, 9, t['tstart'], gt.get('tstart')), (30, 15, 9, t['sumtim'], gt.get('sumtim'))])
    return lines


def rewrite_differences(desc, got, text1, text2):
    """the second file against the first, difference by difference; each is tagged with its exact class:
    'rewrite-differs:header-sumtim'     line 0 differs in its sumtim field only, by double rounding (12.6e of a 15.9e value)
    'rewrite-differs:lowered-precision' a real field whose value needed fewer decimals than the format to fit (its text
                                        was too wide), rounded up into a shorter exponent at that precision, and is
                                        therefore re-written, from the re-read value, with more decimals
    'rewrite-differs'                   anything else"""
    l1, l2 = text1.split('\n'), text2.split('\n')
    if len(l1) != len(l2):
        return [('rewrite-differs', '%d lines' % len(l2), '%d lines' % len(l1))]
    lay = file_layout(desc, got)
    out, seen = [], set()

    def add(tag, i):
        if tag not in seen:
            seen.add(tag); out.append((tag, 'line %d: %r' % (i, l2[i]), 'line %d: %r' % (i, l1[i])))
    for i, (a, b) in enumerate(zip(l1, l2)):
        if a == b: continue
        if i == 0:
            add('rewrite-differs:header-sumtim' if header_double_rounding(desc, l1[0], l2[0], got) else 'rewrite-differs', i); continue
        fields = lay[i] if i < len(lay) else None
        if not fields or len(a) != len(b): add('rewrite-differs', i); continue
        rest_a, rest_b, ok = a, b, True
        for col, w, p, x, y in fields:
            fa, fb = a[col:col + w], b[col:col + w]
            rest_a = rest_a[:col] + ' ' * w + rest_a[col + w:]; rest_b = rest_b[:col] + ' ' * w + rest_b[col + w:]
            if fa == fb: continue
            if x is None or not isinstance(y, float): ok = False; continue
            qx, qy = used_decimals(x, w, p), used_decimals(y, w, p)
            if not (qx is not None and qy is not None and qx < p and qx < qy and fa == sci_text(x, w, p) and fb == sci_text(y, w, p)
                    and len(fa.strip()) < w and float(fa) == y):
                ok = False
        add('rewrite-differs:lowered-precision' if ok and rest_a == rest_b else 'rewrite-differs', i)
    return out


def classify(desc, what, text1=None, text2=None, got=None):
    """finding key = call site : input class (DESIGN.md appendix D)"""
    if toughreact_without_permeability(desc) and got is not None and got['sim'] == 'TOUGH2' and what in ('flavour', 'timing'):
        # the flavour is lost; when a timing record was kept it is then parsed with the other flavour's layout
        return 't2incon.read:toughreact-without-permeability'
    if what in ('read-into-used-TOUGHREACT-object:simulator', 'read-into-used-TOUGHREACT-object:timing-cut-as-toughreact') and \
       got is not None and got['sim'] == 'TOUGH2':
        # read() never sets the flavour back: after a TOUGHREACT file the object stays TOUGHREACT whatever is read next,
        # and the timing record of the next (TOUGH2) file is then cut with the TOUGHREACT layout
        return 't2incon.read:simulator-kept-from-earlier-read'
    if what == 'rewrite-differs:header-sumtim': return 't2incon.write:header-sumtim-double-rounding'
    if what == 'rewrite-differs:lowered-precision': return 't2incon.write:lowered-precision-rounds-into-shorter-exponent'
    return 't2incon.roundtrip:%s' % what


def freeze(snap):
    """a snapshot as nested tuples with floats by repr (so that -0.0, 0.0 and nan compare as themselves)"""
    def fz(v):
        if isinstance(v, float): return ('f', repr(v))
        if isinstance(v, dict): return tuple((k, fz(v[k])) for k in sorted(v))
        if isinstance(v, (list, tuple)): return tuple(fz(x) for x in v)
        return v
    return fz(snap)


def first_change(a, b):
    """which attribute of the object a write() changed (a, b: snapshots before / after)"""
    if a['sim'] != b['sim']: return 'simulator %r -> %r' % (a['sim'], b['sim'])
    if freeze(a['timing']) != freeze(b['timing']): return 'timing %r -> %r' % (a['timing'], b['timing'])
    if len(a['blocks']) != len(b['blocks']): return 'number of blocks %d -> %d' % (len(a['blocks']), len(b['blocks']))
    for x, y in zip(a['blocks'], b['blocks']):
        for k in ('name', 'nseq', 'nadd', 'porosity', 'perm', 'vars'):
            if freeze(x[k]) != freeze(y[k]): return 'block %r: %s %r -> %r' % (x['name'], k, x[k], y[k])
    return None


def roundtrip(desc, tmpdir):
    """On the implementation: two writes on ONE object (first with the opposite reset flag, then with the set's own:
    both orders occur over the generated sets), the object inspected after each; the same write on a fresh object;
    then read back and write again.  Returns a dict with the outcome."""
    from t2incons import t2incon
    f1 = os.path.join(tmpdir, 'a.incon'); f2 = os.path.join(tmpdir, 'b.incon'); f0 = os.path.join(tmpdir, 'c.incon')
    out = {}
    try:
        inc = build(desc)
        before = snapshot(inc)
        try:
            inc.write(f0, reset=not desc['reset'])
            ch = first_change(before, snapshot(inc))
            if ch: out['object_changed'] = 'write(reset=%r): %s' % (not desc['reset'], ch)
        except Exception:
            pass                                  # an unrepresentable value: the write below decides
        inc.write(f1, reset=desc['reset'])
        ch = first_change(before, snapshot(inc))
        if ch and 'object_changed' not in out: out['object_changed'] = 'write(reset=%r): %s' % (desc['reset'], ch)
    except Exception as e:
        out['write_raised'] = type(e).__name__
        return out
    try:
        build(desc).write(f0, reset=desc['reset'])
        out['text_fresh'] = open(f0, newline='').read()
    except Exception as e:
        out['text_fresh'] = 'raised ' + type(e).__name__
    out['text1'] = open(f1, newline='').read()
    r = guarded(lambda: t2incon(f1, num_variables=desc['nv'], check_blocknames=desc['check']), limit=max(2, len(out['text1']) // 20000))
    if r[0] == 'HANG':
        out['read_raised'] = 'the reader does not return'
        return out
    if r[0] == 'RAISE':
        out['read_raised'] = type(r[1]).__name__ + ': ' + str(r[1])[:100]
        return out
    inc2 = r[1]
    out['got'] = snapshot(inc2)
    try:
        inc2.write(f2, reset=desc['reset'])
        out['text2'] = open(f2, newline='').read()
    except Exception as e:
        out['rewrite_raised'] = type(e).__name__
    # the set reached through edits writes the same file
    try:
        build_edited(desc).write(f0, reset=desc['reset'])
        out['text_edited'] = open(f0, newline='').read()
    except Exception as e:
        out['text_edited'] = 'raised ' + type(e).__name__
    # the same file read with .read() into an object that already held another file, of either flavour
    out['used'], out['text2_used'] = {}, {}
    for flavour in ('TOUGH2', 'TOUGHREACT'):
        r = guarded(lambda: used_object(tmpdir, flavour), limit=5)
        if r[0] != 'OK':
            out['used'][flavour] = 'the used object could not be prepared'; continue
        used = r[1]
        r = guarded(lambda: used.read(f1, desc['nv'], desc['check']), limit=max(2, len(out['text1']) // 20000))
        if r[0] != 'OK':
            out['used'][flavour] = 'read into a used object: ' + ('does not return' if r[0] == 'HANG' else type(r[1]).__name__); continue
        out['used'][flavour] = snapshot(used)
        if freeze(out['used'][flavour]) == freeze(out['got']):
            try:
                used.write(f0, reset=desc['reset'])
                out['text2_used'][flavour] = open(f0, newline='').read()
            except Exception as e:
                out['text2_used'][flavour] = 'raised ' + type(e).__name__
    # two objects read from the same file share nothing: editing one leaves the other as it was
    try:
        a = t2incon(f1, num_variables=desc['nv'], check_blocknames=desc['check'])
        b = t2incon(f1, num_variables=desc['nv'], check_blocknames=desc['check'])
        sb = snapshot(b)
        if a.timing is not None: a.timing['kcyc'] = -77; a.timing['extra'] = 1
        for k in range(a.num_blocks):
            blk = a[k]
            if blk.variable: blk.variable[0] = -7.5
            if blk.permeability is not None: blk.permeability[0] = -7.5
            blk.porosity = -7.5; blk.nseq = -7
        a.simulator = 'other'
        if a.num_blocks: a.delete_incon(a[0].block)
        ch = first_change(sb, snapshot(b))
        if ch: out['shared_state'] = ch
    except Exception as e:
        out['shared_state'] = 'raised ' + type(e).__name__
    return out


def outcome_key(out):
    """what must not depend on earlier calls or on other live objects"""
    return (out.get('write_raised'), out.get('text1'), freeze(out.get('got')), out.get('text2'), out.get('read_raised'),
            freeze(out.get('used')), out.get('text_edited'))


def evaluate_all(desc, out):
    """The property statement on one outcome: the list of (what, observed, required) -- empty when it holds."""
    if 'write_raised' in out:
        if representable(desc): return [('write-raises', out['write_raised'], 'file written')]
        return []
    bad = []
    if 'object_changed' in out: bad.append(('write-alters-object', out['object_changed'], 'write() leaves the object as it was'))
    if out.get('text_fresh') != out['text1']:
        l1, l0 = out['text1'].split('\n'), str(out.get('text_fresh')).split('\n')
        k = next((i for i, (a, b) in enumerate(zip(l1, l0)) if a != b), min(len(l1), len(l0)))
        bad.append(('write-depends-on-earlier-write', 'after write(reset=%r) on the same object, line %d: %r' % (not desc['reset'], k, l1[k] if k < len(l1) else '<missing>'),
                    'as written by a fresh object, line %d: %r' % (k, l0[k] if k < len(l0) else '<missing>')))
    if 'read_raised' in out: return bad + [('read-raises', out['read_raised'], 'object read back')]
    cmp_bad = compare(desc, out['got'])
    bad += cmp_bad
    if out.get('text_edited') != out['text1']:
        bad.append(('write-of-edited-object-differs', str(out.get('text_edited'))[:200], 'the file a freshly built object writes'))
    if 'shared_state' in out:
        bad.append(('objects-share-state', out['shared_state'], 'editing one object read from a file leaves another object read from it unchanged'))
    g = out['got']
    for flavour, u in sorted((out.get('used') or {'': 'not run'}).items()):
        tag = 'read-into-used-%s-object' % flavour
        if not isinstance(u, dict):
            bad.append((tag, str(u), 'as read by t2incon(filename)')); continue
        leak = u['sim'] != g['sim']
        if leak: bad.append((tag + ':simulator', u['sim'], g['sim']))
        if freeze(u['timing']) != freeze(g['timing']):
            # with the flavour kept from the earlier file, a TOUGH2 timing record is cut with the TOUGHREACT layout
            tl = out['text1'].split('\n')
            explained = leak and u['sim'] == 'TOUGHREACT' and g['sim'] == 'TOUGH2' and isinstance(u['timing'], dict) and isinstance(g['timing'], dict) and \
                len(tl) >= 3 and tl[-3].startswith('+++') and \
                all(u['timing'].get(k) == v for k, v in toughreact_timing(tl[-2]).items()) and \
                all(freeze(u['timing'].get(k)) == freeze(g['timing'].get(k)) for k in ('tstart', 'sumtim'))
            bad.append((tag + (':timing-cut-as-toughreact' if explained else ':timing'), repr(u['timing']), repr(g['timing'])))
        if freeze(u['blocks']) != freeze(g['blocks']):
            bad.append((tag + ':blocks', repr([b['name'] for b in u['blocks']][:6]), repr([b['name'] for b in g['blocks']][:6])))
        t2u = (out.get('text2_used') or {}).get(flavour)
        if t2u is not None and 'text2' in out and t2u != out['text2']:
            bad.append(('write-after-' + tag + '-differs', t2u[:200], 'the file written after t2incon(filename)'))
    if 'rewrite_raised' in out: return bad + [('rewrite-raises', out['rewrite_raised'], 'second file written')]
    if any(w in ('flavour', 'names', 'order', 'timing') for w, _, _ in cmp_bad):
        return bad         # the second file of a different object is not compared
    if out['text2'] != out['text1']:
        bad += rewrite_differences(desc, out['got'], out['text1'], out['text2'])
    return bad


def evaluate(desc, out):
    """first failure, or None"""
    bad = evaluate_all(desc, out)
    return bad[0] if bad else None


# ---------------------------------------------------------------- generator
def convention_names(rng, n, allow_conv3=True):
    """n distinct block names produced by mulgrid's own naming functions; returns (names, needs_check_off)"""
    import mulgrids
    conv = rng.choice([0, 1, 2, 3] if allow_conv3 else [0, 1, 2])
    geo = mulgrids.mulgrid(convention=conv, atmos_type=rng.choice([0, 1, 2]))
    names, seen = [], set()
    justfn = rng.choice([str.rjust, str.ljust])
    chars = rng.choice([mulgrids.ascii_lowercase, mulgrids.ascii_uppercase])
    tries = 0
    while len(names) < n and tries < 50 * (n + 1):
        tries += 1
        col = rng.choice([1, 2, 9, 10, 26, 27, 99, 100, 105, 110, 500, 999, rng.randint(1, 999), rng.randint(1, 17000)])
        lay = rng.choice([0, 1, 2, 5, 9, 10, 26, 27, 50, 99, rng.randint(0, 99), rng.randint(1, 600)])
        try:
            cn = geo.column_name_from_number(col, justfn, chars)
            ln = geo.layer_name_from_number(lay, justfn, chars) if lay > 0 else [' 0', 'atm', 'at', ' 0'][conv]
            if rng.random() < 0.06 and geo.atmosphere_type == 0: cn = geo.atmosphere_column_name
            nm = geo.block_name(ln, cn)
        except Exception:
            continue
        if len(nm) != 5 or nm in seen: continue
        seen.add(nm); names.append(nm)
    return names, conv == 3


def tough2_name(nm):
    """the simulator's own rule for an element name, (A3,I2): three printable characters, then a number of at most two
    digits right-justified in two columns (stated here independently of mulgrids.valid_blockname)"""
    import re
    return re.match(r'^[A-Za-z0-9 !-/:-@\[-`{-~]{3}[0-9 ][0-9]$', nm) is not None


REAL_CLASSES = ['ordinary', 'negative', 'huge', 'tiny', 'neg3', 'zero', 'tie', 'carry', 'random']


def gen_real(rng, cls=None, nonneg=False):
    cls = cls or rng.choice(REAL_CLASSES)
    if cls == 'ordinary': x = rng.choice([1.013e5, 20.0, 0.25, 101325.0, 15.5, 3.3e6, 240.0 - 1e-4 * rng.random(), rng.uniform(0, 1e7)])
    elif cls == 'negative': x = -rng.choice([1.0, 1.5e-5, 99.75, 3.25e7, rng.uniform(0, 1e5), 10.0 ** rng.randint(-99, 99) * rng.random()])
    # 3-digit exponents: mostly just past the 2-digit range (the exact arithmetic of the model costs ~ exponent^2), some far out
    elif cls == 'huge': x = rng.uniform(1, 10) * 10.0 ** rng.choice([100, 100, 101, 102, 105, 120, rng.choice([150, 299, 307, rng.randint(100, 307)])])
    elif cls == 'tiny': x = rng.uniform(1, 10) * 10.0 ** rng.choice([-100, -100, -101, -102, -105, -120, rng.choice([-150, -299, -307, rng.randint(-307, -100)])])
    elif cls == 'neg3': x = -rng.uniform(1, 10) * 10.0 ** rng.choice([100, -100, 101, -101, 110, -110, rng.choice([200, -200, rng.randint(100, 307), rng.randint(-307, -100)])])
    elif cls == 'zero': x = rng.choice([0.0, -0.0])
    elif cls == 'tie': x = float(rng.choice([123456789012345, 100000000000005, 999999999999995, 12345678905, 10000000005, 5, 15, 25])) * 10.0 ** rng.choice([0, 0, 1, 3])
    elif cls == 'carry': x = rng.choice([9.99999999999999e99, 9.9999999999999999e9, 9.99999999996e-100, 9.9999999995e5, 9.99999999999995e-101, 9.9999999999999e99,
                                         -9.9999999999996e-100, -9.99999999999996e-100, -9.9999999999999e-100, -9.99999999996e-100])
    else: x = rng.choice([1, -1]) * rng.random() * 10.0 ** rng.randint(-20, 20)
    if nonneg: x = abs(x)
    return x


def gen_desc(rng, thorough=False, oracle_only=True):
    """One initial-conditions set within the property's quantifier."""
    nb = rng.choice([0, 1, 1, 2, 2, 3, 4, 5, 7, rng.randint(0, 12 if not thorough else 40)])
    nvars = rng.choice([1, 2, 3, 4, 4, 5, 5, 6, 8, 8, 9, 12, rng.randint(1, 12)])
    sim = rng.choice(['TOUGH2', 'TOUGH2', 'TOUGHREACT'])
    names, conv3 = convention_names(rng, nb)
    nb = len(names)
    blocks = []
    style = rng.choice(['plain', 'mixed', 'mixed', 'extreme'])
    perm_mode = rng.choice(['all', 'all', 'some', 'none']) if sim == 'TOUGHREACT' else 'none'
    zero_mode = rng.choice(['none', 'none', 'some', 'some', 'all'])
    for k, nm in enumerate(names):
        vs = []
        for j in range(nvars):
            if style == 'plain': vs.append(gen_real(rng, 'ordinary'))
            elif style == 'mixed': vs.append(gen_real(rng, rng.choice(['ordinary', 'ordinary', 'negative', 'random', 'huge', 'tiny', 'zero'])))
            else: vs.append(gen_real(rng))
        por = rng.choice([None, 0.1, 0.25, rng.random(), 0.0, 1.0, gen_real(rng, 'tiny')]) if rng.random() < 0.8 else None
        perm = None
        if perm_mode == 'all' or (perm_mode == 'some' and rng.random() < 0.5):
            perm = [rng.choice([1e-13, 6.51e-14, 2.5e-15, rng.random() * 1e-12, 1e-101 * (1 + rng.random())]) for _ in range(3)]
            # impermeable blocks: a triple is a triple whatever its values -- all zero, partly zero, mixed across blocks
            z = rng.random()
            if zero_mode == 'all' or (zero_mode == 'some' and z < 0.4): perm = [0.0, 0.0, 0.0]
            elif zero_mode == 'some' and z < 0.7: perm[rng.randrange(3)] = 0.0
            elif zero_mode == 'some' and z < 0.8: perm = [0.0, 0.0, perm[2]]
        sq = rng.random()
        if sq < 0.55: nseq, nadd = None, None
        elif sq < 0.9: nseq, nadd = rng.choice([0, 1, 3, 99, 99999, rng.randint(0, 99999)]), rng.choice([0, 1, 2, 10, 99999, -9999, rng.randint(-9999, 99999)])
        elif sq < 0.95: nseq, nadd = rng.randint(0, 999), None
        else: nseq, nadd = None, rng.randint(0, 999)
        blocks.append({'name': nm, 'nseq': nseq, 'nadd': nadd, 'porosity': por, 'perm': perm, 'vars': vs})
    timing = None
    if rng.random() < 0.6:
        tr = sim == 'TOUGHREACT'
        timing = {'kcyc': rng.choice([0, 1, 30, 11100, 99999, 999999 if tr else 99999, rng.randint(0, 99999)]),
                  'iter': rng.choice([0, 145, 40102, 99999, 999999 if tr else 99999, rng.randint(0, 99999)]),
                  'nm': rng.choice([0, 1, 34, 999, 999 if tr else 99999, rng.randint(0, 999)]),
                  'tstart': rng.choice([0.0, 0.0, 1.5e3, gen_real(rng, 'random', nonneg=True)]),
                  'sumtim': rng.choice([0.106496e17, 52710.494, 0.0, 1e15 * rng.random(), 123456.74996, 123456.75004,
                                        gen_real(rng, 'huge'), gen_real(rng, 'random', nonneg=True)])}
    reset = rng.random() < 0.4
    nv = nvars if (nvars > 4 or rng.random() < 0.6) else None
    # check_blocknames=True (the default) promises to reject names the simulator cannot hold: used only when every name is one
    check = all(tough2_name(unfixed(nm)) for nm in names) and rng.random() < 0.85
    return {'sim': sim, 'reset': reset, 'nv': nv, 'check': check, 'timing': timing, 'blocks': blocks}


def unfixed(nm):
    """the name as the file holds it: the zero PyTOUGH puts into a digit-blank-digit name is a blank again"""
    if len(nm) == 5 and nm[3:5].isdigit(): return nm[:3] + '%2d' % int(nm[3:5])
    return nm


def fixed_cases():
    """deterministic sets run on every check besides the random ones: TOUGHREACT sets whose permeability triples hold zeros"""
    nz, pz, zz = [1e-13, 2e-13, 3e-14], [1e-13, 0.0, 3e-14], [0.0, 0.0, 0.0]
    tm = {'kcyc': 123456, 'iter': 654321, 'nm': 7, 'tstart': 0.0, 'sumtim': 3155760000.0}
    out = []
    for perms in ([zz], [zz, zz, zz], [nz, zz, nz], [zz, nz], [pz, nz], [zz, None, nz], [None, zz], [[0.0, 0.0, 1e-15], zz]):
        for timing, reset in ((None, True), (tm, False), (tm, True)):
            blocks = [{'name': 'AAA%2d' % (k + 1), 'nseq': None, 'nadd': None, 'porosity': 0.1 if k % 2 == 0 else None,
                       'perm': None if p is None else list(p), 'vars': [1.013e5, 20.0 + k]} for k, p in enumerate(perms)]
            out.append({'sim': 'TOUGHREACT', 'reset': reset, 'nv': 2, 'check': True, 'timing': None if timing is None else dict(timing), 'blocks': blocks})
    return out


def nontrivial(desc):
    return len(desc['blocks']) >= 1


def distribution(descs):
    d = {'objects': len(descs), 'zero_permeability_triple': 0, 'partly_zero_permeability_triple': 0, 'all_triples_zero': 0, 'blocks_0': 0, 'blocks_1': 0, 'blocks_2plus': 0, 'toughreact': 0, 'with_permeability': 0,
         'timing_kept': 0, 'timing_reset': 0, 'no_timing': 0, 'nseq_nadd': 0, 'porosity_absent': 0, 'neg_3digit_exponent': 0,
         'pos_3digit_exponent': 0, 'negative': 0, 'check_blocknames_off': 0, 'num_variables_none': 0}
    nvh = {}
    for x in descs:
        nb = len(x['blocks'])
        d['blocks_0' if nb == 0 else 'blocks_1' if nb == 1 else 'blocks_2plus'] += 1
        d['toughreact'] += x['sim'] == 'TOUGHREACT'
        d['with_permeability'] += any(b['perm'] is not None for b in x['blocks'])
        ps = [b['perm'] for b in x['blocks'] if b['perm'] is not None]
        d['zero_permeability_triple'] += any(not any(p) for p in ps)
        d['partly_zero_permeability_triple'] += any(any(p) and not all(p) for p in ps)
        d['all_triples_zero'] += bool(ps) and all(not any(p) for p in ps)
        if x['timing'] is None: d['no_timing'] += 1
        elif x['reset']: d['timing_reset'] += 1
        else: d['timing_kept'] += 1
        d['nseq_nadd'] += any(b['nseq'] is not None for b in x['blocks'])
        d['porosity_absent'] += any(b['porosity'] is None for b in x['blocks'])
        vs = [v for b in x['blocks'] for v in b['vars']]
        d['neg_3digit_exponent'] += any(v < 0 and (abs(v) >= 1e100 or abs(v) < 1e-99) for v in vs)
        d['pos_3digit_exponent'] += any(v > 0 and (abs(v) >= 1e100 or abs(v) < 1e-99) for v in vs)
        d['negative'] += any(v < 0 for v in vs)
        d['check_blocknames_off'] += not x['check']
        d['num_variables_none'] += x['nv'] is None
        if x['blocks']:
            k = len(x['blocks'][0]['vars']); nvh[k] = nvh.get(k, 0) + 1
    d['variables_per_block'] = {str(k): nvh[k] for k in sorted(nvh)}
    return d


# ---------------------------------------------------------------- shipped files
import re as _re
_FNUM = _re.compile(r'^([-+]?(?:\d+\.?\d*|\.\d+))(?:[EeDd]([-+]?\d+)|([-+]\d+))?$')


def fortran_number(s):
    """a printed Fortran real (E or D exponent, or a bare signed 3-digit exponent); None for a blank field"""
    t = s.replace(' ', '').replace('\n', '')
    if not t: return None
    m = _FNUM.match(t)
    if not m: raise ValueError('not a Fortran number: %r' % s)
    return float(m.group(1) + 'e' + (m.group(2) or m.group(3) or '0'))


def independent_parse(text, nlines):
    """the blocks of an INCON / SAVE file by the file format's own columns: (A3,I2) name, two I5, E15.9 reals, then
    `nlines` lines of E20.13 values.  Returns [(name, nseq, nadd, porosity, perm, values)]."""
    lines = text.split('\n')[1:]
    out, k = [], 0
    while k < len(lines) and lines[k].strip() and not lines[k].startswith('+++'):
        h = lines[k]; k += 1
        ints = [int(h[a:a + 5]) if h[a:a + 5].strip() else None for a in (5, 10)]
        reals = [fortran_number(h[a:a + 15]) for a in (15, 30, 45, 60)]
        vals = []
        for _ in range(nlines):
            v = lines[k]; k += 1
            vals += [fortran_number(v[a:a + 20]) for a in range(0, len(v), 20)]
        while vals and vals[-1] is None: vals.pop()
        out.append((h[:5], ints[0], ints[1], reals[0], None if None in reals[1:] else reals[1:], vals))
    return out


def shipped_values(path, nv):
    """what t2incon(path) holds against the independent parse; returns a difference or None"""
    from t2incons import t2incon
    text = open(path).read()
    ref = independent_parse(text, 1 if nv is None else (nv + 3) // 4)
    got = snapshot(t2incon(path, num_variables=nv))
    if len(ref) != len(got['blocks']): return ('block count', len(got['blocks']), len(ref))
    for r, g in zip(ref, got['blocks']):
        mine = (unfixed(g['name']), g['nseq'], g['nadd'], g['porosity'], g['perm'], g['vars'])
        if mine != r: return ('block %r' % r[0], repr(mine)[:300], repr(r)[:300])
    return None


def desc_of_file(path, nv, reset):
    from t2incons import t2incon
    s = snapshot(t2incon(path, num_variables=nv))
    return {'sim': s['sim'], 'reset': reset, 'nv': nv, 'check': True, 'timing': s['timing'], 'blocks': s['blocks']}
