"""C17: translation of the naming code that tools/translate/pyfun.py does not cover.

* `LoopTranslator` extends the shared AST translator with `while` and `for` statements
  (continuation style: every loop becomes a top-level `Fixpoint` that takes the loop
  state and the continuation `k_`; a `while` recurses on explicit fuel and raises
  `OutOfFuel` when it runs out, a `for` recurses structurally on the list of items).
* `slice_add_layers` cuts `mulgrid.add_layers` down to the statements that decide the
  layer NAMES (the elevations `z`, `centre` never flow into a name): the calls
  `self.clear_layers()` / `self.add_layer(layer(NAME, ...))` become `names_ = []` /
  `names_ = names_ + [NAME]`, and `return names_` is appended.  Anything that is not
  recognised is refused (fail closed).  The slice is validated on every run by comparing
  the translated function with `[l.name for l in geo.layerlist]` after the real call.
* `tables` reads the literal per-convention tables of `mulgrid.set_secondary_variables`.
"""
import ast, copy
from translate import pyfun
from translate.pyfun import Refusal, indent


class _Emit(ast.stmt):
    """synthetic statement: literal Coq text (the loop-back call at the end of a loop body)"""
    _fields = ()

    def __init__(self, text):
        super().__init__()
        self.text = text


def _stmts(body):
    """all statements in a block, nested blocks included (not nested defs)"""
    for s in body:
        yield s
        for fld in ('body', 'orelse', 'handlers', 'finalbody'):
            sub = getattr(s, fld, None)
            if sub and not isinstance(s, (ast.FunctionDef, ast.ClassDef)):
                for h in sub:
                    if isinstance(h, ast.ExceptHandler):
                        for t in _stmts(h.body): yield t
                    elif isinstance(h, ast.stmt):
                        for t in _stmts([h]): yield t


def assigned(body):
    out = set()
    for s in _stmts(body):
        if isinstance(s, ast.Assign):
            for t in s.targets:
                for n in ast.walk(t):
                    if isinstance(n, ast.Name): out.add(n.id)
        elif isinstance(s, ast.AugAssign) and isinstance(s.target, ast.Name): out.add(s.target.id)
        elif isinstance(s, ast.Delete):
            for t in s.targets:
                if isinstance(t, ast.Subscript) and isinstance(t.value, ast.Name): out.add(t.value.id)
        elif isinstance(s, ast.For):
            for n in ast.walk(s.target):
                if isinstance(n, ast.Name): out.add(n.id)
    return out


def reads(node):
    return {n.id for n in ast.walk(node) if isinstance(n, ast.Name) and isinstance(n.ctx, ast.Load)}


class LoopTranslator(pyfun.Translator):
    def __init__(self, path, prefix='gen_'):
        super().__init__(path, prefix)
        self.synthetic = {}
        self.pending = []
        self.uses_loops = False
        self.loop_fns = set()

    def find_def(self, name, cls=None):
        if (cls, name) in self.synthetic: return self.synthetic[(cls, name)]
        return super().find_def(name, cls)

    def translate(self, name, cls=None):
        self.pending, self.uses_loops, self.nloop, self.fn_tables = [], False, 0, {}
        info = super().translate(name, cls)
        if self.uses_loops:
            if info.recursive: raise Refusal('%s: recursive function with loops' % name)
            text = self.out.pop()
            text = text.replace('Definition %s' % info.coqname, 'Definition %s (fuel : nat)' % info.coqname, 1)
            self.out.extend(self.pending)
            self.out.append(text)
            self.loop_fns.add(name)
        return info

    def call_known(self, info, node, extra_first=()):
        """as pyfun's, plus: a callee that contains loops takes the caller's fuel (the caller then takes fuel too)"""
        if info.pyname not in self.loop_fns: return super().call_known(info, node, extra_first)
        given = {}
        pos = list(node.args)
        if len(pos) > len(info.params): self.refuse(node, 'too many arguments')
        for p, a in zip(info.params, pos): given[p] = a
        for kw in node.keywords:
            if kw.arg is None or kw.arg not in info.params or kw.arg in given: self.refuse(node, 'keyword argument')
            given[kw.arg] = kw.value
        argnodes = []
        for p in info.params:
            if p in given: argnodes.append(given[p])
            elif p in info.defaults: argnodes.append(info.defaults[p])
            else: self.refuse(node, 'missing argument %s' % p)
        self.uses_loops = True
        selfargs = ['self_' + a for a in info.self_attrs]
        return self.bindall(argnodes, lambda a: '%s fuel %s' % (info.coqname, ' '.join(selfargs + a)))

    STR_FN = {'upper': 'm_upper', 'lower': 'm_lower', 'strip': 'm_strip', 'lstrip': 'm_lstrip', 'rstrip': 'm_rstrip'}

    def fn_table(self, v):
        """[str.upper, str.lower][E]: a table of unary string methods indexed by an expression"""
        if isinstance(v, ast.Subscript) and isinstance(v.value, ast.List) and v.value.elts and not isinstance(v.slice, ast.Slice) and \
           all(isinstance(e, ast.Attribute) and isinstance(e.value, ast.Name) and e.value.id == 'str' and e.attr in self.STR_FN for e in v.value.elts):
            return [self.STR_FN[e.attr] for e in v.value.elts], v.slice
        return None

    def block(self, stmts):
        if stmts and isinstance(stmts[0], _Emit): return stmts[0].text
        if stmts and isinstance(stmts[0], ast.While): return self.while_(stmts[0], stmts[1:])
        if stmts and isinstance(stmts[0], ast.For): return self.for_(stmts[0], stmts[1:])
        s, rest = (stmts[0], stmts[1:]) if stmts else (None, [])
        if isinstance(s, ast.Assign) and len(s.targets) == 1:
            t = s.targets[0]
            # a, b = E
            if isinstance(t, ast.Tuple) and t.elts and all(isinstance(e, ast.Name) for e in t.elts):
                tmp = self.fresh('u')
                e = self.expr(s.value)
                n = len(t.elts)
                out = '(do %s <- %s;\n' % (tmp, e)
                for i, el in enumerate(t.elts):
                    out += '(do v_%s <- py_unpack %s %d %d;\n' % (el.id, tmp, n, i)
                    self.locals.add(el.id)
                return out + self.block(rest) + ')' * (n + 1)
            # X[k] = E   (X a local variable holding a dictionary: the model re-binds X)
            if isinstance(t, ast.Subscript) and isinstance(t.value, ast.Name) and t.value.id in self.locals and not isinstance(t.slice, ast.Slice):
                x = t.value.id
                e = self.bindall([t.slice, s.value], lambda a: 'py_setitem v_%s %s %s' % (x, a[0], a[1]))
                return '(do v_%s <- %s;\n%s)' % (x, e, self.block(rest))
            # f = [str.upper, str.lower][E]
            if isinstance(t, ast.Name) and self.fn_table(s.value):
                fns, idx = self.fn_table(s.value)
                self.fn_tables[t.id] = fns
                e = self.bindall([idx], lambda a: 'py_getitem (VList [%s]) %s' % ('; '.join('VInt %d%%Z' % i for i in range(len(fns))), a[0]))
                self.locals.add(t.id)
                return '(do v_%s <- %s;\n%s)' % (t.id, e, self.block(rest))
        if isinstance(s, ast.Delete):
            if len(s.targets) != 1 or not (isinstance(s.targets[0], ast.Subscript) and isinstance(s.targets[0].value, ast.Name)
                                           and s.targets[0].value.id in self.locals): self.refuse(s, 'del form')
            x = s.targets[0].value.id
            e = self.bindall([s.targets[0].slice], lambda a: 'py_delitem v_%s %s' % (x, a[0]))
            return '(do v_%s <- %s;\n%s)' % (x, e, self.block(rest))
        return super().block(stmts)

    def expr(self, node):
        if isinstance(node, ast.Dict) and not node.keys: return 'Ok (VDict [])'
        return super().expr(node)

    def call(self, node):
        f = node.func
        if isinstance(f, ast.Name) and f.id in self.fn_tables and f.id in self.locals:
            if node.keywords or len(node.args) != 1: self.refuse(node, 'call through a method table')
            fns = self.fn_tables[f.id]
            return self.bindall([node.args[0]], lambda a: 'call_tbl [%s] v_%s %s' % ('; '.join(fns), f.id, a[0]))
        if isinstance(f, ast.Attribute) and f.attr == 'items' and not node.args and not node.keywords:
            return self.bindall([f.value], lambda a: 'py_items %s' % a[0])
        return super().call(node)

    # ------------------------------------------------------------------
    def loop_common(self, s, kind):
        if s.orelse: self.refuse(s, '%s/else' % kind)
        for t in _stmts(s.body):
            if isinstance(t, (ast.Break, ast.Continue, ast.Return, ast.FunctionDef)):
                self.refuse(t, '%s inside a loop' % type(t).__name__)
        if self.local_fns: self.refuse(s, 'loop after a nested def')
        self.uses_loops = True
        self.nloop += 1
        return '%s%s_%s%d' % (self.prefix, self.cur.pyname, kind, self.nloop)

    def check_unbound(self, s, v, cond=None):
        """a loop variable without a value before the loop: it must be assigned at the top
        level of the body before anything reads it, and the loop condition must not read it
        (its placeholder value VNone is then never observed unless the loop runs zero times)"""
        if cond is not None and v in reads(cond): self.refuse(s, 'loop condition reads unbound %s' % v)
        for t in s.body:
            if isinstance(t, ast.Assign) and len(t.targets) == 1 and isinstance(t.targets[0], ast.Name) \
                    and t.targets[0].id == v and v not in reads(t.value):
                return
            if isinstance(t, ast.Assign) and len(t.targets) == 1 and isinstance(t.targets[0], ast.Tuple) \
                    and all(isinstance(e, ast.Name) for e in t.targets[0].elts) and v in [e.id for e in t.targets[0].elts] and v not in reads(t.value):
                return
            if v in reads(t) or v in assigned([t]): break
        self.refuse(s, 'variable %s may be read before assignment in the loop' % v)

    def while_(self, s, rest):
        fname = self.loop_common(s, 'while')
        state = sorted(assigned(s.body))
        for v in state:
            if v not in self.locals: self.check_unbound(s, v, s.test)
        outer = sorted(v for v in self.locals if v not in state)
        selfargs = ['self_' + a for a in self.cur.self_attrs]
        init = [('v_' + v) if v in self.locals else 'VNone' for v in state]
        saved = set(self.locals)
        self.locals |= set(state)
        cond = self.expr(s.test)
        fixed = selfargs + ['v_' + v for v in outer]
        svars = ['v_' + v for v in state]
        body = self.block(list(s.body) + [_Emit('%s fuel %s k_' % (fname, ' '.join(fixed + svars)))])
        t = self.fresh('c')
        ktype = ' -> '.join(['pyval'] * len(state) + ['res pyval'])
        self.pending.append(
            '(* %s:%d  while loop of %s; state: %s *)\n'
            'Fixpoint %s (fuel : nat) %s (k_ : %s) {struct fuel} : res pyval :=\n'
            '  match fuel with\n  | O => Raise OutOfFuel\n  | S fuel =>\n'
            '    (do %s <- %s;\n     if truthy %s then\n%s\n     else k_ %s)\n  end.\n' % (
                self.path.split('/')[-1], getattr(s, 'lineno', 0), self.cur.pyname, ', '.join(state),
                fname, ' '.join('(%s : pyval)' % a for a in fixed + svars), ktype,
                t, cond, t, indent(body, 6), ' '.join(svars)))
        self.locals = saved | set(state)
        k = self.block(rest)
        return '(%s fuel %s (fun %s =>\n%s))' % (fname, ' '.join(fixed + init),
                                                 ' '.join('(%s : pyval)' % a for a in svars), indent(k, 2))

    def for_(self, s, rest):
        fname = self.loop_common(s, 'for')
        unpack = None
        if isinstance(s.target, ast.Tuple) and s.target.elts and all(isinstance(e, ast.Name) for e in s.target.elts):
            # for a, b in E:  ==  for item_ in E: a, b = item_
            unpack = s.target
            item = 'item%d_' % self.nloop
            s = ast.For(target=ast.Name(id=item, ctx=ast.Store()), iter=s.iter, orelse=[], lineno=getattr(s, 'lineno', 0),
                        body=[ast.Assign(targets=[unpack], value=ast.Name(id=item, ctx=ast.Load()), lineno=getattr(s, 'lineno', 0))] + list(s.body))
        if not isinstance(s.target, ast.Name): self.refuse(s, 'for target')
        x = s.target.id
        if x in self.locals: self.refuse(s, 'for target shadows a local')
        state = sorted(assigned(s.body) - {x})
        if x in assigned(s.body): self.refuse(s, 'assignment to the for target')
        for v in state:
            if v not in self.locals: self.check_unbound(s, v)
        it = self.expr(s.iter)
        outer = sorted(v for v in self.locals if v not in state)
        selfargs = ['self_' + a for a in self.cur.self_attrs]
        init = [('v_' + v) if v in self.locals else 'VNone' for v in state]
        saved = set(self.locals)
        self.locals |= set(state) | {x}
        fixed = selfargs + ['v_' + v for v in outer]
        svars = ['v_' + v for v in state]
        body = self.block(list(s.body) + [_Emit('%s fuel %s items_ %s k_' % (fname, ' '.join(fixed), ' '.join(svars)))])
        ktype = ' -> '.join(['pyval'] * len(state) + ['res pyval'])
        self.pending.append(
            '(* %s:%d  for loop of %s over %s; state: %s *)\n'
            'Fixpoint %s (fuel : nat) %s (items_ : list pyval) %s (k_ : %s) {struct items_} : res pyval :=\n'
            '  match items_ with\n  | [] => k_ %s\n  | v_%s :: items_ =>\n%s\n  end.\n' % (
                self.path.split('/')[-1], getattr(s, 'lineno', 0), self.cur.pyname, x, ', '.join(state),
                fname, ' '.join('(%s : pyval)' % a for a in fixed), ' '.join('(%s : pyval)' % a for a in svars), ktype,
                ' '.join(svars), x, indent(body, 4)))
        self.locals = saved | set(state)
        k = self.block(rest)
        a, b = self.fresh('it'), self.fresh('l')
        return '(do %s <- %s; do %s <- as_list %s; %s fuel %s %s %s (fun %s =>\n%s))' % (
            a, it, b, a, fname, ' '.join(fixed), b, ' '.join(init), ' '.join('(%s : pyval)' % v for v in svars), indent(k, 2))


# ----------------------------------------------------------------------
def _is_self_call(s, name):
    return (isinstance(s, ast.Expr) and isinstance(s.value, ast.Call) and isinstance(s.value.func, ast.Attribute)
            and isinstance(s.value.func.value, ast.Name) and s.value.func.value.id == 'self' and s.value.func.attr == name)


def slice_add_layers(tr):
    """name-deciding slice of mulgrid.add_layers as a synthetic FunctionDef `add_layers`"""
    node = pyfun.Translator.find_def(tr, 'add_layers', 'mulgrid')
    fn = copy.deepcopy(node)
    NAMES = 'names_'
    body = fn.body
    if body and isinstance(body[0], ast.Expr) and isinstance(body[0].value, ast.Constant): body = body[1:]
    if NAMES in assigned(body) or NAMES in [a.arg for a in fn.args.args]:
        raise Refusal('add_layers: the name %s is in use' % NAMES)

    def bad(s, msg): raise Refusal('%s:%s: add_layers slice: %s' % (tr.path, getattr(s, 'lineno', '?'), msg))

    # 1. which variables feed only the elevations?  D = greatest set of assigned variables that are read
    #    only in the 2nd.. arguments of layer(...) inside self.add_layer(...), or in assignments to D itself
    all_stmts = list(_stmts(body))
    D = set(assigned(body))
    def add_layer_parts(s):
        if not _is_self_call(s, 'add_layer'): return None
        c = s.value
        if c.keywords or len(c.args) != 1: bad(s, 'add_layer call form')
        lay = c.args[0]
        if not (isinstance(lay, ast.Call) and isinstance(lay.func, ast.Name) and lay.func.id == 'layer'
                and not lay.keywords and len(lay.args) >= 1):
            bad(s, 'add_layer argument is not layer(name, ...)')
        return lay.args[0], lay.args[1:]
    changed = True
    while changed:
        changed = False
        for v in sorted(D):
            ok = True
            for s in all_stmts:
                parts = add_layer_parts(s)
                if parts is not None:
                    if v in reads(parts[0]): ok = False
                elif isinstance(s, ast.Assign) and len(s.targets) == 1 and isinstance(s.targets[0], ast.Name):
                    if v in reads(s.value) and s.targets[0].id not in D: ok = False
                    if s.targets[0].id == v and any(isinstance(n, ast.Call) for n in ast.walk(s.value)): ok = False
                elif isinstance(s, ast.AugAssign) and isinstance(s.target, ast.Name):
                    if v in reads(s.value) and s.target.id not in D: ok = False
                    if s.target.id == v and any(isinstance(n, ast.Call) for n in ast.walk(s.value)): ok = False
                elif isinstance(s, (ast.For, ast.While, ast.If)):
                    hdr = s.iter if isinstance(s, ast.For) else s.test
                    if v in reads(hdr): ok = False
                    if isinstance(s, ast.For) and v in {n.id for n in ast.walk(s.target) if isinstance(n, ast.Name)}: ok = False
                elif isinstance(s, ast.Expr):
                    if v in reads(s): ok = False
                else:
                    if v in reads(s): ok = False
            if not ok:
                D.discard(v); changed = True

    def conv(stmts):
        out = []
        for s in stmts:
            if isinstance(s, ast.Expr):
                if _is_self_call(s, 'clear_layers') and not s.value.args and not s.value.keywords:
                    out.append(ast.Assign(targets=[ast.Name(id=NAMES, ctx=ast.Store())], value=ast.List(elts=[], ctx=ast.Load()), lineno=s.lineno))
                elif _is_self_call(s, 'identify_layer_tops') and not s.value.args and not s.value.keywords:
                    pass
                elif _is_self_call(s, 'add_layer'):
                    nm, _ = add_layer_parts(s)
                    out.append(ast.Assign(targets=[ast.Name(id=NAMES, ctx=ast.Store())],
                                          value=ast.BinOp(left=ast.Name(id=NAMES, ctx=ast.Load()), op=ast.Add(),
                                                          right=ast.List(elts=[nm], ctx=ast.Load())), lineno=s.lineno))
                elif isinstance(s.value, ast.Constant): pass
                else: bad(s, 'unrecognised call statement')
            elif isinstance(s, ast.Assign) and len(s.targets) == 1 and isinstance(s.targets[0], ast.Name) and s.targets[0].id in D:
                pass
            elif isinstance(s, ast.AugAssign) and isinstance(s.target, ast.Name) and s.target.id in D:
                pass
            elif isinstance(s, (ast.For, ast.While)):
                t = copy.copy(s); t.body = conv(s.body); t.orelse = conv(s.orelse)
                out.append(t)
            elif isinstance(s, ast.If):
                t = copy.copy(s); t.body = conv(s.body); t.orelse = conv(s.orelse)
                out.append(t)
            elif isinstance(s, (ast.Assign, ast.AugAssign)):
                out.append(s)
            else: bad(s, 'statement %s' % type(s).__name__)
        return out

    new = conv(body)
    if not any(isinstance(s, ast.Assign) and s.targets[0].id == NAMES and isinstance(s.value, ast.List) for s in new
               if isinstance(s, ast.Assign) and isinstance(s.targets[0], ast.Name)):
        raise Refusal('add_layers slice: no self.clear_layers() at the top level')
    new.append(ast.Return(value=ast.Name(id=NAMES, ctx=ast.Load())))
    fn.body = new
    # parameters that only fed the dropped statements are removed
    used = set()
    for s in new: used |= reads(s)
    keep = [a for a in fn.args.args if a.arg == 'self' or a.arg in used]
    ndrop_defaults = 0
    nd = len(fn.args.defaults)
    defaults = dict(zip([a.arg for a in fn.args.args[len(fn.args.args) - nd:]], fn.args.defaults))
    fn.args.args = keep
    # keep defaults only as a suffix (pyfun binds defaults positionally from the end)
    suffix = []
    for a in reversed(keep):
        if a.arg in defaults: suffix.insert(0, defaults[a.arg])
        else: break
    fn.args.defaults = suffix
    ast.fix_missing_locations(fn)
    return fn, sorted(D), [a.arg for a in keep if a.arg != 'self']


def tables(tr):
    """literal tables `self.X = [..][self.convention]` of mulgrid.set_secondary_variables"""
    node = pyfun.Translator.find_def(tr, 'set_secondary_variables', 'mulgrid')
    want = {'atmosphere_column_name': str, 'colname_length': int, 'layername_length': int}
    got = {}
    for s in _stmts(node.body):
        if isinstance(s, ast.Assign) and len(s.targets) == 1 and isinstance(s.targets[0], ast.Attribute) \
                and isinstance(s.targets[0].value, ast.Name) and s.targets[0].value.id == 'self' and s.targets[0].attr in want:
            nm = s.targets[0].attr
            v = s.value
            ok = (isinstance(v, ast.Subscript) and isinstance(v.value, ast.List) and isinstance(v.slice, ast.Attribute)
                  and isinstance(v.slice.value, ast.Name) and v.slice.value.id == 'self' and v.slice.attr == 'convention'
                  and all(isinstance(e, ast.Constant) and type(e.value) is want[nm] for e in v.value.elts))
            if not ok or nm in got: raise Refusal('%s:%s: table %s is not a literal list indexed by self.convention' % (tr.path, s.lineno, nm))
            got[nm] = [e.value for e in v.value.elts]
    for nm in want:
        if nm not in got: raise Refusal('%s: table %s not found in set_secondary_variables' % (tr.path, nm))
    # nothing else may assign these attributes anywhere in the class
    for n in ast.walk(tr.tree):
        if isinstance(n, (ast.Assign, ast.AugAssign)) and n not in list(_stmts(node.body)):
            tg = n.targets if isinstance(n, ast.Assign) else [n.target]
            for t in tg:
                for a in ast.walk(t):
                    if isinstance(a, ast.Attribute) and a.attr in ('colname_length', 'layername_length') and isinstance(a.ctx, ast.Store):
                        raise Refusal('%s:%s: %s assigned outside set_secondary_variables' % (tr.path, n.lineno, a.attr))
    text = '(* mulgrids.py:%d  mulgrid.set_secondary_variables: per-convention tables *)\n' % node.lineno
    text += 'Definition gen_colname_length_tbl : list Z := [%s]%%Z.\n' % '; '.join(str(v) for v in got['colname_length'])
    text += 'Definition gen_layername_length_tbl : list Z := [%s]%%Z.\n' % '; '.join(str(v) for v in got['layername_length'])
    text += 'Definition gen_atmosphere_column_name_tbl : list string := [%s].\n' % '; '.join(pyfun.coq_str(v) for v in got['atmosphere_column_name'])
    return text, got


# ----------------------------------------------------------------------
def _params_of(fn, used, extra_first=()):
    """keep `self` + the parameters in `used` (original order); defaults survive only as a suffix"""
    nd = len(fn.args.defaults)
    defaults = dict(zip([a.arg for a in fn.args.args[len(fn.args.args) - nd:]], fn.args.defaults))
    keep = [a for a in fn.args.args if a.arg == 'self' or a.arg in used]
    extra = [ast.arg(arg=x) for x in extra_first]
    suffix = []
    for a in reversed(keep):
        if a.arg in defaults: suffix.insert(0, defaults[a.arg])
        else: break
    fn.args.args = [a for a in keep if a.arg == 'self'] + extra + [a for a in keep if a.arg != 'self']
    fn.args.defaults = suffix
    return [a.arg for a in fn.args.args if a.arg != 'self']


def returning_argument(tr, name, arg):
    """a procedure that works by mutating its argument `arg` (and returns nothing): the functional model returns
    the final value of that argument"""
    node = pyfun.Translator.find_def(tr, name)
    fn = copy.deepcopy(node)
    for s in _stmts(fn.body):
        if isinstance(s, ast.Return): raise Refusal('%s:%s: %s has a return statement' % (tr.path, s.lineno, name))
    if arg not in [a.arg for a in fn.args.args]: raise Refusal('%s: %s has no parameter %s' % (tr.path, name, arg))
    fn.body = list(fn.body) + [ast.Return(value=ast.Name(id=arg, ctx=ast.Load()))]
    ast.fix_missing_locations(fn)
    return fn


def slice_chars_of(tr, name='rectangular', cls='mulgrid', var='chars'):
    """backward slice of a constructor on the character set it names things with: the statements that assign `var`
    (and what they need), in order, then `return var`.  Refused if `var` is read by any other statement before it
    has its final value (a name generated from a not yet de-duplicated / case-converted alphabet)."""
    node = pyfun.Translator.find_def(tr, name, cls)
    fn = copy.deepcopy(node)
    body = fn.body
    if body and isinstance(body[0], ast.Expr) and isinstance(body[0].value, ast.Constant): body = body[1:]
    local = assigned(body)
    S = {var}

    def defines(s, S):
        if isinstance(s, ast.Assign): return any(isinstance(n, ast.Name) and n.id in S for t in s.targets for n in ast.walk(t))
        if isinstance(s, ast.AugAssign): return isinstance(s.target, ast.Name) and s.target.id in S
        if isinstance(s, ast.If): return any(defines(t, S) for t in s.body + s.orelse)
        if isinstance(s, (ast.For, ast.While, ast.Try, ast.With)): return any(defines(t, S) for t in _stmts([s]) if t is not s)
        return False

    def filt(stmts, S):
        out = []
        for s in stmts:
            if not defines(s, S): continue
            if isinstance(s, ast.If):
                t = copy.copy(s); t.body = filt(s.body, S) or [ast.Pass()]; t.orelse = filt(s.orelse, S)
                out.append(t)
            elif isinstance(s, (ast.Assign, ast.AugAssign)): out.append(s)
            else: raise Refusal('%s:%s: %s slice of %s: %s assigned inside a %s' % (tr.path, s.lineno, var, name, var, type(s).__name__))
        return out
    while True:
        kept = filt(body, S)
        need = set()
        for s in kept:
            for t in _stmts([s]):
                if isinstance(t, ast.If): need |= reads(t.test)
                elif isinstance(t, (ast.Assign, ast.AugAssign)): need |= reads(t.value)
        new = (need & local) - S
        if not new: break
        S |= new
    if not kept: raise Refusal('%s: %s never assigns %s' % (tr.path, name, var))
    # no other statement may read var before the last kept top-level statement
    idx = [i for i, s in enumerate(body) if defines(s, S)]
    last = idx[-1]
    def dropped_reads(stmts, S):
        for s in stmts:
            if defines(s, S):
                if isinstance(s, ast.If):
                    for r in dropped_reads(s.body + s.orelse, S): yield r
                continue
            if var in reads(s): yield s
    for s in dropped_reads(body[:last + 1], S):
        raise Refusal('%s:%s: %s of %s is used before it has its final value' % (tr.path, s.lineno, var, name))
    fn.body = kept + [ast.Return(value=ast.Name(id=var, ctx=ast.Load()))]
    used = set()
    for s in fn.body: used |= reads(s)
    params = _params_of(fn, used - (local - {a.arg for a in fn.args.args}) | ({a.arg for a in fn.args.args} & used))
    ast.fix_missing_locations(fn)
    return fn, params


class _Rewrite(ast.NodeTransformer):
    """self.layerlist[0].name -> names_[0];  self.layer -> names_"""
    def visit_Attribute(self, node):
        self.generic_visit(node)
        v = node.value
        if node.attr == 'name' and isinstance(v, ast.Subscript) and isinstance(v.value, ast.Attribute) and isinstance(v.value.value, ast.Name) \
                and v.value.value.id == 'self' and v.value.attr == 'layerlist' and isinstance(v.slice, ast.Constant) and v.slice.value == 0:
            return ast.Subscript(value=ast.Name(id='names_', ctx=ast.Load()), slice=ast.Constant(value=0), ctx=ast.Load())
        if node.attr == 'layer' and isinstance(v, ast.Name) and v.id == 'self':
            return ast.Name(id='names_', ctx=ast.Load())
        return node


HARMLESS_CALLS = ('set_column_num_layers', 'setup_block_name_index', 'setup_block_connection_name_index', 'identify_layer_tops')


def slice_refine_layers(tr, add_layers_params):
    """name-deciding slice of mulgrid.refine_layers over the list `names_` of the geometry's layer names:
    self.layerlist[0].name -> names_[0], `x in self.layer` -> `x in names_`, self.clear_layers() -> names_ = [],
    self.add_layers(..) -> names_ = <translated add_layers slice>(..), self.rename_layer(a, b) -> names_ with a replaced by b.
    The thickness list only matters through its length: it becomes a parameter and its computation is dropped."""
    node = pyfun.Translator.find_def(tr, 'refine_layers', 'mulgrid')
    real_add = pyfun.Translator.find_def(tr, 'add_layers', 'mulgrid')
    add_args = [a.arg for a in real_add.args.args if a.arg != 'self']
    fn = copy.deepcopy(node)
    body = fn.body
    if body and isinstance(body[0], ast.Expr) and isinstance(body[0].value, ast.Constant): body = body[1:]
    def bad(s, msg): raise Refusal('%s:%s: refine_layers slice: %s' % (tr.path, getattr(s, 'lineno', '?'), msg))
    # the add_layers call and the variables that reach a name
    calls = [s for s in _stmts(body) if _is_self_call(s, 'add_layers')]
    if len(calls) != 1: raise Refusal('%s: refine_layers slice: expected exactly one self.add_layers(...) call' % tr.path)
    c = calls[0].value
    bound = dict(zip(add_args, c.args))
    for kw in c.keywords:
        if kw.arg is None or kw.arg in bound or kw.arg not in add_args: bad(calls[0], 'add_layers keyword')
        bound[kw.arg] = kw.value
    th = bound.get('thicknesses')
    if not isinstance(th, ast.Name): bad(calls[0], 'thicknesses argument is not a variable')
    opaque = th.id
    kw = []
    for p in add_layers_params:
        if p not in bound: continue          # the slice's own default applies
        kw.append(ast.keyword(arg=p, value=_Rewrite().visit(copy.deepcopy(bound[p]))))
    need = set()
    for k in kw: need |= reads(k.value)
    need.discard(opaque)
    changed = True
    while changed:                      # variables the names depend on
        changed = False
        for s in _stmts(body):
            if isinstance(s, ast.Assign) and len(s.targets) == 1 and isinstance(s.targets[0], ast.Name) and s.targets[0].id in need:
                new = reads(_Rewrite().visit(copy.deepcopy(s.value))) - need - {opaque, 'names_'}
                if new: need |= new; changed = True
            if _is_self_call(s, 'rename_layer'):
                for a in s.value.args:
                    new = reads(_Rewrite().visit(copy.deepcopy(a))) - need - {opaque, 'names_'}
                    if new: need |= new; changed = True
            if isinstance(s, ast.If) and any(_is_self_call(t, 'rename_layer') or _is_self_call(t, 'add_layers') or _is_self_call(t, 'clear_layers') for t in _stmts(s.body + s.orelse)):
                new = reads(_Rewrite().visit(copy.deepcopy(s.test))) - need - {opaque, 'names_'}
                if new: need |= new; changed = True

    def names(x): return ast.Name(id='names_', ctx=x)

    def conv(stmts):
        out = []
        for s in stmts:
            if isinstance(s, ast.Expr):
                if isinstance(s.value, ast.Constant): continue
                if _is_self_call(s, 'clear_layers') and not s.value.args and not s.value.keywords:
                    out.append(ast.Assign(targets=[names(ast.Store())], value=ast.List(elts=[], ctx=ast.Load()), lineno=s.lineno))
                elif _is_self_call(s, 'add_layers'):
                    out.append(ast.Assign(targets=[names(ast.Store())], lineno=s.lineno,
                                          value=ast.Call(func=ast.Attribute(value=ast.Name(id='self', ctx=ast.Load()), attr='add_layers', ctx=ast.Load()), args=[], keywords=kw)))
                elif _is_self_call(s, 'rename_layer'):
                    if s.value.keywords or len(s.value.args) != 2: bad(s, 'rename_layer call form')
                    old, new = [_Rewrite().visit(copy.deepcopy(a)) for a in s.value.args]
                    out.append(ast.Assign(targets=[ast.Name(id='old_', ctx=ast.Store())], value=old, lineno=s.lineno))
                    out.append(ast.Assign(targets=[ast.Name(id='new_', ctx=ast.Store())], value=new, lineno=s.lineno))
                    elt = ast.IfExp(test=ast.Compare(left=ast.Name(id='n_', ctx=ast.Load()), ops=[ast.Eq()], comparators=[ast.Name(id='old_', ctx=ast.Load())]),
                                    body=ast.Name(id='new_', ctx=ast.Load()), orelse=ast.Name(id='n_', ctx=ast.Load()))
                    out.append(ast.Assign(targets=[names(ast.Store())], lineno=s.lineno,
                                          value=ast.ListComp(elt=elt, generators=[ast.comprehension(target=ast.Name(id='n_', ctx=ast.Store()), iter=names(ast.Load()), ifs=[], is_async=0)])))
                elif any(_is_self_call(s, h) for h in HARMLESS_CALLS): continue
                elif isinstance(s.value, ast.Call) and isinstance(s.value.func, ast.Attribute) and isinstance(s.value.func.value, ast.Name) \
                        and s.value.func.value.id not in need | {'self', 'names_'}: continue      # e.g. thicknesses.append(..)
                else: bad(s, 'unrecognised call statement')
            elif isinstance(s, (ast.Assign, ast.AugAssign)):
                tg = s.targets[0] if isinstance(s, ast.Assign) and len(s.targets) == 1 else getattr(s, 'target', None)
                if not isinstance(tg, ast.Name): bad(s, 'assignment target')
                if tg.id in need:
                    t = copy.deepcopy(s); t.value = _Rewrite().visit(t.value); out.append(t)
                # anything else (thicknesses, factor, layers, elevations) does not reach a name
            elif isinstance(s, ast.If):
                b, o = conv(s.body), conv(s.orelse)
                if b or o:
                    t = copy.copy(s); t.test = _Rewrite().visit(copy.deepcopy(s.test)); t.body = b or [ast.Pass()]; t.orelse = o
                    out.append(t)
            elif isinstance(s, ast.For):
                if conv(s.body) or conv(s.orelse): bad(s, 'layer names changed inside a for loop')
            else: bad(s, 'statement %s' % type(s).__name__)
        return out
    new = conv(body)
    new.append(ast.Return(value=names(ast.Load())))
    fn.body = new
    used = set()
    for s in new: used |= reads(s)
    if 'names_' in [a.arg for a in fn.args.args]: raise Refusal('refine_layers: names_ in use')
    fn.args.defaults = []
    fn.args.args = [a for a in fn.args.args] + [ast.arg(arg=opaque)] if opaque not in [a.arg for a in fn.args.args] else fn.args.args
    params = _params_of(fn, (used | {opaque}) - {'names_'}, extra_first=['names_'])
    ast.fix_missing_locations(fn)
    return fn, params
