"""C01: generator of data-object specs over the property's quantifier (see c01_oracle.build).

Everything is drawn from one random.Random; boundary-biased: list lengths around the 4- and
8-per-line chunk edges, 0..12 default incons, table generators with 1..12 times with and
without enthalpy, None in optional fields, both flavours, three mesh placements, extra
precision off / on / echoed, legal permutations of the section order."""
import string, math, random
from props.c01_oracle import SECTIONS, DEPENDS, XP_SECTIONS

LETTERS = string.ascii_letters
CHUNK8 = [0, 1, 2, 7, 8, 9, 15, 16, 17, 24]
CHUNK4 = [1, 2, 3, 4, 5, 7, 8, 9, 11, 12]


def real(rng, neg=False, small=False):
    k = rng.random()
    if k < 0.08: v = 0.0
    elif k < 0.45:   # short decimals
        v = float('%.*g' % (rng.randint(1, 4), rng.random() * 10 ** rng.randint(-3, 6)))
    elif k < 0.55:
        v = rng.choice([1.0, 2600.0, 0.1, 1.e-15, 1.5, 900.0, 1.e5, 20.0, 0.5, 1.e-13, 1.0e6, 9.99995, 9.9995e4, 0.99995, 2.5e-7, 1.25])
    elif k < 0.9:
        v = rng.random() * 10.0 ** rng.randint(-18, 18)
    elif k < 0.95:
        v = rng.random() * 10.0 ** rng.choice([-120, -101, -100, -99, 99, 100, 120])
    else:
        v = float(rng.randint(0, 10 ** rng.randint(1, 9)))
    if small: v = v % 1.0
    if neg and rng.random() < 0.35: v = -v
    return v


def opt(rng, f, pnone=0.15):
    return None if rng.random() < pnone else f()


def intw(rng, w, lo=1):
    """an int that fits %wd, edge-biased"""
    hi = 10 ** w - 1
    k = rng.random()
    if k < 0.2: return hi
    if k < 0.3: return lo
    if k < 0.5: return rng.choice([9, 10, 99, 100, 999, 1000][:max(1, 2 * w - 2)])
    return rng.randint(lo, hi)


def a3i2(rng):
    """a block name in (A3, I2) form as the library holds it (fix_blockname applied)"""
    while True:
        a = ''.join(rng.choice(LETTERS + LETTERS + string.digits + ' ') for _ in range(3))
        if a.strip() and a[0] != ' ': break
    k = rng.random()
    if k < 0.7:
        i = rng.randint(1, 99)
        if i < 10: return a + ('0' if a[2].isdigit() else ' ') + str(i)
        return a + str(i)
    if k < 0.85:    # no numeric tail
        return a + rng.choice(LETTERS) + rng.choice(LETTERS + string.digits)
    return a + rng.choice(LETTERS) + ' '


def names(rng, n, f):
    out = []
    seen = set()
    while len(out) < n:
        x = f(rng)
        if x not in seen: seen.add(x); out.append(x)
    return out


def rockname(rng):
    return ''.join(rng.choice(LETTERS + string.digits) for _ in range(5))


def tp(rng, nparams=None):
    n = rng.choice([0, 1, 2, 3, 6, 7]) if nparams is None else nparams
    ps = [real(rng, small=rng.random() < 0.5) for _ in range(n)]
    if n == 7 and rng.random() < 0.3: ps[rng.randint(0, 5)] = None
    return {'type': rng.randint(1, 12), 'parameters': ps}


def gen_rock(rng, name):
    nad = rng.choice([None, 0, 0, 1, 2, 2])
    r = {'name': name, 'nad': nad, 'density': opt(rng, lambda: real(rng)), 'porosity': opt(rng, lambda: real(rng, small=True)),
         'permeability': [real(rng) for _ in range(3)], 'conductivity': opt(rng, lambda: real(rng)),
         'specific_heat': opt(rng, lambda: real(rng)), 'extra': {}, 'relperm': None, 'cap': None}
    if nad is not None and nad >= 1:
        for k in ['compressibility', 'expansivity', 'dry_conductivity', 'tortuosity']:
            if rng.random() < 0.8: r['extra'][k] = real(rng)
        for k in ['klinkenberg', 'xkd3', 'xkd4']:
            if rng.random() < 0.3: r['extra'][k] = real(rng)
    if nad is not None and nad >= 2:
        r['relperm'] = tp(rng); r['cap'] = tp(rng)
    return r


def gen_grid(rng, nblocks, binary):
    nr = rng.randint(1, 4)
    rocks = [gen_rock(rng, n) for n in names(rng, nr, rockname)]
    bn = names(rng, nblocks, a3i2)
    blocks = []
    allc = binary or rng.random() < 0.5
    for n in bn:
        cen = [real(rng, neg=True) for _ in range(3)] if (allc or rng.random() < 0.5) else None
        blocks.append({'name': n, 'nseq': None if binary else opt(rng, lambda: intw(rng, 5), 0.7),
                       'nadd': None if binary else opt(rng, lambda: intw(rng, 5), 0.7),
                       'rock': rng.choice(rocks)['name'], 'volume': real(rng) if binary else opt(rng, lambda: real(rng), 0.05),
                       'ahtx': opt(rng, lambda: real(rng), 0.5), 'pmx': opt(rng, lambda: real(rng), 0.5), 'centre': cen})
    conns = []
    pairs = set()
    if nblocks >= 2:
        for _ in range(rng.choice([0, 1, nblocks - 1, nblocks, 2 * nblocks])):
            a, b = rng.sample(bn, 2)
            if (a, b) in pairs: continue
            pairs.add((a, b))
            conns.append({'b1': a, 'b2': b, 'nseq': None if binary else opt(rng, lambda: intw(rng, 5), 0.8),
                          'nad1': None if binary else opt(rng, lambda: intw(rng, 5), 0.8),
                          'nad2': None if binary else opt(rng, lambda: intw(rng, 5), 0.8),
                          'direction': rng.randint(1, 3), 'distance': [real(rng), real(rng)], 'area': real(rng),
                          'dircos': rng.choice([0.0, 1.0, -1.0, -0.5, 0.7071067811865476, round(rng.uniform(-1, 1), rng.randint(1, 9))]),
                          'sigma': opt(rng, lambda: real(rng), 0.6)})
    return rocks, blocks, conns


def gen_param(rng, auto, blocknames):
    p = {}
    if rng.random() < 0.8:
        for k, w in (('max_iterations', 2), ('print_level', 2), ('max_timesteps', 4), ('max_duration', 4), ('print_interval', 4)):
            if rng.random() < 0.7: p[k] = intw(rng, w, 0)
    p['option'] = [rng.choice([0, 0, 0, 1, 2, 5, 9]) for _ in range(24)]
    if auto and rng.random() < 0.4: p['diff0'] = real(rng)
    for k in ('texp', 'be'):
        if rng.random() < 0.4: p[k] = real(rng)
    p['tstart'] = rng.choice([0.0, real(rng)])
    for k in ('tstop', 'max_timestep', 'timestep_reduction', 'scale', 'relative_error', 'absolute_error', 'pivot', 'upstream_weight',
              'newton_weight', 'derivative_increment'):
        if rng.random() < 0.5: p[k] = real(rng)
    p['gravity'] = rng.choice([0.0, 9.81, 9.80665, real(rng)])
    if blocknames and rng.random() < 0.4: p['print_block'] = rng.choice(blocknames)
    if rng.random() < 0.35:
        k = rng.randint(1, 3)
        p['const_timestep'] = float(-k)
        n = rng.choice([8 * k - 7, 8 * k, 8 * k - 1, max(1, 8 * k - 4)])
        p['timestep'] = [real(rng) for _ in range(n)]
    else:
        p['const_timestep'] = rng.choice([0.0, real(rng)])
        p['timestep'] = [p['const_timestep']]
    p['default_incons'] = [real(rng, neg=rng.random() < 0.2) for _ in range(rng.randint(0, 12))]
    return p


GEN_TYPES = ['MASS', 'HEAT', 'COM1', 'COM2', ' AIR', 'DELV', 'WATE', 'MASS']
# round 6 (seed C01-m12): types that share a prefix / suffix / case with the literals the reader and the writer test
# ('DELV'), so that a condition on the type that differs between write_generator and read_generator is exercised
GEN_TYPES_NEAR = ['DELG', 'DELS', 'DELT', 'DELW', 'DELX', 'XELV', 'delv', 'DEL1', 'VDEL', 'RECH', 'FEED', 'CO2 ']


def gen_type(rng):
    k = rng.random()
    if k < 0.62: return rng.choice(GEN_TYPES)
    if k < 0.92: return rng.choice(GEN_TYPES_NEAR)
    return ''.join(rng.choice('ABCDELVX12') for _ in range(4))


def gen_generators(rng, blocknames, n):
    out = []
    keys = set()
    for _ in range(n):
        block = rng.choice(blocknames) if blocknames and rng.random() < 0.9 else a3i2(rng)
        name = a3i2(rng)
        if (block, name) in keys: continue
        keys.add((block, name))
        g = {'block': block, 'name': name, 'nseq': opt(rng, lambda: intw(rng, 5, 0), 0.7), 'nadd': opt(rng, lambda: intw(rng, 5, 0), 0.7),
             'nads': opt(rng, lambda: intw(rng, 5, 0), 0.7), 'type': gen_type(rng),
             'ltab': 0, 'itab': '', 'gx': opt(rng, lambda: real(rng, neg=True)), 'ex': opt(rng, lambda: real(rng)),
             'hg': opt(rng, lambda: real(rng), 0.6), 'fg': opt(rng, lambda: real(rng), 0.6), 'time': [], 'rate': [], 'enthalpy': []}
        k = rng.random()
        if g['type'] == 'DELV':
            g['ltab'] = rng.choice([0, 1, 3, None])
        elif k < 0.6:
            nt = rng.randint(1, 12) if rng.random() < 0.5 else rng.choice([2, 3, 4, 5, 8, 9, 12])
            g['ltab'] = nt if rng.random() < 0.9 else -nt
            if nt > 1:
                t0 = 0.0
                for _ in range(nt):
                    g['time'].append(t0); t0 += real(rng) + 1.0
                g['rate'] = [real(rng, neg=True) for _ in range(nt)]
                if rng.random() < 0.5:
                    g['itab'] = rng.choice(['E', 'e', '1', 'x'])
                    g['enthalpy'] = [real(rng) for _ in range(nt)]
        elif k < 0.8: g['ltab'] = rng.choice([None, 0, 1])
        if g['itab'] == '' and rng.random() < 0.3: g['itab'] = ' '
        out.append(g)
    return out


def gen_meshmaker(rng):
    mm = []
    for _ in range(rng.randint(1, 2)):
        k = rng.random()
        if k < 0.4:
            subs = []
            for _ in range(rng.randint(0, 3)):
                t = rng.choice(['radii', 'equid', 'logar'])
                if t == 'radii': subs.append(['radii', {'radii': [real(rng) for _ in range(rng.choice(CHUNK8[1:]))]}])
                elif t == 'equid': subs.append(['equid', {'nequ': intw(rng, 5), 'dr': real(rng)}])
                else: subs.append(['logar', {'nlog': intw(rng, 5), 'rlog': real(rng), 'dr': opt(rng, lambda: real(rng), 0.4)}])
            subs.append(['layer', {'layer': [real(rng) for _ in range(rng.choice(CHUNK8[1:]))]}])
            mm.append(['rz2d', subs])
        elif k < 0.75:
            body = [real(rng)]
            for _ in range(rng.randint(0, 3)):
                d = {'ntype': rng.choice(['NX', 'NY', 'NZ']), 'no': rng.choice(CHUNK8[1:]), 'del': rng.choice([0.0, 0.0, real(rng) + 1.0])}
                if d['del'] == 0: d['deli'] = [real(rng) for _ in range(d['no'])]
                body.append(d)
            mm.append(['xyz', body])
        else:
            mm.append(['minc', {'type': rng.choice(['ONE-D', 'TWO-D', 'THRED', 'STANA', 'STANB', 'STANC']), 'dual': rng.choice(['MMVER', 'MMALL']),
                                'num_continua': rng.randint(1, 999), 'where': rng.choice(['OUT ', 'IN  ']),
                                'spacing': [real(rng) for _ in range(rng.choice([0, 1, 3, 7]))],
                                'vol': [real(rng, small=True) for _ in range(rng.choice(CHUNK8[1:]))]}])
    return mm


def legal_order(rng, present):
    """a permutation of the present sections respecting the readers' look-ups"""
    present = [s for s in SECTIONS if s in present]
    if rng.random() < 0.4: return present
    rest = [s for s in present if s != 'SIMUL']
    out = ['SIMUL'] if 'SIMUL' in present else []
    while rest:
        ok = [s for s in rest if all(d not in rest for d in DEPENDS.get(s, []))]
        s = rng.choice(ok)
        rest.remove(s); out.append(s)
    return out


def gen_spec(rng, size=None, force=None):
    """force: dict of overrides of the configuration (mesh, xp, echo, auto)"""
    force = force or {}
    auto = force.get('auto', rng.random() < 0.5)
    mesh = force.get('mesh', rng.choice(['infile', 'infile', 'infile', 'ascii', 'binary']))
    xp = force.get('xp', (rng.choice([None, None, True, True, ['ROCKS'], ['ROCKS', 'ELEME', 'CONNE'], ['RPCAP', 'GENER'], 'GENER'])
                          if auto else None))
    echo = force.get('echo', rng.choice([None, True, False]) if xp else None)
    binary = mesh == 'binary'
    nb = size if size is not None else rng.choice([0, 1, 2, 3, 5, 8, 12])
    if binary and nb == 0: nb = 2
    sp = {'title': rng.choice(['', 'test problem', 'x' * 80, '*r1q* --- 1-D radial', 'a  b']),
          'simulator': rng.choice(['AUTOUGH2.2EW', 'AUTOUGH2.2', 'AUT2']) if auto else ''}
    rocks, blocks, conns = gen_grid(rng, nb, binary)
    if nb == 0 and rng.random() < 0.5: rocks = []
    sp['rocks'], sp['blocks'], sp['conns'] = rocks, blocks, conns
    bn = [b['name'] for b in blocks]
    sp['parameter'] = gen_param(rng, auto, bn)
    sp['more_option'] = [rng.choice([0, 0, 1, 3]) for _ in range(21)] if rng.random() < 0.4 else None
    sp['start'] = rng.random() < 0.5
    sp['noversion'] = rng.random() < 0.3
    if rng.random() < 0.5: sp['relperm'], sp['cap'] = tp(rng), tp(rng)
    else: sp['relperm'] = sp['cap'] = None
    sp['lineq'] = {}
    if rng.random() < 0.4:
        for k, f in (('type', lambda: intw(rng, 2)), ('epsilon', lambda: real(rng)), ('max_iterations', lambda: intw(rng, 4)),
                     ('gauss', lambda: rng.randint(0, 9)), ('num_orthog', lambda: intw(rng, 4))):
            if rng.random() < 0.75: sp['lineq'][k] = f()
    sp['solver'] = {}
    if rng.random() < 0.4:
        for k, f in (('type', lambda: rng.randint(1, 6)), ('z_precond', lambda: rng.choice(['Z0', 'Z1', 'Z4'])),
                     ('o_precond', lambda: rng.choice(['O0', 'O4'])), ('relative_max_iterations', lambda: real(rng, small=True)),
                     ('closure', lambda: real(rng, small=True))):
            if rng.random() < 0.75: sp['solver'][k] = f()
    sp['multi'] = {}
    if rng.random() < 0.6:
        sp['multi'] = {'num_components': rng.randint(1, 4), 'num_equations': rng.randint(1, 5), 'num_phases': rng.randint(1, 3),
                       'num_secondary_parameters': rng.choice([6, 8])}
        if auto: sp['multi']['eos'] = rng.choice(['EW', 'EWAV', 'W'])
        elif rng.random() < 0.5: sp['multi']['num_inc'] = rng.randint(1, 5)
    sp['output_times'] = {}
    if rng.random() < 0.5:
        n = rng.choice(CHUNK8[1:])
        sp['output_times'] = {'num_times_specified': n, 'time': [real(rng) for _ in range(n)]}
        if rng.random() < 0.5: sp['output_times']['num_times'] = n + rng.randint(0, 50)
        if rng.random() < 0.4: sp['output_times']['max_timestep'] = real(rng)
        if rng.random() < 0.4: sp['output_times']['time_increment'] = real(rng)
    sp['selection'] = {}
    if rng.random() < 0.4:
        nl = rng.randint(0, 3)
        ints = [nl] + [opt(rng, lambda: intw(rng, 5, 0), 0.3) for _ in range(rng.choice([0, 3, 15]))]
        nf = rng.choice([8 * nl, max(0, 8 * nl - 1), max(0, 8 * nl - 7)]) if nl else 0
        sp['selection'] = {'integer': ints, 'float': [opt(rng, lambda: real(rng), 0.1) for _ in range(nf)]}
        if sp['selection']['float'] and sp['selection']['float'][-1] is None: sp['selection']['float'][-1] = 1.0
    sp['diffusion'] = []
    if sp['multi'] and rng.random() < 0.5:
        sp['diffusion'] = [[real(rng) for _ in range(sp['multi']['num_phases'])] for _ in range(sp['multi']['num_components'])]
    sp['meshmaker'] = gen_meshmaker(rng) if rng.random() < 0.35 else []
    sp['generators'] = gen_generators(rng, bn, rng.choice([0, 1, 2, 4, 7])) if rng.random() < 0.7 else []
    sp['short'] = None
    if mesh == 'infile' and bn and rng.random() < 0.4:
        sh = {}
        if rng.random() < 0.6: sh['frequency'] = rng.choice([1, 5, 99, 0])
        if rng.random() < 0.7: sh['block'] = rng.sample(bn, rng.randint(0, len(bn)))
        if conns and rng.random() < 0.7: sh['connection'] = [[c['b1'], c['b2']] for c in rng.sample(conns, rng.randint(0, len(conns)))]
        if sp['generators'] and rng.random() < 0.7:
            sh['generator'] = [[g['block'], g['name']] for g in rng.sample(sp['generators'], rng.randint(0, len(sp['generators'])))]
        if sh: sp['short'] = sh
    sp['history_objects'] = rng.random() < 0.7
    sp['history_block'] = rng.sample(bn, rng.randint(1, len(bn))) if bn and rng.random() < 0.4 else []
    sp['history_connection'] = ([[c['b1'], c['b2']] for c in rng.sample(conns, rng.randint(1, len(conns)))]
                                if conns and rng.random() < 0.4 else [])
    sp['history_generator'] = rng.sample(bn, rng.randint(1, len(bn))) if bn and rng.random() < 0.3 else []
    sp['incon'] = []
    if bn and rng.random() < 0.5:
        for n in rng.sample(bn, rng.randint(1, len(bn))):
            nseq = opt(rng, lambda: intw(rng, 5), 0.7)
            sp['incon'].append([n, opt(rng, lambda: real(rng, small=True), 0.3), [real(rng, neg=True) for _ in range(rng.randint(1, 4))],
                                nseq, None if nseq is None else opt(rng, lambda: intw(rng, 5), 0.5)])
    sp['indom'] = []
    if rocks and rng.random() < 0.3:
        for r in rng.sample(rocks, rng.randint(1, len(rocks))):
            sp['indom'].append([r['name'], [real(rng, neg=True) for _ in range(rng.randint(1, 4))]])
    sp['end_keyword'] = rng.choice(['ENDCY', 'ENDCY', 'ENDFI'])
    present = set(['PARAM', 'ELEME', 'CONNE'])
    if auto: present.add('SIMUL')
    if rocks: present.add('ROCKS')
    if sp['more_option'] and any(sp['more_option']): present.add('MOMOP')
    for k, s in (('start', 'START'), ('noversion', 'NOVER'), ('relperm', 'RPCAP'), ('lineq', 'LINEQ'), ('solver', 'SOLVR'), ('multi', 'MULTI'),
                 ('output_times', 'TIMES'), ('selection', 'SELEC'), ('diffusion', 'DIFFU'), ('meshmaker', 'MESHM'), ('generators', 'GENER'),
                 ('short', 'SHORT'), ('history_block', 'FOFT'), ('history_connection', 'COFT'), ('history_generator', 'GOFT'),
                 ('incon', 'INCON'), ('indom', 'INDOM')):
        if sp.get(k): present.add(s)
    sp['order'] = legal_order(rng, present)
    sp['config'] = {'mesh': mesh, 'xp': xp, 'echo': echo}
    if auto and xp and (echo is not False or mesh != 'infile'): shorten_dual(sp)
    erng = random.Random(rng.random())
    if erng.random() < 0.5: add_grid_edits(sp, erng)
    return sp


def add_grid_edits(sp, rng, p=0.6):
    """The same final object, reached through public edits of the grid instead of by construction
    (c01_oracle.build applies them): a rock type renamed (its key moves to the end of grid.rocktype,
    its list position stays), rock types added in another order and then sort_rocktypes(), blocks and
    connections added in another order and then grid.reorder().  Afterwards the order of the grid's
    dictionaries differs from the order of its lists, which is the order the files are written in."""
    ed = {}
    rocks = sp['rocks']
    rn = [r['name'] for r in rocks]
    if rocks and len(set(rn)) == len(rn):
        if len(rocks) >= 2 and rng.random() < p:
            rocks.sort(key=lambda r: r['name'])
            perm = list(range(len(rocks))); rng.shuffle(perm)
            ed['rock_build_order'] = perm
        if rng.random() < p:
            while True:
                old = rockname(rng)
                if old not in rn: break
            ed['rename_rock'] = [rng.randrange(len(rocks)), old]
    if len(sp['blocks']) >= 2 and rng.random() < p:
        pb = list(range(len(sp['blocks']))); rng.shuffle(pb)
        ed['block_build_order'] = pb
        if sp['conns']:
            pc = list(range(len(sp['conns']))); rng.shuffle(pc)
            ed['conn_build_order'] = pc
    if ed: sp['grid_edits'] = ed
    return sp


def short(v):
    return None if v is None else float('%.3e' % v)


def shorten_dual(sp):
    """Sections stored twice (echoed, or mesh file + .pdat) at two precisions: the re-read
    object holds the wider copy, so the narrower copy of the second write is a rounding of
    a rounding.  Values of at most 4 digits are carried exactly by both copies."""
    def tpx(d):
        if d is not None: d['parameters'] = [short(v) for v in d['parameters']]
    for r in sp['rocks']:
        for k in ('density', 'porosity', 'conductivity', 'specific_heat'): r[k] = short(r[k])
        r['permeability'] = [short(v) for v in r['permeability']]
        r['extra'] = {k: short(v) for k, v in r['extra'].items()}
        tpx(r['relperm']); tpx(r['cap'])
    tpx(sp['relperm']); tpx(sp['cap'])
    for b in sp['blocks']:
        for k in ('volume', 'ahtx', 'pmx'): b[k] = short(b[k])
        if b['centre'] is not None: b['centre'] = [short(v) for v in b['centre']]
    for c in sp['conns']:
        for k in ('area', 'sigma'): c[k] = short(c[k])
        c['dircos'] = None if c['dircos'] is None else round(c['dircos'], 3)
        c['distance'] = [short(v) for v in c['distance']]
    for g in sp['generators']:
        for k in ('gx', 'ex', 'hg', 'fg'): g[k] = short(g[k])
        for k in ('time', 'rate', 'enthalpy'): g[k] = [short(v) for v in g[k]]


def shape(sp):
    """distribution record of a spec"""
    return {'flavour': 'AUTOUGH2' if sp['simulator'] else 'TOUGH2', 'mesh': sp['config']['mesh'],
            'xp': 'off' if not sp['config']['xp'] else ('echo' if sp['config']['echo'] else 'on'),
            'nsections': len(sp['order']), 'nblocks': len(sp['blocks']), 'ngens': len(sp['generators']),
            'standard_order': sp['order'] == [s for s in SECTIONS if s in sp['order']],
            'grid_edits': '+'.join(sorted(k.split('_')[0] for k in sp.get('grid_edits', {}))) or 'none'}


# ------------------------------------------------------------------ fixed witnesses of the recorded findings
def base_spec(auto=True):
    return {'title': 'witness', 'simulator': 'AUTOUGH2.2EW' if auto else '',
            'rocks': [{'name': 'rock1', 'nad': 0, 'density': 2600.0, 'porosity': 0.1, 'permeability': [1.e-15, 1.e-15, 1.e-15],
                       'conductivity': 1.5, 'specific_heat': 900.0, 'extra': {}, 'relperm': None, 'cap': None}],
            'blocks': [{'name': 'AB105', 'nseq': None, 'nadd': None, 'rock': 'rock1', 'volume': 1.5, 'ahtx': None, 'pmx': None, 'centre': None}],
            'conns': [], 'parameter': {'option': [0] * 24, 'tstart': 0.0, 'const_timestep': 0.0, 'timestep': [0.0], 'gravity': 9.81,
                                       'default_incons': []},
            'more_option': None, 'start': False, 'noversion': False, 'relperm': None, 'cap': None, 'lineq': {}, 'solver': {}, 'multi': {},
            'output_times': {}, 'selection': {}, 'diffusion': [], 'meshmaker': [], 'generators': [], 'short': None, 'history_objects': True,
            'history_block': [], 'history_connection': [], 'history_generator': [], 'incon': [], 'indom': [], 'end_keyword': 'ENDCY',
            'order': None, 'config': {'mesh': 'infile', 'xp': None, 'echo': None}}


def witness_specs():
    """(name, spec): minimal inputs of the recorded findings, run on every check"""
    out = []
    s = base_spec(); s['config'] = {'mesh': 'infile', 'xp': True, 'echo': True}
    out.append(('echo-lost', s))
    s = base_spec(auto=False); s['parameter']['print_block'] = 'AB105'
    out.append(('print-block-not-fixed', s))
    s = base_spec(); s['config'] = {'mesh': 'infile', 'xp': True, 'echo': True}; s['blocks'][0]['volume'] = 1.234549999999
    out.append(('echo-double-rounding', s))
    # not a finding: a fixed object whose grid was edited (rename + sort + reorder) before writing, in each mesh placement
    for mesh in ('binary', 'ascii', 'infile'):
        out.append(('edited-grid-' + mesh, edited_grid_spec(mesh)))
    return out


def edited_grid_spec(mesh):
    s = base_spec(auto=False)
    r0 = s['rocks'][0]
    s['rocks'] = [dict(r0, name=n, density=2000.0 + 100 * i, extra={}) for i, n in enumerate(['basmt', 'clay1', 'sand2'])]
    s['blocks'] = [{'name': 'abc%2d' % (i + 1), 'nseq': None, 'nadd': None, 'rock': s['rocks'][i % 3]['name'], 'volume': 100.0 * (i + 1),
                    'ahtx': 0.0, 'pmx': 1.0, 'centre': [10.0 * i, 5.0, -20.0 * i]} for i in range(7)]
    s['conns'] = [{'b1': s['blocks'][i]['name'], 'b2': s['blocks'][i + 1]['name'], 'nseq': None, 'nad1': None, 'nad2': None, 'direction': 1,
                   'distance': [5.0, 5.0], 'area': 10.0 + i, 'dircos': 0.0, 'sigma': 0.0} for i in range(6)]
    s['config'] = {'mesh': mesh, 'xp': None, 'echo': None}
    s['grid_edits'] = {'rock_build_order': [2, 0, 1], 'rename_rock': [0, 'zzold'], 'block_build_order': [3, 0, 6, 1, 5, 2, 4],
                       'conn_build_order': [5, 4, 3, 2, 1, 0]}
    return s


def fortran_spec(rng):
    """a spec restricted to the sections the independent Fortran-style writer emits"""
    from props.c01_fortran import FORTRAN_SECTIONS
    sp = gen_spec(rng, force={'mesh': 'infile', 'xp': None, 'echo': None})
    sp['more_option'] = None; sp['lineq'] = {}; sp['solver'] = {}; sp['selection'] = {}; sp['diffusion'] = []; sp['meshmaker'] = []
    sp['short'] = None; sp['history_block'] = []; sp['history_connection'] = []; sp['history_generator'] = []; sp['indom'] = []
    if sp['output_times']: sp['output_times'].pop('num_times', None) if rng.random() < 0.5 else None
    sp['order'] = [k for k in sp['order'] if k in FORTRAN_SECTIONS]
    sp['conne_plus'] = rng.random() < 0.3
    # a Fortran E field always shows its digits: no 3-digit exponents
    def clamp(x):
        if isinstance(x, float) and x != 0 and not (1e-90 < abs(x) < 1e90): return math.copysign(1.5, x)
        if isinstance(x, list): return [clamp(y) for y in x]
        if isinstance(x, dict): return {k: clamp(v) for k, v in x.items()}
        return x
    return clamp(sp)
