"""C02 oracle: the property statement evaluated on the implementation alone.

For every (table, record kind, field) and every lattice value: write the record through
fixed_format_file.write_values_to_string with neutral, exactly fitting neighbours, parse it
back with parse_string, and require
  * a loud failure (any exception), or
  * every OTHER field parses back to its own value (nothing displaced), and the field itself
    parses back to the value written: exactly (names, integers), to the printed digits (reals),
    nothing (absent); a real too wide for its columns may come back with fewer digits:
    it must then equal the value printed at some precision 0..p-1 of the same format."""
import os, math, tempfile, itertools


def load_tables():
    import t2data, t2incons, mulgrids, fixed_format_file as fff
    return [('t2data', t2data.t2data_format_specification, fff.default_read_function),
            ('t2data_extra_precision', t2data.t2data_extra_precision_format_specification, fff.default_read_function),
            ('t2incon', t2incons.t2incon_format_specification, fff.fortran_read_function),
            ('mulgrid', mulgrids.mulgrid_format_specification, fff.default_read_function)]


def make_file(spec, rf, tmpdir, name='scratch.txt'):
    import fixed_format_file as fff
    return fff.fixed_format_file(os.path.join(tmpdir, name), 'w', spec, rf)


def same_list(a, b):
    return len(a) == len(b) and all(same(x, y) for x, y in zip(a, b))


def parse_spec(s):
    fmt, typ = s[:-1], s[-1]
    w = int(fmt.partition('.')[0])
    p = fmt.partition('.')[2]
    return w, (int(p) if p else None), typ


def neutral(spec):
    w, p, typ = parse_spec(spec)
    aw = abs(w)
    if typ == 's': return ('abcdefghijklmnopqrstuvwxyz' * 4)[:aw]
    if typ == 'd': return int('1234567890'[:max(1, aw - 1)])
    if typ in 'ef': return 1.25
    return None


def real_lattice(rng, thorough):
    mants = ['1', '9.999999999999999', '1.5', '2.5', '9.5', '1.00005', '9.99995', '1.2345678901234567', '5', '0.125', '3.0000000000000004', '7.77']
    exps = [-120, -100, -99, -10, -5, -1, 0, 1, 5, 9, 10, 99, 100, 120]
    if thorough: exps = list(range(-120, 121))
    out = [0.0, -0.0]
    for m in mants:
        for e in exps:
            for sg in ('', '-'):
                out.append(float('%s%se%d' % (sg, m, e)))
    for _ in range(60 if not thorough else 2000):
        out.append(rng.choice([1, -1]) * rng.random() * 10.0 ** rng.randint(-120, 120))
    return out


def lattice(spec, reals, rng):
    w, p, typ = parse_spec(spec)
    aw = abs(w)
    vals = [None]
    if typ == 's':
        for n in range(0, aw + 2): vals.append(('ABCDEFGHIJKLMNOPQRSTUVWXYZ' * 4)[:n])
        if aw >= 2: vals += ['a b'[:aw], ' ' + 'x' * (aw - 1)]
        # names are arbitrary printable text: look-alikes of special values, numbers, format directives, blanks inside
        for t in TRICKY:
            for nm in (t, (t + 'xy z' * 30)[:aw], ('q' + t + 'nan inf None' * 10)[:aw]):
                if len(nm) <= aw and nm not in vals: vals.append(nm)
        for _ in range(3): vals.append(tricky_name(rng, aw))
    elif typ == 'd':
        for k in range(0, aw + 2):
            vals += [10 ** k - 1, 10 ** k, -(10 ** max(k - 1, 0)), -(10 ** k) + 1]
        vals += [0, 1, -1]
    elif typ in 'ef':
        vals += reals + [1, -7, 12345]
    return vals


TRICKY = ['nan', 'NaN', 'NAN', 'inf', '-inf', 'Infinity', 'None', 'null', 'True', 'e+', 'E-05', '1e5', '1.5', '-1', '0', '00', '+',
          '  ', 'a b', '%s', '%d', '%5.2f', '{}', '{0}', '\\n', '\\', '*', '#', "'", '"', ',', ';', ':', '$', '~', 'd0', 'D+3', '.']


def tricky_name(rng, aw, lead=None):
    """printable ASCII name of at most aw characters built from look-alike tokens and random characters"""
    out = lead or ''
    while len(out) < aw:
        out += rng.choice(TRICKY) if rng.random() < 0.7 else chr(rng.randint(32, 126))
    return out[:aw if rng.random() < 0.7 else rng.randint(0, aw)]


def fmt_text(spec, v):
    return ('%' + spec) % v


def expected_readback(spec, v, rf_name):
    """What the property says the field must parse back to; ('eq', x) | ('blank',) | ('any_of', [...])"""
    w, p, typ = parse_spec(spec)
    if v is None or typ == 'x': return ('none',)
    if typ == 's': return ('str', v)
    if typ == 'd': return ('eq', v)
    txt = fmt_text(spec, v)
    if len(txt) <= abs(w): return ('eq', float(txt))
    cands = []
    for q in range((p if p is not None else 6) - 1, -1, -1):
        t = ('%%%d.%d%s' % (w, q, typ)) % v
        if len(t) <= abs(w): cands.append(float(t))
    return ('any_of', cands)


def same(a, b):
    if isinstance(a, float) and isinstance(b, float):
        return a == b and math.copysign(1, a) == math.copysign(1, b) or (a != a and b != b)
    return a == b and type(a) == type(b)


def check_field(exp, got, spec):
    w, p, typ = parse_spec(spec)
    if exp[0] == 'none':
        if typ == 's': return isinstance(got, str) and got.strip() == ''
        return got is None
    if exp[0] == 'str':
        # exactly the name, possibly padded to the field width by the format's justification
        return isinstance(got, str) and got == fmt_text(spec, exp[1]) and len(got) == abs(w)
    if exp[0] == 'eq':
        if isinstance(exp[1], float): return isinstance(got, float) and same(got, exp[1])
        return got == exp[1] and isinstance(got, int)
    if exp[0] == 'any_of':
        return isinstance(got, float) and any(same(got, c) for c in exp[1])
    return False


def printed_digits_ok(text, v, got):
    """'to the printed digits', literally and without Python's % operator: the decimal printed in the
    field's own columns is within half a unit of its last printed digit of the value written (exact
    rationals), and the value parsed is that decimal (correctly rounded to a double)."""
    from decimal import Decimal
    from fractions import Fraction
    try: d = Decimal(text.strip())
    except Exception: return False
    if not d.is_finite(): return False
    unit = Fraction(10) ** d.as_tuple().exponent
    return abs(Fraction(d) - Fraction(v)) * 2 <= unit and isinstance(got, float) and got == float(d)


def classify(spec, v, what):
    w, p, typ = parse_spec(spec)
    if w < 0: return 'preprocess_specification:negative-width'
    if v is not None and typ != 'x':
        try: txt = fmt_text(spec, v)
        except Exception: txt = ''
        if len(txt) > abs(w):
            kind = {'s': 'name', 'd': 'integer', 'e': 'real', 'f': 'real'}.get(typ, typ)
            return 'write_values_to_string:%s-wider-than-field' % kind
    return 'fixed_format:%s' % what


def sweep(ctx, thorough=False, only=None):
    """only: optional set of (table, record) to restrict to.  Returns number of cases."""
    tmpdir = tempfile.mkdtemp(prefix='c02_')
    n = 0
    dist = {'raised': 0, 'fits': 0, 'too_wide': 0, 'none': 0, 'printed_digits_checked': 0, 'reparsed_after_caller_edit': 0, 'rewritten': 0}
    try:
        reals = real_lattice(ctx.rng, thorough)
        # all four file objects are alive side by side, created in a shuffled order, and the tables are
        # visited in another shuffled order: the clauses must not depend on other objects or earlier calls
        tabs = load_tables()
        created = list(tabs); ctx.rng.shuffle(created)
        files = {t[0]: make_file(t[1], t[2], tmpdir, 'scratch_%s.txt' % t[0]) for t in created}
        visit = list(tabs); ctx.rng.shuffle(visit)
        dist['creation_order'] = ','.join(t[0] for t in created); dist['visit_order'] = ','.join(t[0] for t in visit)
        for tname, table, rf in visit:
            f = files[tname]
            for rec, (names, specs) in table.items():
                if only is not None and (tname, rec) not in only: continue
                base = [neutral(s) for s in specs]
                # any spec with a negative width breaks the column arithmetic of the whole record
                negw = any(parse_spec(s)[0] < 0 for s in specs)
                for i, spec in enumerate(specs):
                    for v in lattice(spec, reals, ctx.rng):
                        vals = list(base); vals[i] = v
                        n += 1
                        ctx.count((tname, rec, i, repr(v)), nontrivial=v is not None)
                        case = {'table': tname, 'record': rec, 'field': i, 'spec': spec, 'value': repr(v), 'values': [repr(x) for x in vals]}
                        if n % 9973 == 0: ctx.sample(case)
                        given = list(vals)
                        try:
                            line = f.write_values_to_string(vals, rec)
                        except Exception as e:
                            dist['raised'] += 1
                            # loud failure is allowed only when the value cannot be represented
                            w, p, typ = parse_spec(spec)
                            fits = v is None or typ == 'x'
                            if not fits:
                                try: fits = len(fmt_text(spec, v)) <= abs(w)
                                except Exception: fits = False
                            if fits:
                                ctx.failure('field-lattice', classify(spec, v, 'raises-on-representable-value'), case, 'raised %s' % type(e).__name__, 'record written')
                            continue
                        if v is None: dist['none'] += 1
                        if not same_list(vals, given):
                            ctx.failure('field-lattice', 'write_values_to_string:mutates-caller-values', case, repr(vals), 'the value list left as given')
                            vals = given
                        try:
                            got = f.parse_string(line + '\n', rec)
                        except Exception as e:
                            ctx.failure('field-lattice', classify(spec, v, 'parse-raises'), case, 'parse raised %s' % type(e).__name__, 'values')
                            continue
                        if n % 3 == 0:
                            # sequences on one object: the caller edits the list it was given (as t2data.trim_trailing_nones,
                            # linevals.pop() ... do), then an identical line of the same type is parsed again; and the
                            # same values are written again
                            dist['reparsed_after_caller_edit'] += 1
                            snap = list(got)
                            try:
                                again = f.parse_string(line + '\n', rec)
                                del got[len(got) // 2:]
                                if got: got[0] = '#edited by the caller#'
                                del again[1:]
                                third = f.parse_string(line + '\n', rec)
                                if not same_list(third, snap):
                                    ctx.failure('field-lattice', 'parse_string:result-depends-on-earlier-call', dict(case, line=line, sequence='parse; parse; caller edits both results; parse'),
                                                repr(third), repr(snap))
                            except Exception as e:
                                ctx.failure('field-lattice', 'parse_string:result-depends-on-earlier-call', dict(case, line=line), 'raised %s' % type(e).__name__, repr(snap))
                            got = snap
                            if n % 15 == 0:
                                dist['rewritten'] += 1
                                try: line2 = f.write_values_to_string(list(given), rec)
                                except Exception as e: line2 = 'raised %s' % type(e).__name__
                                if line2 != line:
                                    ctx.failure('field-lattice', 'write_values_to_string:result-depends-on-earlier-call', dict(case, line=line), repr(line2), repr(line))
                        bad = None
                        for j, s2 in enumerate(specs):
                            exp = expected_readback(s2, vals[j], None)
                            if j == i and exp[0] == 'any_of': dist['too_wide'] += 1
                            elif j == i: dist['fits'] += 1
                            if not check_field(exp, got[j] if j < len(got) else '<missing>', s2):
                                bad = (j, exp, got[j] if j < len(got) else '<missing>')
                                break
                        if bad:
                            j, exp, g = bad
                            what = 'own-field-wrong' if j == i else 'neighbour-corrupted'
                            key = classify(spec if not negw else [s for s in specs if parse_spec(s)[0] < 0][0], v, what)
                            ctx.failure('field-lattice', key, dict(case, line=line, wrong_field=j), repr(g), repr(exp))
                        elif v is not None and not negw and parse_spec(spec)[2] in 'ef':
                            # value-level clause for reals, evaluated on the columns of the field itself
                            pos = sum(abs(parse_spec(s2)[0]) for s2 in specs[:i])
                            text = line[pos: pos + abs(parse_spec(spec)[0])]
                            dist['printed_digits_checked'] += 1
                            if not printed_digits_ok(text, v, got[i]):
                                ctx.failure('field-lattice', classify(spec, v, 'real-not-to-printed-digits'), dict(case, line=line, wrong_field=i),
                                            '%r read as %r' % (text, got[i]), 'within half a unit of the last printed digit of %r' % (v,))
        for f in files.values(): f.close()
    finally:
        import shutil
        shutil.rmtree(tmpdir, ignore_errors=True)
    ctx.oracle_cases('field-lattice', n, **dist)
    return n


# ---------------------------------------------------------------------------------------------
# file level: the same clauses through REAL files opened by the library's own parser classes
# (write_values / read_values), in fresh processes that create all four parsers in a given order
# ---------------------------------------------------------------------------------------------
FILE_WORKER = r'''
import sys, json, os, tempfile, shutil
job = json.load(sys.stdin)
import fixed_format_file as fff, t2data, t2incons, mulgrids
def opener(t):
    if t == 't2data': return lambda fn, mode: t2data.t2data_parser(fn, mode)
    if t == 't2data_extra_precision': return lambda fn, mode: t2data.t2_extra_precision_data_parser(fn, mode)
    if t == 't2incon': return lambda fn, mode: t2incons.t2incon_parser(fn, mode)
    if t == 'mulgrid': return lambda fn, mode: fff.fixed_format_file(fn, mode, mulgrids.mulgrid_format_specification)   # as mulgrid.read/write do
    raise KeyError(t)
# the line helper the readers of the library apply before parse_string (line = padstring(infile.readline())),
# under the name each module actually has bound
pads = [(m.__name__, m.padstring) for m in (mulgrids, t2incons, t2data) if callable(getattr(m, 'padstring', None))]   # the modules whose readers call it
def caller_edits(vals):
    # what callers do to the list they were given: t2data.trim_trailing_nones, linevals.pop(), vals[k] = ...
    while vals and vals[-1] is None: vals.pop()
    if vals: vals[0] = '#edited by the caller#'
    if len(vals) > 1: vals.pop()
tmp = tempfile.mkdtemp(prefix='c02f_')
out = []
try:
    # all parsers exist side by side in this process, created in the requested order
    held = []
    for k, t in enumerate(job['order']):
        held.append(opener(t)(os.path.join(tmp, 'held%d.dat' % k), 'w'))
    for n, f in enumerate(job['files']):
        fn = os.path.join(tmp, 'f%d.dat' % n)
        stage = 'open-w'
        try:
            p = opener(f['table'])(fn, 'w')
            if 'cases' in f:
                stage = 'write'
                for rec, vals in f['cases']:
                    given = list(vals)
                    p.write_values(vals, rec); p.write_values(vals, rec)     # every record twice: consecutive identical lines
                    if vals != given: raise AssertionError('write_values changed the caller\'s value list')
                stage = 'close-w'; p.close()
                stage = 'open-r'; p = opener(f['table'])(fn, 'r')
                stage = 'read'
                got, got2 = [], []
                for rec, vals in f['cases']:
                    g1 = p.read_values(rec); got.append(list(g1))
                    caller_edits(g1)
                    g2 = p.read_values(rec); got2.append(list(g2))
                    caller_edits(g2)
                rest = p.readline()
                p.close()
                stage = 'read-through-padstring'
                padded = {}
                p = opener(f['table'])(fn, 'r')
                raw = [(p.readline(), p.readline())[0] for rec, vals in f['cases']]
                for name, pad in pads:
                    padded[name] = [p.parse_string(pad(line), rec) for line, (rec, vals) in zip(raw, f['cases'])]
                p.close()
                out.append({'ok': True, 'got': got, 'got2': got2, 'rest': rest, 'padded': padded})
            else:
                stage = 'write_value_line'
                for rec, variable, prefill in f['vl']:
                    given = dict(variable)
                    p.write_value_line(variable, rec); p.write_value_line(variable, rec)
                    if variable != given: raise AssertionError('write_value_line changed the caller\'s dictionary')
                stage = 'close-w'; p.close()
                stage = 'open-r'; p = opener(f['table'])(fn, 'r')
                stage = 'read_value_line'
                fresh, used = [], []
                for rec, variable, prefill in f['vl']:
                    d1 = {}; p.read_value_line(d1, rec); fresh.append(d1)
                    d2 = dict(prefill); p.read_value_line(d2, rec); used.append(d2)
                rest = p.readline()
                p.close()
                out.append({'ok': True, 'fresh': fresh, 'used': used, 'rest': rest})
        except Exception as e:
            out.append({'ok': False, 'stage': stage, 'exc': type(e).__name__, 'msg': str(e)[:200]})
    for h in held: h.close()
finally:
    shutil.rmtree(tmp, ignore_errors=True)
json.dump(out, sys.stdout)
'''

PLAIN = ('neutral', 'mixed', 'tricky-names')       # ASCII kinds: one multi-record file per table
TABLE_ORDERS = [['t2data', 't2data_extra_precision', 't2incon', 'mulgrid'],
                ['mulgrid', 't2incon', 't2data_extra_precision', 't2data']]
LATIN1 = u'grèsüabcdefghijklmnopqrstuvwxyz' * 4          # 'grèsü...'
MULTIBYTE = u'a日€bcdefghijklmnopqrstuvwxyz' * 4           # 'a日€...' (3-byte characters in UTF-8)


def is_ascii(v):
    return not isinstance(v, str) or all(ord(c) < 128 for c in v)


def writable(spec, v):
    """the string-level writer accepts v in this field (possibly at reduced precision)"""
    if v is None: return True
    w, p, typ = parse_spec(spec)
    if typ == 'x': return True
    exp = expected_readback(spec, v, None)
    return not (exp[0] == 'any_of' and not exp[1]) and (typ in 'ef' or len(fmt_text(spec, v)) <= abs(w))


def file_cases(table, rng, thorough):
    """(record, values, kind) for one table: every record kind; ASCII cases hold only writable values"""
    e_vals = [-1.5, 1e-120, -9.9996e+99, 0.0, -0.0, 2.5e-7, 12345.678, 9.99996, -3.0000000000000004e-101, 1e100]
    f_vals = [-1.5, 0.0, 99.96, -0.0625, 1234.5, 0.5]
    out = []
    for rec, (names, specs) in table.items():
        base = [neutral(s) for s in specs]
        out.append((rec, list(base), 'neutral'))
        for rep in range(3 if thorough else 1):
            vals = list(base)
            for i, s in enumerate(specs):
                w, p, typ = parse_spec(s); aw = abs(w)
                if typ == 'e': v = rng.choice(e_vals)
                elif typ == 'f': v = rng.choice(f_vals)
                elif typ == 'd': v = rng.choice([10 ** aw - 1, 0] + ([-(10 ** (aw - 1) - 1)] if aw >= 2 else []))
                elif typ == 's': v = ('Zy xwvutsrqponmlkjihgfedcba' * 4)[:rng.randint(0, aw)]
                else: v = None
                if writable(s, v): vals[i] = v
            if len(vals) > 1 and rng.random() < 0.5: vals[rng.randrange(len(vals))] = None
            out.append((rec, vals, 'mixed'))
        sidx = [i for i, s in enumerate(specs) if parse_spec(s)[2] == 's']
        for rep, leads in enumerate((['nan', 'inf', 'None'], ['e+0', ' nan', '1e5'], ['banana', 'NaN', '%s'], [None])):
            # ASCII names drawn from the whole printable alphabet; every record kind gets lowercase 'nan', 'inf', ... in every name field
            if not sidx or (rep == 3 and not thorough): continue
            vals = list(base)
            for k, i in enumerate(sidx):
                aw = abs(parse_spec(specs[i])[0]); lead = leads[k % len(leads)]
                vals[i] = tricky_name(rng, aw, lead)[:aw] if lead is None or len(lead) <= aw else tricky_name(rng, aw)
                if lead and len(lead) <= aw and lead not in vals[i]: vals[i] = (lead + vals[i])[:aw]
            out.append((rec, vals, 'tricky-names'))
        if sidx:
            vals = list(base)
            for i in sidx: vals[i] = LATIN1[:abs(parse_spec(specs[i])[0])]
            out.append((rec, vals, 'latin1-names'))
            vals = list(base)
            i = sidx[0]; aw = abs(parse_spec(specs[i])[0])
            vals[i] = MULTIBYTE[1:1 + aw] if aw < 3 else MULTIBYTE[:aw]
            out.append((rec, vals, 'multibyte-name'))
    return out


def value_line_cases(table, rng, thorough):
    """(record, variable dict, prefill dict, kind): records read through read_value_line / written through
    write_value_line; 'zeros' gives every numeric name the value zero, 'mixed' boundary values with absent names"""
    out = []
    for rec, (names, specs) in table.items():
        uniq = []
        for nm in names:
            if nm != '' and nm not in uniq: uniq.append(nm)
        def choose(nm, kind):
            pos = [j for j, x in enumerate(names) if x == nm and parse_spec(specs[j])[2] != 'x']
            if not pos: return None, None
            typ = parse_spec(specs[pos[0]])[2]
            if any(parse_spec(specs[j])[2] != typ for j in pos): return None, None       # one name, several types: leave absent
            if typ == 'd': cands, pre = ([0] if kind == 'zeros' else [0, 1, 7, -1]), 777
            elif typ in 'ef': cands, pre = ([0.0] if kind == 'zeros' else [0.0, -0.0, 2.5, -1.5, 0.5]), 777.5
            else: cands, pre = (['nan', 'q'] if kind == 'zeros' else ['q', 'Z', 'nan', 'inf', 'None', 'e+', ' a']), 'zzz'
            cands = [v for v in cands if all(writable(specs[j], v) for j in pos)]
            if not cands: return None, pre
            return (cands[0] if kind == 'zeros' else rng.choice(cands)), pre
        for kind in ['zeros', 'mixed'] + (['mixed'] * 2 if thorough else []):
            variable, prefill = {}, {}
            for nm in uniq:
                v, pre = choose(nm, kind)
                if pre is not None: prefill[nm] = pre
                if v is not None and not (kind == 'mixed' and rng.random() < 0.25): variable[nm] = v
            if variable: out.append((rec, variable, prefill, kind))
    return out


def record_wrong(specs, vals, got):
    """index of the first field that does not read back its own value, or None"""
    for j, s2 in enumerate(specs):
        g = got[j] if j < len(got) else '<missing>'
        if not check_field(expected_readback(s2, vals[j], None), g, s2): return j
    return None


def eval_file(tables, f, res):
    """failures of one file job: list of (key, case dict, observed, required)"""
    table = tables[f['table']]
    if 'vl' in f: return eval_value_lines(table, f, res)
    ascii_only = all(is_ascii(v) for rec, vals in f['cases'] for v in vals)
    tag = 'ascii' if ascii_only else 'non-ascii-name'
    if not res.get('ok'):
        # loud failure: allowed by the property text for a name the file cannot represent; every value of an
        # ASCII file is representable (file_cases only keeps values the string-level writer accepts)
        if ascii_only:
            return [('file-level:raises-on-representable-value', {}, 'raised %s at %s: %s' % (res.get('exc'), res.get('stage'), res.get('msg')), 'records written and read back')]
        return []
    fails = []
    for k, (rec, vals) in enumerate(f['cases']):
        names, specs = table[rec]
        got = res['got'][k]
        j = record_wrong(specs, vals, got)
        if j is not None:
            own = isinstance(vals[j], str) and not is_ascii(vals[j])
            what = 'own-field-wrong' if own else ('field-wrong' if ascii_only else 'neighbour-corrupted')
            fails.append(('file-level:%s:%s' % (tag, what), {'record': rec, 'case': k, 'wrong_field': j, 'spec': specs[j]},
                          repr(got[j] if j < len(got) else '<missing>'), 'read-back of %r' % (vals[j],)))
            continue
        # the identical record that follows, read after the caller edited the first result
        got2 = res['got2'][k]
        j = record_wrong(specs, vals, got2)
        if j is not None:
            fails.append(('file-level:read_values:result-depends-on-earlier-call', {'record': rec, 'case': k, 'wrong_field': j, 'spec': specs[j]},
                          repr(got2), 'read-back of %r (second of two identical records; the caller edited the first result)' % (vals,)))
            continue
        # the same line passed through the library's line helper as bound in each module, then parsed
        for mod in sorted(res.get('padded', {})):
            gp = res['padded'][mod][k]
            j = record_wrong(specs, vals, gp)
            if j is not None:
                fails.append(('file-level:padstring-alters-record', {'record': rec, 'case': k, 'wrong_field': j, 'spec': specs[j], 'helper': mod + '.padstring'},
                              repr(gp[j] if j < len(gp) else '<missing>'), 'read-back of %r from parse_string(%s.padstring(line))' % (vals[j], mod)))
                break
    if res.get('rest') not in ('', None):
        fails.append(('file-level:%s:extra-text-in-file' % tag, {}, repr(res['rest'][:80]), 'end of file after the records'))
    return fails


def eval_value_lines(table, f, res):
    if not res.get('ok'):
        return [('file-level:value-line:raises-on-representable-value', {}, 'raised %s at %s: %s' % (res.get('exc'), res.get('stage'), res.get('msg')), 'value lines written and read back')]
    fails = []
    for k, (rec, variable, prefill) in enumerate(f['vl']):
        names, specs = table[rec]
        for which, d in (('fresh', res['fresh'][k]), ('used', res['used'][k])):
            bad = None
            for nm in dict.fromkeys(names):
                pos = [j for j, x in enumerate(names) if x == nm and parse_spec(specs[j])[2] != 'x']
                if nm == '' or not pos: continue
                v = variable.get(nm)
                if v is None:
                    # absent: nothing is stored (an 's' field delivers its blanks); a used dictionary keeps what it had
                    keep = prefill.get(nm) if which == 'used' else None
                    ok = (nm not in d and keep is None) or (nm in d and (same(d[nm], keep) if keep is not None else False)) \
                        or (nm in d and isinstance(d[nm], str) and d[nm].strip() == '' and any(parse_spec(specs[j])[2] == 's' for j in pos))
                    if not ok: bad = (nm, d.get(nm, '<not set>'), 'absent: %s' % ('left as %r' % (keep,) if keep is not None else 'not set'))
                else:
                    ok = nm in d and any(check_field(expected_readback(specs[j], v, None), d[nm], specs[j]) for j in pos)
                    if not ok: bad = (nm, d.get(nm, '<not set>'), 'read-back of %r' % (v,))
                if bad: break
            if bad:
                what = 'written-value-not-delivered' if variable.get(bad[0]) is not None else 'absent-value-delivered'
                fails.append(('file-level:read_value_line:%s' % what, {'record': rec, 'case': k, 'name': bad[0], 'dictionary': which},
                              repr(bad[1]), bad[2]))
                break
    if res.get('rest') not in ('', None):
        fails.append(('file-level:value-line:extra-text-in-file', {}, repr(res['rest'][:80]), 'end of file after the records'))
    return fails


def run_file_jobs(repo, order, files):
    import vf
    return vf.run_impl(FILE_WORKER, {'order': order, 'files': files}, timeout=900, repo=repo)


def file_sweep(ctx, thorough=False):
    """write_values -> real file -> read_values (and write_value_line -> read_value_line) through the library's parser classes"""
    tables = {t: tab for t, tab, rf in load_tables()}
    dist = {'files': 0, 'records': 0, 'non_ascii_records': 0, 'loud_non_ascii': 0, 'value_lines': 0, 'value_lines_with_zero': 0, 'processes': 0}
    n = 0
    for order in TABLE_ORDERS:
        files, meta = [], []
        for t in order:
            cases = file_cases(tables[t], ctx.rng, thorough)
            plain = [(rec, vals) for rec, vals, kind in cases if kind in PLAIN]
            files.append({'table': t, 'cases': plain}); meta.append('ascii-multi-record')
            for rec, vals, kind in cases:
                if kind in PLAIN: continue
                files.append({'table': t, 'cases': [(rec, vals)]}); meta.append(kind)
            vl = value_line_cases(tables[t], ctx.rng, thorough)
            files.append({'table': t, 'vl': [(rec, var, pre) for rec, var, pre, kind in vl]}); meta.append('value-lines')
        try:
            results = run_file_jobs(ctx.repo, order, files)
        except Exception as e:
            ctx.failure('file-roundtrip', 'file-level:worker-failed', {'order': order}, str(e)[-600:], 'parsers created and files processed')
            continue
        dist['processes'] += 1
        for f, kind, res in zip(files, meta, results):
            dist['files'] += 1
            for c in f.get('cases', []) + f.get('vl', []):
                n += 1
                if kind == 'value-lines':
                    dist['value_lines'] += 1
                    if any(not isinstance(v, str) and v == 0 for v in c[1].values()): dist['value_lines_with_zero'] += 1
                else:
                    dist['records'] += 1
                    if kind != 'ascii-multi-record': dist['non_ascii_records'] += 1
                ctx.count(('file', tuple(order), f['table'], c[0], kind, repr(c[1])), nontrivial=True)
            if kind not in ('ascii-multi-record', 'value-lines') and not res.get('ok'): dist['loud_non_ascii'] += 1
            if n % 97 == 0: ctx.sample({'file_table': f['table'], 'kind': kind, 'records': [c[0] for c in (f.get('cases') or f.get('vl'))][:5]})
            for key, where, obs, req in eval_file(tables, f, res):
                lst = 'vl' if 'vl' in f else 'cases'
                small = f if len(f[lst]) <= 3 else {'table': f['table'], lst: [f[lst][where['case']]] if 'case' in where else f[lst][:3]}
                ctx.failure('file-roundtrip', key, dict({kk: vv for kk, vv in where.items() if kk != 'case'}, case=0 if 'case' in where else None, file=small, order=order, kind=kind), obs, req)
    ctx.oracle_cases('file-roundtrip', n, **dist)
    return n


def file_replay(ctx, inp):
    tables = {t: tab for t, tab, rf in load_tables()}
    f = {'table': inp['file']['table']}
    if 'vl' in inp['file']: f['vl'] = [(c[0], c[1], c[2]) for c in inp['file']['vl']]
    else: f['cases'] = [(c[0], c[1]) for c in inp['file']['cases']]
    res = run_file_jobs(ctx.repo, inp.get('order') or TABLE_ORDERS[0], [f])[0]
    print('replay(file): %r -> %r' % (f, res))
    return bool(eval_file(tables, f, res))


# ---------------------------------------------------------------------------------------------
# TOUGH2 data files: the t2data reader's own use of the tables for the initial-conditions style records
# (INCON 'incon1'/'incon2', INDOM 'indom2', PARAM 'default_incons') with an absent value in ANY position:
# t2data.write(file) then t2data(file); trailing absent values may be dropped, nothing may move
# ---------------------------------------------------------------------------------------------
DATA_WORKER = r'''
import sys, json, os, tempfile, shutil
job = json.load(sys.stdin)
from t2data import t2data
from t2grids import rocktype, t2block
tmp = tempfile.mkdtemp(prefix='c02d_')
out = []
try:
    for n, c in enumerate(job['cases']):
        try:
            dat = t2data()
            dat.title = 'c02 file-level case %d' % n
            rocks = sorted(set(list(c['indom']) + ['rock1']))
            for r in rocks: dat.grid.add_rocktype(rocktype(r))
            for b in c['incon']: dat.grid.add_block(t2block(b, 1.0, dat.grid.rocktype['rock1']))
            for b, (por, vs) in c['incon'].items(): dat.incon[b] = [por, list(vs)]
            for r, vs in c['indom'].items(): dat.indom[r] = list(vs)
            dat.parameter['default_incons'] = list(c['default_incons'])
            fn = os.path.join(tmp, 'case%d%s' % (n, '.dat'))
            dat.write(fn)
            back = t2data(fn)
            out.append({'ok': True, 'incon': {b: [v[0], v[1]] for b, v in back.incon.items()},
                        'indom': dict(back.indom), 'default_incons': list(back.parameter['default_incons']),
                        'text': open(fn).read()[-1500:]})
        except Exception as e:
            import traceback
            out.append({'ok': False, 'exc': type(e).__name__, 'msg': str(e)[:300], 'tb': traceback.format_exc()[-600:]})
finally:
    shutil.rmtree(tmp, ignore_errors=True)
json.dump(out, sys.stdout)
'''


def data_cases(rng, thorough):
    reals = [2.5e5, 101325.0, 35.0, 0.5, 0.0, -1.5, 20.0, 1e-120, 9.9996e+99, 0.99]
    def variables(n=None):
        n = n or rng.randint(1, 4)
        while True:
            vs = [None if rng.random() < 0.4 else rng.choice(reals) for _ in range(n)]
            if any(v is not None for v in vs): return vs
    fixed = [[2.5e5, None, 35.0], [None, 0.5, None, 20.0], [1e5, None, None, 15.0], [None, 20.0], [1e5, 20.0], [3.0, None, 1.0, None]]
    out = []
    for k in range(60 if thorough else 16):
        c = {'incon': {}, 'indom': {}, 'default_incons': fixed[k % len(fixed)] if k < 6 else variables()}
        for b in range(rng.randint(1, 3)):
            c['incon']['%3s%2d' % ('abc'[b], k + 1)] = [rng.choice([None, 0.1, 0.25]), fixed[(k + b) % len(fixed)] if k < 6 else variables()]
        for r in range(rng.randint(0, 2)):
            c['indom']['rock%d' % (r + 1)] = fixed[(k + r + 3) % len(fixed)] if k < 6 else variables()
        out.append(c)
    # default initial conditions over several lines (more than four primary variables)
    for vs in ([1.0, None, 3.0, 4.0, 5.0, None, 7.0], [1.0, 2.0, 3.0, None, 5.0], [1e5, None, 20.0, None, None, 0.5]):
        out.append({'incon': {}, 'indom': {}, 'default_incons': vs})
    return out


def line_end_absent(vs):
    """an absent value at the end of a full, non-final line of four (what t2data.read_parameters trims line by line)"""
    vs = list(vs)
    while vs and vs[-1] is None: vs.pop()
    return any(vs[i + 3] is None for i in range(0, len(vs) - 4, 4))


def eval_data(table, c, res):
    if not res.get('ok'):
        return [('t2data-file:raises-on-representable-value', {}, 'raised %s: %s' % (res.get('exc'), res.get('msg')), 'file written and read back')]
    def trimmed(vs):
        vs = list(vs)
        while vs and vs[-1] is None: vs.pop()
        return vs
    def cmp(section, rec, name, written, got):
        specs = table[rec][1]
        want = trimmed(written)
        ok = isinstance(got, list) and len(got) == len(want) and all(check_field(expected_readback(specs[j % len(specs)], want[j], None), got[j], specs[j % len(specs)]) for j in range(len(want)))
        if ok: return None
        if section == 'default_incons' and line_end_absent(written):
            return ('t2data-file:default_incons:absent-value-at-line-end', {'section': section, 'name': name}, repr(got),
                    'read-back of %r, position by position' % (written,))
        interior = any(v is None for v in want)
        return ('t2data-file:%s:%s' % (section, 'absent-value-displaces-neighbour' if interior else 'value-wrong'), {'section': section, 'name': name},
                repr(got), 'read-back of %r, position by position (trailing absent values may be dropped)' % (written,))
    fails = []
    for b, (por, vs) in c['incon'].items():
        g = res['incon'].get(b)
        if g is None: fails.append(('t2data-file:incon:block-missing', {'section': 'incon', 'name': b}, repr(sorted(res['incon'])), 'block %r' % b)); continue
        f1 = cmp('incon', 'incon2', b, vs, g[1])
        if f1: fails.append(f1)
        pspec = table['incon1'][1][3]
        if not check_field(expected_readback(pspec, por, None), g[0], pspec):
            fails.append(('t2data-file:incon:porosity-wrong', {'section': 'incon', 'name': b}, repr(g[0]), 'read-back of %r' % (por,)))
    for r, vs in c['indom'].items():
        f1 = cmp('indom', 'indom2', r, vs, res['indom'].get(r))
        if f1: fails.append(f1)
    f1 = cmp('default_incons', 'default_incons', 'PARAM', c['default_incons'], res['default_incons'])
    if f1: fails.append(f1)
    return fails


def data_sweep(ctx, thorough=False):
    import vf
    table = {t: tab for t, tab, rf in load_tables()}['t2data']
    cases = data_cases(ctx.rng, thorough)
    dist = {'t2data_files': len(cases), 'records': 0, 'records_with_interior_absent': 0}
    try:
        results = vf.run_impl(DATA_WORKER, {'cases': cases}, timeout=900, repo=ctx.repo)
    except Exception as e:
        ctx.failure('t2data-file', 't2data-file:worker-failed', {}, str(e)[-600:], 't2data files written and read')
        results = []
    n = 0
    for c, res in zip(cases, results):
        for vs in [v[1] for v in c['incon'].values()] + list(c['indom'].values()) + [c['default_incons']]:
            n += 1; dist['records'] += 1
            t = list(vs)
            while t and t[-1] is None: t.pop()
            if any(v is None for v in t): dist['records_with_interior_absent'] += 1
        ctx.count(('t2data-file', json_key(c)), nontrivial=True)
        for key, where, obs, req in eval_data(table, c, res):
            ctx.failure('t2data-file', key, dict(where, data_case=c), obs, req)
    ctx.oracle_cases('t2data-file', n, **dist)
    return n


def json_key(c):
    import json
    return json.dumps(c, sort_keys=True)


def data_replay(ctx, inp):
    import vf
    table = {t: tab for t, tab, rf in load_tables()}['t2data']
    c = inp['data_case']
    res = vf.run_impl(DATA_WORKER, {'cases': [c]}, timeout=300, repo=ctx.repo)[0]
    print('replay(t2data file): %r -> %r' % (c, {k: v for k, v in res.items() if k != 'text'}))
    return bool(eval_data(table, c, res))
