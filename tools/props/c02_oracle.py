"""C02 oracle: the property statement evaluated on the implementation alone.

For every (table, record kind, field) and every lattice value: write the record through
fixed_format_file.write_values_to_string with neutral, exactly fitting neighbours, parse it
back with parse_string, and require
  * a loud failure (any exception), or
  * every OTHER field parses back to its own value (nothing displaced), and the field itself
    parses back to the value written: exactly (names, integers), to the printed digits (reals),
    nothing (absent); a real too wide for its columns may come back with fewer digits:
    it must then equal the value printed at some precision 0..p-1 of the same format."""
import os, math, tempfile, itertools


def load_tables():
    import t2data, t2incons, mulgrids, fixed_format_file as fff
    return [('t2data', t2data.t2data_format_specification, fff.default_read_function),
            ('t2data_extra_precision', t2data.t2data_extra_precision_format_specification, fff.default_read_function),
            ('t2incon', t2incons.t2incon_format_specification, fff.fortran_read_function),
            ('mulgrid', mulgrids.mulgrid_format_specification, fff.default_read_function)]


def make_file(spec, rf, tmpdir):
    import fixed_format_file as fff
    return fff.fixed_format_file(os.path.join(tmpdir, 'scratch.txt'), 'w', spec, rf)


def parse_spec(s):
    fmt, typ = s[:-1], s[-1]
    w = int(fmt.partition('.')[0])
    p = fmt.partition('.')[2]
    return w, (int(p) if p else None), typ


def neutral(spec):
    w, p, typ = parse_spec(spec)
    aw = abs(w)
    if typ == 's': return ('abcdefghijklmnopqrstuvwxyz' * 4)[:aw]
    if typ == 'd': return int('1234567890'[:max(1, aw - 1)])
    if typ in 'ef': return 1.25
    return None


def real_lattice(rng, thorough):
    mants = ['1', '9.999999999999999', '1.5', '2.5', '9.5', '1.00005', '9.99995', '1.2345678901234567', '5', '0.125', '3.0000000000000004', '7.77']
    exps = [-120, -100, -99, -10, -5, -1, 0, 1, 5, 9, 10, 99, 100, 120]
    if thorough: exps = list(range(-120, 121))
    out = [0.0, -0.0]
    for m in mants:
        for e in exps:
            for sg in ('', '-'):
                out.append(float('%s%se%d' % (sg, m, e)))
    for _ in range(60 if not thorough else 2000):
        out.append(rng.choice([1, -1]) * rng.random() * 10.0 ** rng.randint(-120, 120))
    return out


def lattice(spec, reals, rng):
    w, p, typ = parse_spec(spec)
    aw = abs(w)
    vals = [None]
    if typ == 's':
        for n in range(0, aw + 2): vals.append(('ABCDEFGHIJKLMNOPQRSTUVWXYZ' * 4)[:n])
        if aw >= 2: vals += ['a b'[:aw], ' ' + 'x' * (aw - 1)]
    elif typ == 'd':
        for k in range(0, aw + 2):
            vals += [10 ** k - 1, 10 ** k, -(10 ** max(k - 1, 0)), -(10 ** k) + 1]
        vals += [0, 1, -1]
    elif typ in 'ef':
        vals += reals + [1, -7, 12345]
    return vals


def fmt_text(spec, v):
    return ('%' + spec) % v


def expected_readback(spec, v, rf_name):
    """What the property says the field must parse back to; ('eq', x) | ('blank',) | ('any_of', [...])"""
    w, p, typ = parse_spec(spec)
    if v is None or typ == 'x': return ('none',)
    if typ == 's': return ('str', v)
    if typ == 'd': return ('eq', v)
    txt = fmt_text(spec, v)
    if len(txt) <= abs(w): return ('eq', float(txt))
    cands = []
    for q in range((p if p is not None else 6) - 1, -1, -1):
        t = ('%%%d.%d%s' % (w, q, typ)) % v
        if len(t) <= abs(w): cands.append(float(t))
    return ('any_of', cands)


def same(a, b):
    if isinstance(a, float) and isinstance(b, float):
        return a == b and math.copysign(1, a) == math.copysign(1, b) or (a != a and b != b)
    return a == b and type(a) == type(b)


def check_field(exp, got, spec):
    w, p, typ = parse_spec(spec)
    if exp[0] == 'none':
        if typ == 's': return isinstance(got, str) and got.strip() == ''
        return got is None
    if exp[0] == 'str':
        # exactly the name, possibly padded to the field width by the format's justification
        return isinstance(got, str) and got == fmt_text(spec, exp[1]) and len(got) == abs(w)
    if exp[0] == 'eq':
        if isinstance(exp[1], float): return isinstance(got, float) and same(got, exp[1])
        return got == exp[1] and isinstance(got, int)
    if exp[0] == 'any_of':
        return isinstance(got, float) and any(same(got, c) for c in exp[1])
    return False


def printed_digits_ok(text, v, got):
    """'to the printed digits', literally and without Python's % operator: the decimal printed in the
    field's own columns is within half a unit of its last printed digit of the value written (exact
    rationals), and the value parsed is that decimal (correctly rounded to a double)."""
    from decimal import Decimal
    from fractions import Fraction
    try: d = Decimal(text.strip())
    except Exception: return False
    if not d.is_finite(): return False
    unit = Fraction(10) ** d.as_tuple().exponent
    return abs(Fraction(d) - Fraction(v)) * 2 <= unit and isinstance(got, float) and got == float(d)


def classify(spec, v, what):
    w, p, typ = parse_spec(spec)
    if w < 0: return 'preprocess_specification:negative-width'
    if v is not None and typ != 'x':
        try: txt = fmt_text(spec, v)
        except Exception: txt = ''
        if len(txt) > abs(w):
            kind = {'s': 'name', 'd': 'integer', 'e': 'real', 'f': 'real'}.get(typ, typ)
            return 'write_values_to_string:%s-wider-than-field' % kind
    return 'fixed_format:%s' % what


def sweep(ctx, thorough=False, only=None):
    """only: optional set of (table, record) to restrict to.  Returns number of cases."""
    tmpdir = tempfile.mkdtemp(prefix='c02_')
    n = 0
    dist = {'raised': 0, 'fits': 0, 'too_wide': 0, 'none': 0, 'printed_digits_checked': 0}
    try:
        reals = real_lattice(ctx.rng, thorough)
        for tname, table, rf in load_tables():
            f = make_file(table, rf, tmpdir)
            for rec, (names, specs) in table.items():
                if only is not None and (tname, rec) not in only: continue
                base = [neutral(s) for s in specs]
                # any spec with a negative width breaks the column arithmetic of the whole record
                negw = any(parse_spec(s)[0] < 0 for s in specs)
                for i, spec in enumerate(specs):
                    for v in lattice(spec, reals, ctx.rng):
                        vals = list(base); vals[i] = v
                        n += 1
                        ctx.count((tname, rec, i, repr(v)), nontrivial=v is not None)
                        case = {'table': tname, 'record': rec, 'field': i, 'spec': spec, 'value': repr(v), 'values': [repr(x) for x in vals]}
                        if n % 9973 == 0: ctx.sample(case)
                        try:
                            line = f.write_values_to_string(vals, rec)
                        except Exception as e:
                            dist['raised'] += 1
                            # loud failure is allowed only when the value cannot be represented
                            w, p, typ = parse_spec(spec)
                            fits = v is None or typ == 'x'
                            if not fits:
                                try: fits = len(fmt_text(spec, v)) <= abs(w)
                                except Exception: fits = False
                            if fits:
                                ctx.failure('field-lattice', classify(spec, v, 'raises-on-representable-value'), case, 'raised %s' % type(e).__name__, 'record written')
                            continue
                        if v is None: dist['none'] += 1
                        try:
                            got = f.parse_string(line + '\n', rec)
                        except Exception as e:
                            ctx.failure('field-lattice', classify(spec, v, 'parse-raises'), case, 'parse raised %s' % type(e).__name__, 'values')
                            continue
                        bad = None
                        for j, s2 in enumerate(specs):
                            exp = expected_readback(s2, vals[j], None)
                            if j == i and exp[0] == 'any_of': dist['too_wide'] += 1
                            elif j == i: dist['fits'] += 1
                            if not check_field(exp, got[j] if j < len(got) else '<missing>', s2):
                                bad = (j, exp, got[j] if j < len(got) else '<missing>')
                                break
                        if bad:
                            j, exp, g = bad
                            what = 'own-field-wrong' if j == i else 'neighbour-corrupted'
                            key = classify(spec if not negw else [s for s in specs if parse_spec(s)[0] < 0][0], v, what)
                            ctx.failure('field-lattice', key, dict(case, line=line, wrong_field=j), repr(g), repr(exp))
                        elif v is not None and not negw and parse_spec(spec)[2] in 'ef':
                            # value-level clause for reals, evaluated on the columns of the field itself
                            pos = sum(abs(parse_spec(s2)[0]) for s2 in specs[:i])
                            text = line[pos: pos + abs(parse_spec(spec)[0])]
                            dist['printed_digits_checked'] += 1
                            if not printed_digits_ok(text, v, got[i]):
                                ctx.failure('field-lattice', classify(spec, v, 'real-not-to-printed-digits'), dict(case, line=line, wrong_field=i),
                                            '%r read as %r' % (text, got[i]), 'within half a unit of the last printed digit of %r' % (v,))
            f.close()
    finally:
        import shutil
        shutil.rmtree(tmpdir, ignore_errors=True)
    ctx.oracle_cases('field-lattice', n, **dist)
    return n


# ---------------------------------------------------------------------------------------------
# file level: the same clauses through REAL files opened by the library's own parser classes
# (write_values / read_values), in fresh processes that create all four parsers in a given order
# ---------------------------------------------------------------------------------------------
FILE_WORKER = r'''
import sys, json, os, tempfile, shutil
job = json.load(sys.stdin)
import fixed_format_file as fff, t2data, t2incons, mulgrids
def opener(t):
    if t == 't2data': return lambda fn, mode: t2data.t2data_parser(fn, mode)
    if t == 't2data_extra_precision': return lambda fn, mode: t2data.t2_extra_precision_data_parser(fn, mode)
    if t == 't2incon': return lambda fn, mode: t2incons.t2incon_parser(fn, mode)
    if t == 'mulgrid': return lambda fn, mode: fff.fixed_format_file(fn, mode, mulgrids.mulgrid_format_specification)   # as mulgrid.read/write do
    raise KeyError(t)
tmp = tempfile.mkdtemp(prefix='c02f_')
out = []
try:
    # all parsers exist side by side in this process, created in the requested order
    held = []
    for k, t in enumerate(job['order']):
        held.append(opener(t)(os.path.join(tmp, 'held%d.dat' % k), 'w'))
    for n, f in enumerate(job['files']):
        fn = os.path.join(tmp, 'f%d.dat' % n)
        stage = 'open-w'
        try:
            p = opener(f['table'])(fn, 'w')
            stage = 'write'
            for rec, vals in f['cases']: p.write_values(vals, rec)
            stage = 'close-w'; p.close()
            stage = 'open-r'; p = opener(f['table'])(fn, 'r')
            stage = 'read'
            got = [p.read_values(rec) for rec, vals in f['cases']]
            rest = p.readline()
            p.close()
            out.append({'ok': True, 'got': got, 'rest': rest})
        except Exception as e:
            out.append({'ok': False, 'stage': stage, 'exc': type(e).__name__, 'msg': str(e)[:200]})
    for h in held: h.close()
finally:
    shutil.rmtree(tmp, ignore_errors=True)
json.dump(out, sys.stdout)
'''

TABLE_ORDERS = [['t2data', 't2data_extra_precision', 't2incon', 'mulgrid'],
                ['mulgrid', 't2incon', 't2data_extra_precision', 't2data']]
LATIN1 = u'grèsüabcdefghijklmnopqrstuvwxyz' * 4          # 'grèsü...'
MULTIBYTE = u'a日€bcdefghijklmnopqrstuvwxyz' * 4           # 'a日€...' (3-byte characters in UTF-8)


def is_ascii(v):
    return not isinstance(v, str) or all(ord(c) < 128 for c in v)


def writable(spec, v):
    """the string-level writer accepts v in this field (possibly at reduced precision)"""
    if v is None: return True
    w, p, typ = parse_spec(spec)
    if typ == 'x': return True
    exp = expected_readback(spec, v, None)
    return not (exp[0] == 'any_of' and not exp[1]) and (typ in 'ef' or len(fmt_text(spec, v)) <= abs(w))


def file_cases(table, rng, thorough):
    """(record, values, kind) for one table: every record kind; ASCII cases hold only writable values"""
    e_vals = [-1.5, 1e-120, -9.9996e+99, 0.0, -0.0, 2.5e-7, 12345.678, 9.99996, -3.0000000000000004e-101, 1e100]
    f_vals = [-1.5, 0.0, 99.96, -0.0625, 1234.5, 0.5]
    out = []
    for rec, (names, specs) in table.items():
        base = [neutral(s) for s in specs]
        out.append((rec, list(base), 'neutral'))
        for rep in range(3 if thorough else 1):
            vals = list(base)
            for i, s in enumerate(specs):
                w, p, typ = parse_spec(s); aw = abs(w)
                if typ == 'e': v = rng.choice(e_vals)
                elif typ == 'f': v = rng.choice(f_vals)
                elif typ == 'd': v = rng.choice([10 ** aw - 1, 0] + ([-(10 ** (aw - 1) - 1)] if aw >= 2 else []))
                elif typ == 's': v = ('Zy xwvutsrqponmlkjihgfedcba' * 4)[:rng.randint(0, aw)]
                else: v = None
                if writable(s, v): vals[i] = v
            if len(vals) > 1 and rng.random() < 0.5: vals[rng.randrange(len(vals))] = None
            out.append((rec, vals, 'mixed'))
        sidx = [i for i, s in enumerate(specs) if parse_spec(s)[2] == 's']
        if sidx:
            vals = list(base)
            for i in sidx: vals[i] = LATIN1[:abs(parse_spec(specs[i])[0])]
            out.append((rec, vals, 'latin1-names'))
            vals = list(base)
            i = sidx[0]; aw = abs(parse_spec(specs[i])[0])
            vals[i] = MULTIBYTE[1:1 + aw] if aw < 3 else MULTIBYTE[:aw]
            out.append((rec, vals, 'multibyte-name'))
    return out


def eval_file(tables, f, res):
    """failures of one file job: list of (key, case dict, observed, required)"""
    table = tables[f['table']]
    ascii_only = all(is_ascii(v) for rec, vals in f['cases'] for v in vals)
    tag = 'ascii' if ascii_only else 'non-ascii-name'
    if not res.get('ok'):
        # loud failure: allowed by the property text for a name the file cannot represent; every value of an
        # ASCII file is representable (file_cases only keeps values the string-level writer accepts)
        if ascii_only:
            return [('file-level:raises-on-representable-value', {}, 'raised %s at %s: %s' % (res.get('exc'), res.get('stage'), res.get('msg')), 'records written and read back')]
        return []
    fails = []
    for k, (rec, vals) in enumerate(f['cases']):
        names, specs = table[rec]
        got = res['got'][k]
        for j, s2 in enumerate(specs):
            g = got[j] if j < len(got) else '<missing>'
            if not check_field(expected_readback(s2, vals[j], None), g, s2):
                own = isinstance(vals[j], str) and not is_ascii(vals[j])
                what = 'own-field-wrong' if own else ('field-wrong' if ascii_only else 'neighbour-corrupted')
                fails.append(('file-level:%s:%s' % (tag, what), {'record': rec, 'case': k, 'wrong_field': j, 'spec': s2},
                              repr(g), 'read-back of %r' % (vals[j],)))
                break
    if res.get('rest') not in ('', None):
        fails.append(('file-level:%s:extra-text-in-file' % tag, {}, repr(res['rest'][:80]), 'end of file after the records'))
    return fails


def run_file_jobs(repo, order, files):
    import vf
    return vf.run_impl(FILE_WORKER, {'order': order, 'files': files}, timeout=900, repo=repo)


def file_sweep(ctx, thorough=False):
    """write_values -> real file -> read_values through the library's parser classes"""
    tables = {t: tab for t, tab, rf in load_tables()}
    dist = {'files': 0, 'records': 0, 'non_ascii_records': 0, 'loud_non_ascii': 0, 'processes': 0}
    n = 0
    for order in TABLE_ORDERS:
        files, meta = [], []
        for t in order:
            cases = file_cases(tables[t], ctx.rng, thorough)
            plain = [(rec, vals) for rec, vals, kind in cases if kind in ('neutral', 'mixed')]
            files.append({'table': t, 'cases': plain}); meta.append('ascii-multi-record')
            for rec, vals, kind in cases:
                if kind in ('neutral', 'mixed'): continue
                files.append({'table': t, 'cases': [(rec, vals)]}); meta.append(kind)
        try:
            results = run_file_jobs(ctx.repo, order, files)
        except Exception as e:
            ctx.failure('file-roundtrip', 'file-level:worker-failed', {'order': order}, str(e)[-600:], 'parsers created and files processed')
            continue
        dist['processes'] += 1
        for f, kind, res in zip(files, meta, results):
            dist['files'] += 1
            for rec, vals in f['cases']:
                n += 1; dist['records'] += 1
                if kind != 'ascii-multi-record': dist['non_ascii_records'] += 1
                ctx.count(('file', tuple(order), f['table'], rec, kind, repr(vals)), nontrivial=True)
            if kind != 'ascii-multi-record' and not res.get('ok'): dist['loud_non_ascii'] += 1
            if n % 97 == 0: ctx.sample({'file_table': f['table'], 'kind': kind, 'records': [c[0] for c in f['cases']][:5]})
            for key, where, obs, req in eval_file(tables, f, res):
                small = f if len(f['cases']) <= 3 else {'table': f['table'], 'cases': [f['cases'][where['case']]] if 'case' in where else f['cases'][:3]}
                ctx.failure('file-roundtrip', key, dict(where, file=small, order=order, kind=kind), obs, req)
    ctx.oracle_cases('file-roundtrip', n, **dist)
    return n


def file_replay(ctx, inp):
    tables = {t: tab for t, tab, rf in load_tables()}
    f = {'table': inp['file']['table'], 'cases': [(c[0], c[1]) for c in inp['file']['cases']]}
    res = run_file_jobs(ctx.repo, inp.get('order') or TABLE_ORDERS[0], [f])[0]
    print('replay(file): %r -> %r' % (f, res))
    return bool(eval_file(tables, f, res))
