"""C02 oracle: the property statement evaluated on the implementation alone.

For every (table, record kind, field) and every lattice value: write the record through
fixed_format_file.write_values_to_string with neutral, exactly fitting neighbours, parse it
back with parse_string, and require
  * a loud failure (any exception), or
  * every OTHER field parses back to its own value (nothing displaced), and the field itself
    parses back to the value written: exactly (names, integers), to the printed digits (reals),
    nothing (absent); a real too wide for its columns may come back with fewer digits:
    it must then equal the value printed at some precision 0..p-1 of the same format."""
import os, math, tempfile, itertools


def load_tables():
    import t2data, t2incons, mulgrids, fixed_format_file as fff
    return [('t2data', t2data.t2data_format_specification, fff.default_read_function),
            ('t2data_extra_precision', t2data.t2data_extra_precision_format_specification, fff.default_read_function),
            ('t2incon', t2incons.t2incon_format_specification, fff.fortran_read_function),
            ('mulgrid', mulgrids.mulgrid_format_specification, fff.default_read_function)]


def make_file(spec, rf, tmpdir):
    import fixed_format_file as fff
    return fff.fixed_format_file(os.path.join(tmpdir, 'scratch.txt'), 'w', spec, rf)


def parse_spec(s):
    fmt, typ = s[:-1], s[-1]
    w = int(fmt.partition('.')[0])
    p = fmt.partition('.')[2]
    return w, (int(p) if p else None), typ


def neutral(spec):
    w, p, typ = parse_spec(spec)
    aw = abs(w)
    if typ == 's': return ('abcdefghijklmnopqrstuvwxyz' * 4)[:aw]
    if typ == 'd': return int('1234567890'[:max(1, aw - 1)])
    if typ in 'ef': return 1.25
    return None


def real_lattice(rng, thorough):
    mants = ['1', '9.999999999999999', '1.5', '2.5', '9.5', '1.00005', '9.99995', '1.2345678901234567', '5', '0.125', '3.0000000000000004', '7.77']
    exps = [-120, -100, -99, -10, -5, -1, 0, 1, 5, 9, 10, 99, 100, 120]
    if thorough: exps = list(range(-120, 121))
    out = [0.0, -0.0]
    for m in mants:
        for e in exps:
            for sg in ('', '-'):
                out.append(float('%s%se%d' % (sg, m, e)))
    for _ in range(60 if not thorough else 2000):
        out.append(rng.choice([1, -1]) * rng.random() * 10.0 ** rng.randint(-120, 120))
    return out


def lattice(spec, reals, rng):
    w, p, typ = parse_spec(spec)
    aw = abs(w)
    vals = [None]
    if typ == 's':
        for n in range(0, aw + 2): vals.append(('ABCDEFGHIJKLMNOPQRSTUVWXYZ' * 4)[:n])
        if aw >= 2: vals += ['a b'[:aw], ' ' + 'x' * (aw - 1)]
    elif typ == 'd':
        for k in range(0, aw + 2):
            vals += [10 ** k - 1, 10 ** k, -(10 ** max(k - 1, 0)), -(10 ** k) + 1]
        vals += [0, 1, -1]
    elif typ in 'ef':
        vals += reals + [1, -7, 12345]
    return vals


def fmt_text(spec, v):
    return ('%' + spec) % v


def expected_readback(spec, v, rf_name):
    """What the property says the field must parse back to; ('eq', x) | ('blank',) | ('any_of', [...])"""
    w, p, typ = parse_spec(spec)
    if v is None or typ == 'x': return ('none',)
    if typ == 's': return ('str', v)
    if typ == 'd': return ('eq', v)
    txt = fmt_text(spec, v)
    if len(txt) <= abs(w): return ('eq', float(txt))
    cands = []
    for q in range((p if p is not None else 6) - 1, -1, -1):
        t = ('%%%d.%d%s' % (w, q, typ)) % v
        if len(t) <= abs(w): cands.append(float(t))
    return ('any_of', cands)


def same(a, b):
    if isinstance(a, float) and isinstance(b, float):
        return a == b and math.copysign(1, a) == math.copysign(1, b) or (a != a and b != b)
    return a == b and type(a) == type(b)


def check_field(exp, got, spec):
    w, p, typ = parse_spec(spec)
    if exp[0] == 'none':
        if typ == 's': return isinstance(got, str) and got.strip() == ''
        return got is None
    if exp[0] == 'str':
        # exactly the name, possibly padded to the field width by the format's justification
        return isinstance(got, str) and got == fmt_text(spec, exp[1]) and len(got) == abs(w)
    if exp[0] == 'eq':
        if isinstance(exp[1], float): return isinstance(got, float) and same(got, exp[1])
        return got == exp[1] and isinstance(got, int)
    if exp[0] == 'any_of':
        return isinstance(got, float) and any(same(got, c) for c in exp[1])
    return False


def printed_digits_ok(text, v, got):
    """'to the printed digits', literally and without Python's % operator: the decimal printed in the
    field's own columns is within half a unit of its last printed digit of the value written (exact
    rationals), and the value parsed is that decimal (correctly rounded to a double)."""
    from decimal import Decimal
    from fractions import Fraction
    try: d = Decimal(text.strip())
    except Exception: return False
    if not d.is_finite(): return False
    unit = Fraction(10) ** d.as_tuple().exponent
    return abs(Fraction(d) - Fraction(v)) * 2 <= unit and isinstance(got, float) and got == float(d)


def classify(spec, v, what):
    w, p, typ = parse_spec(spec)
    if w < 0: return 'preprocess_specification:negative-width'
    if v is not None and typ != 'x':
        try: txt = fmt_text(spec, v)
        except Exception: txt = ''
        if len(txt) > abs(w):
            kind = {'s': 'name', 'd': 'integer', 'e': 'real', 'f': 'real'}.get(typ, typ)
            return 'write_values_to_string:%s-wider-than-field' % kind
    return 'fixed_format:%s' % what


def sweep(ctx, thorough=False, only=None):
    """only: optional set of (table, record) to restrict to.  Returns number of cases."""
    tmpdir = tempfile.mkdtemp(prefix='c02_')
    n = 0
    dist = {'raised': 0, 'fits': 0, 'too_wide': 0, 'none': 0, 'printed_digits_checked': 0}
    try:
        reals = real_lattice(ctx.rng, thorough)
        for tname, table, rf in load_tables():
            f = make_file(table, rf, tmpdir)
            for rec, (names, specs) in table.items():
                if only is not None and (tname, rec) not in only: continue
                base = [neutral(s) for s in specs]
                # any spec with a negative width breaks the column arithmetic of the whole record
                negw = any(parse_spec(s)[0] < 0 for s in specs)
                for i, spec in enumerate(specs):
                    for v in lattice(spec, reals, ctx.rng):
                        vals = list(base); vals[i] = v
                        n += 1
                        ctx.count((tname, rec, i, repr(v)), nontrivial=v is not None)
                        case = {'table': tname, 'record': rec, 'field': i, 'spec': spec, 'value': repr(v), 'values': [repr(x) for x in vals]}
                        if n % 9973 == 0: ctx.sample(case)
                        try:
                            line = f.write_values_to_string(vals, rec)
                        except Exception as e:
                            dist['raised'] += 1
                            # loud failure is allowed only when the value cannot be represented
                            w, p, typ = parse_spec(spec)
                            fits = v is None or typ == 'x'
                            if not fits:
                                try: fits = len(fmt_text(spec, v)) <= abs(w)
                                except Exception: fits = False
                            if fits:
                                ctx.failure('field-lattice', classify(spec, v, 'raises-on-representable-value'), case, 'raised %s' % type(e).__name__, 'record written')
                            continue
                        if v is None: dist['none'] += 1
                        try:
                            got = f.parse_string(line + '\n', rec)
                        except Exception as e:
                            ctx.failure('field-lattice', classify(spec, v, 'parse-raises'), case, 'parse raised %s' % type(e).__name__, 'values')
                            continue
                        bad = None
                        for j, s2 in enumerate(specs):
                            exp = expected_readback(s2, vals[j], None)
                            if j == i and exp[0] == 'any_of': dist['too_wide'] += 1
                            elif j == i: dist['fits'] += 1
                            if not check_field(exp, got[j] if j < len(got) else '<missing>', s2):
                                bad = (j, exp, got[j] if j < len(got) else '<missing>')
                                break
                        if bad:
                            j, exp, g = bad
                            what = 'own-field-wrong' if j == i else 'neighbour-corrupted'
                            key = classify(spec if not negw else [s for s in specs if parse_spec(s)[0] < 0][0], v, what)
                            ctx.failure('field-lattice', key, dict(case, line=line, wrong_field=j), repr(g), repr(exp))
                        elif v is not None and not negw and parse_spec(spec)[2] in 'ef':
                            # value-level clause for reals, evaluated on the columns of the field itself
                            pos = sum(abs(parse_spec(s2)[0]) for s2 in specs[:i])
                            text = line[pos: pos + abs(parse_spec(spec)[0])]
                            dist['printed_digits_checked'] += 1
                            if not printed_digits_ok(text, v, got[i]):
                                ctx.failure('field-lattice', classify(spec, v, 'real-not-to-printed-digits'), dict(case, line=line, wrong_field=i),
                                            '%r read as %r' % (text, got[i]), 'within half a unit of the last printed digit of %r' % (v,))
            f.close()
    finally:
        import shutil
        shutil.rmtree(tmpdir, ignore_errors=True)
    ctx.oracle_cases('field-lattice', n, **dist)
    return n
