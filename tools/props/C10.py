"""C10 -- geometry (mulgrid) stays internally consistent under any sequence of edits.

tie: H (hand-written executable Gallina model coq/C10/GeoEdit*.v of the mulgrid edit state machine).
  * correspondence: op-sequence differential testing of the extracted model against the REAL mulgrid through
    its public methods; the canonical dump of the whole geometry (nodes with their column sets, columns with
    node lists / neighbour sets / connection sets / num_layers / surface, connections with their columns and
    nodes, the five lookup dictionaries, layers, wells, block_name_list, block_connection_name_list) is
    compared after EVERY step (exhaustive short sequences from small start geometries + random long sequences
    on rectangular and shipped geometries).
  * oracle: the property statement (c10_lib.inv_classes, written against the public attributes) is evaluated on
    the real object after every step, independently of the model, clause by clause; operations that promise a
    valid mesh are also checked for missing / extra connections and orphan nodes.
"""
import os, sys, json, math, itertools, random, zlib, time, traceback, tempfile, shutil
from collections import Counter
import vf
from props import c10_lib as L

HERE = os.path.dirname(os.path.abspath(__file__))


def M():
    import mulgrids
    return mulgrids


# ----------------------------------------------------------------------------------------------
# which of the proposed repairs the source under test carries (decided by behaviour on a 2x1 mesh; the
# model follows: coq/C10/GeoState.v `fixes`).  Bits: 1 rename_column re-keys connections, 2 split_column
# repaired, 4 add_/delete_connection maintain the neighbour sets.
def probe_fixbits():
    m = M()
    bits = 0
    g = m.mulgrid().rectangular([10., 20.], [10.], [5.])
    a, b = g.columnlist[0].name, g.columnlist[1].name
    g.rename_column(a, ' zz')
    if (' zz', b) in g.connection and (a, b) not in g.connection: bits |= 1
    g = m.mulgrid().rectangular([10., 20.], [10.], [5.])
    c = g.columnlist[0]
    other = g.columnlist[1]
    shared = [n for n in c.node if n in other.node]
    k = c.node.index(shared[0])
    g.split_column(c.name, c.node[(k + 1) % 4].name if c.node[(k + 1) % 4] not in shared else c.node[(k + 2) % 4].name)
    new = g.columnlist[-1]
    if new in c.neighbour and c in new.neighbour and all(tuple(x.name for x in con.column) == key for key, con in g.connection.items()) \
            and all(set(n.column) == set(cc for cc in g.columnlist if n in cc.node) for n in g.nodelist): bits |= 2
    g = m.mulgrid().rectangular([10., 20.], [10.], [5.])
    g.delete_connection((a, b))
    c0, c1 = g.column[a], g.column[b]
    dropped = c1 not in c0.neighbour and c0 not in c1.neighbour
    g.add_connection(m.connection([c0, c1]))
    if dropped and c1 in c0.neighbour and c0 in c1.neighbour: bits |= 4
    # proposed_fixes/C10-check-fix-name-index.diff: check(fix=True) sets up the connection name index again
    g = m.mulgrid().rectangular([10., 20.], [10.], [5.])
    g.delete_connection((a, b)); g.setup_block_connection_name_index()
    g.check(fix=True, silent=True)
    try:
        if L.fresh_names(g)[2] == g.block_connection_name_list: bits |= 8
    except Exception: pass
    return bits


# ----------------------------------------------------------------------------------------------
# start geometries
def mixed_geometry(convention=0, atmos_type=2):
    """a quadrilateral, two triangles, a pentagon and a quadrilateral on ten nodes, three layers"""
    m = M()
    g = m.mulgrid(convention=convention, atmos_type=atmos_type)
    pts = [(0, 0), (10, 0), (20, 0), (0, 10), (10, 10), (20, 10), (0, 20), (10, 20), (20, 20), (4, 26)]
    for i, (x, y) in enumerate(pts):
        g.add_node(m.node(g.node_name_from_number(i + 1), [float(x), float(y)]))
    nn = [n.name for n in g.nodelist]
    cols = [(0, 1, 4, 3), (1, 2, 4), (2, 5, 4), (3, 4, 7, 9, 6), (4, 5, 8, 7)]
    for i, c in enumerate(cols):
        g.add_column(m.column(g.column_name_from_number(i + 1), [g.node[nn[j]] for j in c]))
    cn = [c.name for c in g.columnlist]
    for a, b in [(0, 1), (1, 2), (0, 3), (2, 4), (3, 4)]:
        g.add_connection(m.connection([g.column[cn[a]], g.column[cn[b]]]))
    g.identify_neighbours()
    g.add_layers([5., 5., 10.])
    g.set_default_surface()
    g.column[cn[1]].surface = -3.0
    g.set_column_num_layers(g.column[cn[1]])
    g.column[cn[3]].surface = -5.0
    g.set_column_num_layers(g.column[cn[3]])
    g.setup_block_name_index(); g.setup_block_connection_name_index()
    return g


def few_layers(g, nkeep):
    """drop all but the first `nkeep` layers (start-state construction only; keeps the dumps small)"""
    for l in list(g.layerlist[nkeep:]): g.delete_layer(l.name)
    for c in g.columnlist: g.set_column_num_layers(c)
    g.setup_block_name_index(); g.setup_block_connection_name_index()
    return g


def start_geometry(init):
    m = M()
    k = init['kind']
    if k == 'rect':
        nx, ny, nz, cv, at = init['params']
        xs = [10. + 5 * (i % 3) for i in range(nx)]
        ys = [10. + 10 * (j % 2) for j in range(ny)]
        g = m.mulgrid().rectangular(xs, ys, [5.] * nz if nz < 3 else [5., 5., 10.] + [10.] * (nz - 3), convention=cv, atmos_type=at, justify=init.get('justify', 'r'))
        if init.get('surface'):
            for i, c in enumerate(g.columnlist):
                z = init['surface'][i % len(init['surface'])]
                if z is not None:
                    c.surface = float(z); g.set_column_num_layers(c)
            g.setup_block_name_index(); g.setup_block_connection_name_index()
        return g
    if k == 'mixed': return mixed_geometry(*init['params'])
    if k == 'file':
        g = m.mulgrid(os.path.join(vf.REPO, 'tests', 'mulgrid', init['name']))
        if init.get('reduce'):
            keep = [c.name for c in g.columnlist[:init['reduce']]]
            g.reduce(keep)
        return few_layers(g, init.get('layers', 4))
    raise RuntimeError('unknown start %r' % (init,))


# ----------------------------------------------------------------------------------------------
# classification of an edit relative to the pre-state: is it inside the quantifier (well-formed
# arguments, the `preS` of coq/C10/Reach.v) and does the method promise a valid mesh
def in_domain(g, op):
    k = op[0]
    if k == 'dn':
        n = g.node.get(op[1])
        return n is None or len(n.column) == 0
    if k == 'ac':
        if op[1] in g.column: return True
        ns = op[2]
        if len(ns) < 3 or len(set(ns)) != len(ns) or any(n not in g.node for n in ns): return False
        from geometry import polygon_area
        import numpy as np
        return abs(polygon_area([np.array(g.node[n].pos, dtype=float) for n in ns])) > 1e-9 and op[3] is not None
    if k == 'ak':
        a, b = g.column.get(op[1]), g.column.get(op[2])
        if a is None or b is None or (op[1], op[2]) in g.connection: return True
        if a is b or (op[2], op[1]) in g.connection: return False          # the two columns are connected already
        nd = g.connection_nodes([a, b])
        return nd is not None
    if k in ('rc', 'rl'):
        d = g.column if k == 'rc' else g.layer
        cur = set(d.keys())
        for old, new in zip(op[1], op[2]):
            if old not in cur: return True          # KeyError ends the call
            cur.discard(old)
            if new in cur: return False
            cur.add(new)
        return True
    if k == 'sp':
        # precondition of split_column_repaired_preserves (Reach.split_pre): no neighbour holding the corner that
        # leaves the column also holds the opposite corner -- such a neighbour shares three corners with the
        # quadrilateral (it overlaps it) and borders BOTH halves, which one connection cannot express
        col = g.column.get(op[1])
        if col is None or len(col.node) != 4: return True
        names = [n.name for n in col.node]
        if op[2] not in names: return True
        i0 = names.index(op[2])
        n1, n3 = col.node[(i0 + 1) % 4], col.node[(i0 + 3) % 4]
        return not any(n3 in c.node and n1 in c.node for c in col.neighbour)
    # the snap / fit_surface theorems are about layers that lie one below the other (add_layer accepts any elevations)
    if k in ('sn', 'fs'): return L.layers_descend(g)
    if k == 'sr': return L.layers_stacked(g)
    if k in L.COMPOUND: return L.conforming(g)      # the quantifier ranges over meshes: no overlapping columns
    return True


# ----------------------------------------------------------------------------------------------
class Outcome(object):
    __slots__ = ('obs', 'error', 'fails', 'steps', 'outside', 'full')

    def __init__(self):
        self.obs, self.error, self.fails, self.steps, self.outside, self.full = [], None, [], 0, [], []


STRUCTURAL = ('lookup', 'connection-keys', 'node-columns', 'column-connections', 'connection-nodes', 'polygon')
READS_NEIGHBOURS = ('sp', 'dc')            # split_column and delete_column walk col.neighbour
HELPERS = {'ss': ('name-lists',), 'tr': ('valid-mesh',)}          # `col.surface = z; set_column_num_layers(col)` is a step of fit_surface / read_surface,
                                           # which refresh the name lists afterwards: not an edit of its own


def judge(g, op, dom, broken, out, t, before=None):
    """evaluate the statement after edit number t.  A clause that was intact before the edit and is broken
    after it is attributed to the edit when the edit's arguments are inside the quantifier and the object
    graph it works on was intact (otherwise the break is a consequence of an earlier one)."""
    now = L.inv_classes(g)
    sound = not (broken & set(STRUCTURAL)) and not (op[0] in READS_NEIGHBOURS and 'neighbours' in broken)
    for cls in L.CLASSES:
        if cls in now and cls not in broken:
            key = '%s:%s' % (L.OP_METHOD[op[0]], cls)
            if not sound: out.outside.append('consequence-of-an-earlier-break')
            elif dom and cls not in HELPERS.get(op[0], ()): out.fails.append((t, key, now[cls]))
            else: out.outside.append(key)
    if op[0] in L.PROMISES_VALID_MESH and dom and sound and before is not None:
        # check(fix) / reduce repair everything; refine / decompose_columns add the missing connections and must not
        # create extra connections or orphan nodes
        miss, extra, orph = L.mesh_defect_sets(g)
        d = []
        if op[0] in ('cf', 'rd'):
            if miss: d.append('missing connections %s' % sorted(miss)[:4])
            if extra: d.append('extra connections %s' % sorted(extra)[:4])
            if orph: d.append('orphan nodes %s' % sorted(orph)[:4])
        else:
            if miss - before[0]: d.append('new missing connections %s' % sorted(miss - before[0])[:4])
            if extra - before[1]: d.append('new extra connections %s' % sorted(extra - before[1])[:4])
            if orph - before[2]: d.append('new orphan nodes %s' % sorted(orph - before[2])[:4])
        if d: out.fails.append((t, '%s:valid-mesh' % L.OP_METHOD[op[0]], d))
    return set(now)


def _strings(x):
    if isinstance(x, str): return set([x])
    if isinstance(x, (list, tuple)):
        out = set()
        for y in x: out |= _strings(y)
        return out
    return set()


def run_impl_sequence(g, ops, hash_mode=False):
    """apply `ops` to the real geometry; after each step record the canonical dump and evaluate the statement.
    Stops at the first exception (like the model)."""
    out = Outcome()
    broken = set(L.inv_classes(g))
    # names the caller chose (start geometry, edit arguments): a collision between two of them once padding is stripped is the
    # caller's doing; a collision involving a name the LIBRARY made up (split_column, refine, decompose_columns, ...) is not
    start_names = set(o.name for lst in (g.columnlist, g.nodelist) for o in lst)
    user_names = start_names | set(o.name for o in g.layerlist) | _strings(ops)
    # the justification of the names of the start geometry; a caller who brings in names justified the other way mixes the two
    # styles himself (the library infers the style from the block names): such sequences are not judged after a round trip
    left = any(n != n.strip().rjust(len(n)) for n in start_names)
    just = (lambda n: n.strip().ljust(len(n))) if left else (lambda n: n.strip().rjust(len(n)))
    culprit = None
    mixed = False
    op_names = _strings(ops)
    for t, op in enumerate(ops):
        if op[0] in L.HINTED and op[0] not in ('fs', 'cg') and (broken & set(STRUCTURAL)):
            break        # set-iteration order decides what a compound edit does on an inconsistent object graph: not compared
        dom = in_domain(g, op)
        before = L.mesh_defect_sets(g) if op[0] in L.PROMISES_VALID_MESH and dom else None
        g, opf, err = L.apply_op_h(g, op)
        out.full.append(opf)
        if err:
            out.error = (t, err)
            out.obs.append('E:' + err)
            return out
        out.steps += 1
        d = L.dump(g)
        out.obs.append(L.adler(d) if hash_mode else d)
        od = L.other_geometry_defects(g)
        if od:
            out.fails.append((t, '%s:other-geometry' % L.OP_METHOD[op[0]], od))
            g._c10_other_dump = L.dump(g._c10_other)          # reported once
        if culprit is None and any(any(n not in user_names for n in grp) for _, grp in L.stripped_collisions(g)): culprit = t
        if not mixed: mixed = any(o.name != just(o.name) for lst in (g.columnlist, g.nodelist) for o in lst if o.name in op_names and o.name not in start_names)
        broken = judge(g, op, dom, broken, out, t, before)
    # "... each optionally followed by a file round trip": exercised when the object graph in memory is consistent and either the
    # names are distinct once stripped, or the clash involves a name the library generated
    if out.steps and not (broken & (set(STRUCTURAL) | set(['neighbours']))):
        try:
            clash = L.stripped_collisions(g)
            if not mixed and (not clash or culprit is not None) and all(c.surface is not None for c in g.columnlist) and len(g.layerlist) > 0:
                rt = L.round_trip_defects(g)
                if rt:
                    t = culprit if culprit is not None else out.steps - 1
                    out.fails.append((t, '%s:round-trip' % L.OP_METHOD[ops[t][0]], rt))
        except Exception as e:
            out.outside.append('round-trip:' + L.exn_name(e))
    return out


# ----------------------------------------------------------------------------------------------
# exhaustive sweep: state-dependent alphabet
def fresh_colname(g, k=0):
    for s in ('  z', '  y', '  x', ' zz', ' zy', ' 98', ' 97'):
        s = s[-g.colname_length:].rjust(g.colname_length)
        if s not in g.column:
            if k == 0: return s
            k -= 1
    return ' qq'[-g.colname_length:]


def fs_ok(g):
    """fit_surface is exercised on geometries it is meant for: a layer to fit into, every column with a surface, a conforming mesh"""
    try:
        return len(g.layerlist) > 1 and len(g.columnlist) > 0 and all(c.surface is not None for c in g.columnlist) and \
            all(3 <= len(c.node) <= 8 for c in g.columnlist) and L.conforming(g) and not L.mesh_defects(g) and \
            all(g.column.get(c.name) is c for c in g.columnlist) and all(g.node.get(n.name) is n for n in g.nodelist)
    except Exception:
        return False          # an inconsistent object graph (after an edit that broke it): not a geometry to fit a surface to


def fs_op(g, names, zfun, snap):
    """('fs', columns, data, layer_snap): one datum at the centre of every column"""
    op = ('fs', list(names), [(float(c.centre[0]), float(c.centre[1]), float(zfun(i, c))) for i, c in enumerate(g.columnlist)], float(snap))
    # a singular least-squares system (degenerate columns) gives NaN elevations, which the model's rationals cannot carry:
    # such a fit is not exercised
    try:
        import numpy as np
        zs = g.fit_columns(np.array(op[2]), columns=list(names), silent=True)
        if not all(math.isfinite(float(z)) for z in zs): return ('sn', 1.0, [])
    except Exception:
        return ('sn', 1.0, [])
    return op


def alphabet(g, n, level):
    """edits tried at a node of the exhaustive tree whose current geometry is `g`.
    level 0: a core of every kind of edit; level 1: every column / corner / connection as argument, malformed calls;
    level 2: every column subset as argument of the operations that take a column list"""
    ops = []
    cols = list(g.columnlist)
    names = [c.name for c in cols]
    lays = [l.name for l in g.layerlist]
    few = (lambda l, k=1: l[:k]) if level == 0 else (lambda l, k=1: l)
    quads = [c for c in cols if len(c.node) == 4]
    for c in few(quads):
        for nd in c.node: ops.append(('sp', c.name, nd.name))
    if level > 0:
        for c in cols:
            if len(c.node) != 4: ops.append(('sp', c.name, c.node[0].name))
        if cols:
            other = [nd for nd in g.nodelist if nd not in cols[0].node]
            if other: ops.append(('sp', cols[0].name, other[0].name))
            ops.append(('sp', '?' * g.colname_length, cols[0].node[0].name))
    for nm in few(names, 2): ops.append(('dc', nm))
    z = fresh_colname(g)
    for i, nm in enumerate(few(names)): ops.append(('rc', [nm], [z], (n + i) % 2))
    if len(names) >= 2:
        ops.append(('rc', [names[0], names[1]], [z, fresh_colname(g, 1)]))
        if level > 0:
            ops.append(('rc', [names[0], names[1]], [names[1], names[0]]))        # swap through a taken name: outside
            ops.append(('rc', [names[0]], [names[1]]))                           # onto a taken name: outside
    for i, nm in enumerate(few(lays[:3])): ops.append(('rl', [nm], ['zz'[-g.layername_length:].rjust(g.layername_length)], (n + i) % 2))
    for key in few(list(g.connection.keys())): ops.append(('dk', key[0], key[1]))
    seen, found = 0, 0
    for a, b in itertools.combinations(cols, 2):
        if (a.name, b.name) in g.connection or (b.name, a.name) in g.connection: continue
        if a.is_against(b):
            if level > 0 or found < 1: ops.append(('ak', a.name, b.name)); found += 1
        elif seen < 1 and level > 0: ops.append(('ak', a.name, b.name)); seen += 1      # not adjacent: outside
    if g.connection and level > 0:
        key = next(iter(g.connection.keys())); ops.append(('ak', key[1], key[0]))        # reverse duplicate
    for nm in few([nd.name for nd in g.nodelist if len(nd.column) == 0]): ops.append(('dn', nm))
    if level > 0:
        used = [nd for nd in g.nodelist if nd.column]
        ops.append(('dn', used[0].name if used else '???'))
    ops.append(('an', ' zn'[-g.colname_length:].rjust(g.colname_length), 3.0, 4.0))
    if len(g.nodelist) >= 3:
        c0 = cols[0] if cols else None
        tri = [nd.name for nd in (c0.node[:3] if c0 else g.nodelist[:3])]
        ops.append(('ac', fresh_colname(g), tri, 0.0 if not g.layerlist else g.layerlist[0].bottom))
    if lays:
        ops.append(('dl', lays[-1]))
        ops.append(('al', 'zy'[-g.layername_length:].rjust(g.layername_length), g.layerlist[-1].bottom - 10., g.layerlist[-1].bottom - 5., g.layerlist[-1].bottom))
    ops += [('aw', 'w1'), ('do',), ('in',), ('sb',), ('sk',)]
    if 'w1' in g.well: ops.append(('dw', 'w1'))
    if names:
        ops.append(('nl', names[0]))
        if len(g.layerlist) > 1:
            ops.append(('ss', names[-1], g.layerlist[1].bottom))            # surface exactly on a layer bottom
            if level > 0: ops.append(('ss', names[0], 0.5 * (g.layerlist[1].bottom + g.layerlist[1].top)))
    # ---- compound operations, with every column subset as argument where a column list is taken
    if level >= 2:
        subsets = [list(x) for r in range(1, len(names) + 1) for x in itertools.combinations(names, r)] if len(names) <= 5 else \
                  [[nm] for nm in names] + [names[:2], names[1:4], names[::2], names]
    elif level == 1:
        subsets = [[nm] for nm in names[:2]] + ([names[:2]] if len(names) > 1 else []) + ([names] if len(names) > 2 else [])
    else:
        subsets = [names[:1]] + ([names[1:]] if len(names) > 1 else [])
    for sub in subsets:
        if not sub: continue
        ops.append(('rf', sub)); ops.append(('rd', sub))
        if level >= 2 or len(sub) == 1: ops.append(('de', sub))
        if len(g.layerlist) > 1 and level > 0: ops.append(('sn', 3.0, sub))
    ops.append(('rf', []))
    ops.append(('cf',))
    for c in cols[:(1 if level == 0 else 2 if level == 1 else 6)]: ops.append(('tr', c.name))
    if len(g.layerlist) > 1:
        ops.append(('ry', [], 2))
        if level > 0: ops.append(('ry', [lays[1]], 4 if level >= 2 else 2))
        ops.append(('sn', 6.0, [])); ops.append(('sn', 5.0, [])); ops.append(('sr', []))
        if fs_ok(g):
            ll = g.layerlist
            l2 = ll[2] if len(ll) > 2 else ll[1]
            # fit_surface: (a) every fitted surface in the middle of a layer, nothing to snap (the layer counts change);
            # (b) surfaces just above a layer bottom, snapped
            ops.append(fs_op(g, [], lambda i, c: l2.centre, 0.5))
            if level > 0:
                ops.append(fs_op(g, [], lambda i, c: l2.bottom + 0.25, 1.0))
                ops.append(fs_op(g, names[:1], lambda i, c: l2.centre + 0.125 * i, 0.0))
        if level > 0: ops.append(('sr', names[:1]))
        ops.append(('cl', [(lays[0], 0., 0., 0.), ('zz'[-g.layername_length:].rjust(g.layername_length), -4., -2., 0.), (lays[1], -12., -8., -4.)]))
    ops.append(('tl', 5., -3., 2.)); ops.append(('ro', 30.))
    # two live geometries: layers copied from another one that stays alive; a vertical move of either must not touch the other
    if len(g.layerlist) > 1:
        ops.append(('cg', [10., 10., 10.])); ops.append(('tl', 0., 0., 15.))
        if getattr(g, '_c10_other', None) is not None: ops.append(('ot', 15.))
    return ops


class Stats(object):
    def __init__(self):
        self.seq = 0; self.steps = 0
        self.opk = Counter(); self.errk = Counter(); self.endk = Counter(); self.lens = Counter()
        self.outside = Counter(); self.failn = Counter(); self.fail = {}
        self.disagree = []; self.ndis = 0; self.distinct = []; self.samples = []; self.clean = 0

    def merge(self, o):
        self.seq += o.seq; self.steps += o.steps; self.ndis += o.ndis; self.clean += o.clean
        for a in ('opk', 'errk', 'endk', 'lens', 'outside', 'failn'): getattr(self, a).update(getattr(o, a))
        for k, v in o.fail.items():
            if k not in self.fail or len(v[0]['ops']) < len(self.fail[k][0]['ops']): self.fail[k] = v
        self.disagree += o.disagree[:max(0, 20 - len(self.disagree))]
        self.distinct += o.distinct
        self.samples += o.samples[:max(0, 6 - len(self.samples))]


def record(stats, case, ops_run, out, line):
    stats.seq += 1; stats.steps += out.steps
    stats.lens[len(ops_run)] += 1
    for op in ops_run[:out.steps + (1 if out.error else 0)]: stats.opk[L.OP_METHOD[op[0]]] += 1
    if out.error:
        stats.errk[out.error[1]] += 1; stats.endk['ends-in-' + out.error[1]] += 1
    else: stats.endk['completes'] += 1
    for k in out.outside: stats.outside[k] += 1
    if not out.fails: stats.clean += 1
    for t, key, v in out.fails:
        stats.failn[key] += 1
        c = dict(case); c['ops'] = [list(o) for o in case['ops'][:t + 1]]
        if key not in stats.fail or len(c['ops']) < len(stats.fail[key][0]['ops']): stats.fail[key] = (c, t, v)
    stats.distinct.append(zlib.crc32(line.encode()) ^ (len(line) << 32))


def compare(stats, cname, exe, lines, cases, expects):
    if not lines or not exe: return
    outs = vf.run_driver(exe, lines, shards=1)
    for l, c, e, o in zip(lines, cases, expects, outs):
        if o != e:
            stats.ndis += 1
            if len(stats.disagree) < 20:
                mo, im = o.split('|'), e.split('|')
                i = 0
                while i < min(len(mo), len(im)) and mo[i] == im[i]: i += 1
                ms = (mo[i] if i < len(mo) else '<no more steps>'); ims = (im[i] if i < len(im) else '<no more steps>')
                if ';' in ms and ';' in ims:          # keep only the differing sections
                    pm, pi = ms.split(';'), ims.split(';')
                    ms = ';'.join(a for a, b in zip(pm, pi) if a != b)[:1500]; ims = ';'.join(b for a, b in zip(pm, pi) if a != b)[:1500]
                stats.disagree.append({'corr': cname, 'case': c, 'first_differing_step': i - 1, 'model': ms[:1500], 'impl': ims[:1500]})


def exhaustive_worker(args):
    """every sequence of exactly `depth` edits (or shorter when an edit raises) below some first-level
    branches of one start geometry; every prefix is observed after every step"""
    init, depth, first_idx, exe, fixbits, level = args
    stats = Stats()
    try:
        g0 = start_geometry(init)
        bad0 = L.inv_classes(g0)
    except Exception as e:
        bad0 = {'construction': ['building the start geometry raises %s' % L.exn_name(e)]}
    if bad0:
        key = 'start-geometry:%s' % sorted(bad0)[0]
        stats.failn[key] += 1; stats.seq += 1
        stats.fail[key] = ({'init': init, 'ops': []}, -1, [m for v in bad0.values() for m in v][:3])
        return stats
    prefix = L.geo_as_ops(g0)
    d0 = L.dump(g0)
    lines, cases, expects = [], [], []

    def flush():
        compare(stats, 'exhaustive', exe, lines, cases, expects)
        del lines[:], cases[:], expects[:]

    def leaf(ops):
        g = start_geometry(init)
        out = run_impl_sequence(g, ops)
        case = {'init': init, 'ops': [list(o) for o in ops]}
        line = L.case_line(g0, prefix, out.full, False, fixbits)
        record(stats, case, ops, out, line)
        lines.append(line); cases.append(case); expects.append('|'.join([d0] + out.obs))
        if len(stats.samples) < 2 and len(ops) == depth and not out.error and stats.seq % 53 == 7:
            stats.samples.append({'start': init, 'ops': [list(o) for o in ops], 'consistent_throughout': not out.fails})
        if len(lines) >= 400: flush()

    def rec(prefix_ops):
        g = start_geometry(init)
        try:
            for op in prefix_ops: g = L.apply_op(g, op)
        except Exception:
            leaf(prefix_ops); return
        if len(prefix_ops) == depth:
            leaf(prefix_ops); return
        alpha = alphabet(g, len(prefix_ops), level[min(len(prefix_ops), len(level) - 1)])
        if not prefix_ops: alpha = [alpha[i] for i in first_idx if i < len(alpha)]
        for op in alpha: rec(prefix_ops + [op])

    rec([])
    flush()
    return stats


def n_first_level(init, level):
    try: return len(alphabet(start_geometry(init), 0, level[0]))
    except Exception: return 1


# ----------------------------------------------------------------------------------------------
# random sweep
def random_op(rng, g, p_bad):
    cols = g.columnlist
    names = [c.name for c in cols]
    pick = lambda l, d=None: rng.choice(l) if l else d
    bad = rng.random() < p_bad
    kinds = ['sp'] * 12 + ['dc'] * 7 + ['rc'] * 9 + ['rl'] * 4 + ['dk'] * 4 + ['ak'] * 5 + ['dn'] * 2 + ['an'] * 2 + ['ac'] * 3 + \
            ['al'] * 2 + ['dl'] * 2 + ['aw'] * 1 + ['dw'] * 1 + ['do'] * 4 + ['in'] * 4 + ['sb'] * 3 + ['sk'] * 3 + ['nl'] * 3 + ['ss'] * 5 + \
            ['rf'] * 10 + ['rd'] * 5 + ['de'] * 5 + ['cf'] * 4 + ['tr'] * 2 + ['ry'] * 3 + ['cl'] * 2 + ['sn'] * 4 + ['sr'] * 2 + ['fs'] * 3 + ['cg'] * 2 + ['ot'] * 2 + ['tl'] * 3 + ['ro'] * 2
    k = rng.choice(kinds)
    if k == 'rf':
        if not names: return ('cf',)
        if len(names) <= 40 and rng.random() < 0.2: return ('rf', [])
        if len(names) > 400: return ('cf',)
        seed = rng.choice(cols)
        sub = [seed.name] + [d.name for d in sorted(seed.neighbour, key=lambda c: c.name)][:rng.randint(0, 3)]
        if rng.random() < 0.3: sub += [rng.choice(names)]
        return ('rf', list(dict.fromkeys(sub)))
    if k == 'rd':
        if len(names) < 3: return ('cf',)
        drop = set(rng.sample(names, rng.randint(1, max(1, len(names) // 4))))
        return ('rd', [n for n in names if n not in drop] if not bad else ['???'])
    if k == 'de':
        big = [c.name for c in cols if len(c.node) > 4]
        sub = rng.sample(big, min(len(big), rng.randint(1, 3))) + (rng.sample(names, 1) if names and rng.random() < 0.3 else [])
        return ('de', list(dict.fromkeys(sub))) if sub else ('cf',)
    if k == 'cf': return ('cf',)
    if k == 'tr': return ('tr', pick(names, '???'))
    if k == 'ry':
        lays = [l.name for l in g.layerlist]
        if len(lays) < 2 or len(lays) > 7: return ('sn', 2.0, [])
        return ('ry', [] if rng.random() < 0.3 else rng.sample(lays[1:], 1), rng.choice([2, 2, 4]))
    if k == 'cl':
        top = float(rng.randint(-2, 2)); z = top; ls = [(' 0'.rjust(g.layername_length)[-g.layername_length:], top, top, top)]
        for i in range(rng.randint(1, 4)):
            th = float(rng.choice([2, 4, 8])); z -= th
            ls.append((('%d' % (i + 1)).rjust(g.layername_length), z, z + th / 2, z + th))
        return ('cl', ls)
    if k == 'sn': return ('sn', float(rng.choice([0, 1, 3, 6])), [] if rng.random() < 0.5 or not names else rng.sample(names, min(len(names), 3)))
    if k == 'sr': return ('sr', [] if rng.random() < 0.5 or not names else rng.sample(names, min(len(names), 3)))
    if k == 'cg': return ('cg', [float(rng.choice([4, 6, 10])) for _ in range(rng.randint(1, 4))])
    if k == 'ot': return ('ot', float(rng.choice([-15, -4, 8, 15]))) if getattr(g, '_c10_other', None) is not None else ('tl', 0., 0., float(rng.choice([-15, 8, 15])))
    if k == 'fs':
        if not fs_ok(g) or len(names) > 120: return ('sn', 1.0, [])
        lo, hi = g.layerlist[-1].bottom, g.layerlist[0].top
        base = lo + (hi - lo) * rng.random()
        slope = rng.choice([0.0, 0.0, 0.02, 0.3])
        return fs_op(g, [] if rng.random() < 0.6 else rng.sample(names, min(len(names), 3)),
                     lambda i, c: base + slope * (i % 7), rng.choice([0.0, 0.5, 1.0, 3.0]))
    if k == 'tl': return ('tl', float(rng.randint(-20, 20)), float(rng.randint(-20, 20)), float(rng.choice([0, 0, -4, 8])))
    if k == 'ro': return ('ro', float(rng.choice([15, 30, 90, -45])))
    if k == 'sp':
        quads = [c for c in cols if len(c.node) == 4]
        if bad or not quads:
            c = pick(cols)
            if c is None: return ('do',)
            return ('sp', c.name, pick(g.nodelist).name)
        c = rng.choice(quads)
        return ('sp', c.name, rng.choice(c.node).name)
    if k == 'dc': return ('dc', pick(names, '???') if not bad else '???')
    if k == 'rc':
        if not names: return ('in',)
        nk = min(len(names), rng.choice([1, 1, 1, 2, 3]))
        olds = rng.sample(names, nk)
        taken = set(names)
        news = []
        for _ in olds:
            while True:
                s = ''.join(rng.choice('qrstuvwxyz') for _ in range(g.colname_length))
                if rng.random() < 0.5: s = (' ' + s)[:g.colname_length]
                if s not in taken: break
            taken.add(s); news.append(s)
        if bad and len(names) > nk: news[0] = rng.choice([x for x in names if x not in olds])
        return ('rc', olds, news, rng.randint(0, 1))
    if k == 'rl':
        lays = [l.name for l in g.layerlist]
        if not lays: return ('sb',)
        old = rng.choice(lays)
        while True:
            s = ''.join(rng.choice('qrstuvwxyz') for _ in range(g.layername_length))
            if s not in g.layer: break
        return ('rl', [old], [s], rng.randint(0, 1))
    if k == 'dk':
        keys = list(g.connection.keys())
        if not keys or bad: return ('dk', pick(names, '???'), '???')
        a, b = rng.choice(keys)
        return ('dk', a, b)
    if k == 'ak':
        cand = []
        for c in rng.sample(cols, min(len(cols), 12)):
            for nd in c.node:
                for d in nd.column:
                    if d is not c and c.is_against(d) and (c.name, d.name) not in g.connection and (d.name, c.name) not in g.connection:
                        cand.append((c.name, d.name))
        if cand and not bad: return ('ak',) + sorted(cand)[rng.randrange(len(cand))]
        if len(names) >= 2:
            a, b = rng.sample(names, 2)
            return ('ak', a, b)
        return ('in',)
    if k == 'dn':
        orph = [n.name for n in g.nodelist if not n.column]
        if orph and not bad: return ('dn', rng.choice(orph))
        return ('dn', pick(g.nodelist).name if (bad and g.nodelist) else '???')
    if k == 'an':
        s = ''.join(rng.choice('qrstuvwxyz') for _ in range(g.colname_length))
        return ('an', s, float(rng.randint(-50, 50)), float(rng.randint(-50, 50)))
    if k == 'ac':
        if len(g.nodelist) < 3: return ('in',)
        c = pick(cols)
        ns = [n.name for n in (c.node[:3] if c is not None and not bad else rng.sample(g.nodelist, 3))]
        s = ''.join(rng.choice('qrstuvwxyz') for _ in range(g.colname_length))
        z = g.layerlist[0].bottom if g.layerlist else 0.0
        return ('ac', s, ns, z if not bad or rng.random() < 0.5 else None)
    if k == 'al':
        s = ''.join(rng.choice('qrstuvwxyz') for _ in range(g.layername_length))
        b = g.layerlist[-1].bottom if g.layerlist else 0.0
        return ('al', s, b - 8.0, b - 4.0, b)
    if k == 'dl':
        lays = [l.name for l in g.layerlist]
        if len(lays) <= 2 and not bad: return ('sk',)
        return ('dl', rng.choice(lays[1:]) if len(lays) > 1 else pick(lays, '??'))
    if k == 'aw': return ('aw', 'w%d' % rng.randint(1, 3))
    if k == 'dw': return ('dw', pick(list(g.well.keys()), 'w9'))
    if k in ('do', 'in', 'sb', 'sk'): return (k,)
    if k == 'nl': return ('nl', pick(names, '???'))
    if k == 'ss':
        if not names or len(g.layerlist) < 2: return ('in',)
        l = rng.choice(g.layerlist[1:])
        z = rng.choice([l.bottom, l.top, 0.5 * (l.bottom + l.top), l.bottom + 0.25 * (l.top - l.bottom)])
        return ('ss', rng.choice(names), z)
    return ('in',)


RANDOM_STARTS = [
    {'kind': 'rect', 'params': [2, 2, 3, 0, 0]}, {'kind': 'rect', 'params': [3, 2, 3, 0, 1]}, {'kind': 'rect', 'params': [4, 3, 2, 0, 2]},
    {'kind': 'rect', 'params': [3, 3, 3, 1, 0], 'surface': [None, -3., -5., -12.]}, {'kind': 'rect', 'params': [5, 4, 3, 2, 1], 'surface': [None, None, -7.]},
    {'kind': 'rect', 'params': [6, 5, 2, 3, 2]}, {'kind': 'mixed', 'params': [0, 0]}, {'kind': 'mixed', 'params': [0, 1]}, {'kind': 'mixed', 'params': [3, 2]},
    {'kind': 'file', 'name': 'g1.dat', 'layers': 4}, {'kind': 'file', 'name': 'g7.dat', 'layers': 4},
    {'kind': 'rect', 'params': [3, 2, 3, 0, 0], 'justify': 'l'}, {'kind': 'rect', 'params': [3, 3, 2, 2, 1], 'justify': 'l'},
]
BIG_STARTS = [
    {'kind': 'rect', 'params': [15, 12, 3, 0, 0], 'surface': [None, None, None, -3., -6.]}, {'kind': 'rect', 'params': [20, 15, 2, 0, 2]},
    {'kind': 'file', 'name': 'g5.dat', 'layers': 3}, {'kind': 'file', 'name': 'g6.dat', 'layers': 3},
    {'kind': 'file', 'name': 'g2.dat', 'layers': 3, 'reduce': 250}, {'kind': 'file', 'name': 'g3.dat', 'layers': 3, 'reduce': 220},
    {'kind': 'file', 'name': 'g4.dat', 'layers': 3, 'reduce': 280},
]


def random_worker(args):
    seed, ncases, maxlen, exe, fixbits, starts = args
    rng = random.Random(seed)
    stats = Stats()
    lines, cases, expects = [], [], []
    for ci in range(ncases):
        init = starts[(seed + ci) % len(starts)]
        try:
            g = start_geometry(init)
            bad0 = L.inv_classes(g)
        except Exception as e:
            bad0 = {'construction': ['building the start geometry raises %s' % L.exn_name(e)]}
            g = None
        if bad0:        # the start geometry itself (read / rectangular / reduce of a shipped file) is not consistent
            key = 'start-geometry:%s' % sorted(bad0)[0]
            stats.failn[key] += 1
            stats.fail.setdefault(key, ({'init': init, 'ops': []}, -1, [m for v in bad0.values() for m in v][:3]))
            stats.seq += 1
            continue
        g0 = g
        prefix = L.geo_as_ops(g)
        hash_mode = len(g.columnlist) > 30
        d0 = L.dump(g)
        out = Outcome()
        out.obs.append(L.adler(d0) if hash_mode else d0)
        broken = set(L.inv_classes(g))
        n = rng.randint(1, maxlen) if rng.random() < 0.3 else maxlen
        p_bad = rng.choice([0.0, 0.0, 0.03, 0.1])
        ops = []
        line0 = L.case_line(g, prefix, [], hash_mode, fixbits)
        for t in range(n):
            op = random_op(rng, g, p_bad)
            if op[0] in L.HINTED and (broken & set(STRUCTURAL)): continue
            ops.append(op)
            dom = in_domain(g, op)
            before = L.mesh_defect_sets(g) if op[0] in L.PROMISES_VALID_MESH and dom else None
            g, opf, err = L.apply_op_h(g, op)
            out.full.append(opf)
            if err:
                out.error = (t, err); out.obs.append('E:' + err); break
            out.steps += 1
            d = L.dump(g)
            out.obs.append(L.adler(d) if hash_mode else d)
            broken = judge(g, op, dom, broken, out, t, before)
        case = {'init': init, 'ops': [list(o) for o in ops]}
        line = line0 + ''.join('\t' + L.encode_op(o) for o in out.full)
        record(stats, case, ops, out, line)
        stats.lens['columns:%d' % (50 * (len(g0.columnlist) // 50))] += 1
        lines.append(line); cases.append(case); expects.append('|'.join(out.obs))
        if len(stats.samples) < 1 and len(ops) >= 5:
            stats.samples.append({'start': init, 'ops': [list(o) for o in ops[:6]], 'n_ops': len(ops), 'ended': out.error[1] if out.error else 'completed'})
    compare(stats, 'random', exe, lines, cases, expects)
    return stats


# ----------------------------------------------------------------------------------------------
def _t(o):
    """JSON round trip: lists stay lists (apply_op accepts them)"""
    return tuple(o)


def shrink_failure(case, key):
    ops = [_t(o) for o in case['ops']]

    def fails(ops_):
        try: g = start_geometry(case['init'])
        except Exception: return False
        out = run_impl_sequence(g, ops_)
        return any(k == key for _, k, _ in out.fails)
    i, budget = 0, 120
    while i < len(ops) - 1 and budget > 0:
        budget -= 1
        trial = ops[:i] + ops[i + 1:]
        if fails(trial): ops = trial
        else: i += 1
    c = dict(case); c['ops'] = [list(o) for o in ops]
    return c


def sweep(ctx, exe, fixbits, plan_exh, n_random, n_big, maxlen, label=''):
    import multiprocessing as mp
    jobs = []
    for init, depth, level in plan_exh:
        nf = n_first_level(init, level)
        nshard = min(vf.NPROC * 2, nf)
        for s in range(nshard):
            jobs.append(('e', (init, depth, list(range(s, nf, nshard)), exe, fixbits, level)))
    for kind, n, starts in (('r', n_random, RANDOM_STARTS), ('b', n_big, BIG_STARTS)):
        if not n: continue
        per = max(1, n // (vf.NPROC * 2))
        for j in range((n + per - 1) // per):
            jobs.append((kind, (ctx.rng.getrandbits(40), min(per, n - j * per), maxlen, exe, fixbits, starts)))
    total = {'e': Stats(), 'r': Stats(), 'b': Stats()}
    with mp.Pool(vf.NPROC) as pool:
        res = [(kind, pool.apply_async(exhaustive_worker if kind == 'e' else random_worker, (a,))) for kind, a in jobs]
        for kind, r in res: total[kind].merge(r.get(timeout=7200))
    names = {'e': ('exhaustive-short-sequences', 'Inv-after-every-step(exhaustive)'),
             'r': ('random-sequences-small-geometries', 'Inv-after-every-step(random,small)'),
             'b': ('random-sequences-geometries-to-300-columns', 'Inv-after-every-step(random,large)')}
    for kind, (cname, oname) in names.items():
        st = total[kind]
        if not st.seq: continue
        if exe:
            ctx.corr_cases(cname + label, st.seq, steps_compared=st.steps, op_kinds=dict(st.opk), error_kinds=dict(st.errk),
                           endings=dict(st.endk), lengths={str(k): v for k, v in sorted(st.lens.items(), key=lambda kv: str(kv[0]))})
            for d in st.disagree: ctx.disagreement(cname + label, d['case'], 'after edit %d: %s' % (d['first_differing_step'], d['model']), d['impl'])
            extra = st.ndis - len(st.disagree)
            if extra > 0: ctx.corr[cname + label]['n_disagreements'] = ctx.corr[cname + label].get('n_disagreements', 0) + extra
        ctx.oracle_cases(oname + label, st.seq, steps_checked=st.steps, sequences_consistent_throughout=st.clean,
                         edits_outside_the_quantifier_that_broke_a_clause=dict(st.outside), first_breaks_by_finding_key=dict(st.failn))
        ctx.evaluations += st.seq
        ctx.distinct.update(st.distinct)
        for s in st.samples: ctx.sample(s)
        for key, (case, t, v) in sorted(st.fail.items()):
            if len(case['ops']) > 2:
                try: case = shrink_failure(case, key)
                except Exception: traceback.print_exc()
            ctx.failure(oname, key, case, '; '.join(v), L.REQUIRED.get(key.split(':')[-1], 'the property statement'))
    return total


def replay_witnesses(ctx):
    """the recorded witnesses of the known findings are replayed first (a finding whose witness no longer fails is simply
    not reported; any other clause that breaks on a witness is reported like any failure)"""
    import glob
    n = 0
    for f in sorted(glob.glob(os.path.join(vf.VERIF, 'findings', 'C10-*.json'))):
        try: rec = json.load(open(f))
        except Exception: continue
        for w in rec.get('witnesses', []):
            case = w.get('input') or {}
            try:
                g = start_geometry(case['init'])
                out = run_impl_sequence(g, [_t(o) for o in case['ops']])
            except Exception:
                continue
            n += 1
            for t, key, v in out.fails:
                c = dict(case); c['ops'] = [list(o) for o in case['ops'][:t + 1]]
                ctx.failure('known-finding-witnesses', key, c, '; '.join(v), L.REQUIRED.get(key.split(':')[-1], 'the property statement'))
    ctx.oracle_cases('known-finding-witnesses', n)


def run(ctx):
    ctx.rule = ('edit sequences on the real mulgrid, each compared step by step with the extracted Coq model and checked against the statement '
                'clause by clause: (1) exhaustive: from each small start geometry (2x2 and 3x2 rectangular with different conventions / atmosphere types, '
                'a mixed quadrilateral/triangle/pentagon mesh) every sequence of up to L edits over the state-dependent alphabet (split_column at every corner of every '
                'quadrilateral, delete_column / rename_column of every column, rename lists and swaps, delete_connection of every connection, add_connection of every '
                'unconnected adjacent pair, node / layer / well edits, delete_orphans, identify_neighbours, set_column_num_layers, surface changes, the two name-list set-ups, '
                'plus malformed calls); (2) random sequences up to length 25 on rectangular, mixed and shipped geometries (g1, g7; g5, g6 and column subsets of g2, g3, g4 up to 320 columns), '
                'generator biased to valid calls. A case is one sequence; distinct by its encoded op list (start geometry included); every counted sequence has at least one edit')
    ctx.trusted += ['Coq 8.16.1 kernel (coqc)',
                    'hand-written model coq/C10/GeoState.v, GeoEdit.v, GeoStep.v of the mulgrid methods (objects as ids + field maps, dict = insertion-ordered association list, '
                    'Python sets as duplicate-free lists, coordinates and elevations as exact rationals); its agreement with mulgrids.py is TESTED on this run (canonical dump after every step), not proved',
                    'PTModel.Names (int_to_chars, fix_blockname) from the C17 development',
                    'extraction: ExtrOcamlBasic + ExtrOcamlString, OCaml 4.13.1, ocaml/main.ml; PTBase.Wire helpers',
                    'the Python statement of the invariant in tools/props/c10_lib.py (inv_classes) and the classifier of inputs (in_domain) in tools/props/C10.py']
    ctx.assumptions += ['arguments are well-formed: add_column receives node objects of the geometry, at least three distinct ones, and a surface; add_connection receives two different '
                        'column objects of the geometry that share a side; delete_node is applied to unused nodes; new names given to rename_column / rename_layer are free',
                        'an edit that raises ends the sequence (the state after an exception is not covered)',
                        'block_order None / layer_column; names over [A-Za-z0-9 ] of the length the convention prescribes; wells carry no geometry; optimize(), fit_columns least squares, plotting and file export are not modelled',
                        'coordinates / elevations in the correspondence run are such that the double arithmetic of the implementation is exact or compared after rounding to 2^-16']
    ctx.stage()
    ok = ctx.coq_build()
    exe = vf.build_driver(ctx)
    fixbits = probe_fixbits()
    ctx.extra['source_variant'] = {'rename_column_rekeys_connections': bool(fixbits & 1), 'split_column_repaired': bool(fixbits & 2),
                                   'add_delete_connection_maintain_neighbours': bool(fixbits & 4),
                                   'check_fix_refreshes_connection_name_index': bool(fixbits & 8)}
    r22 = {'kind': 'rect', 'params': [2, 2, 3, 0, 0]}
    r32 = {'kind': 'rect', 'params': [3, 2, 2, 0, 1], 'surface': [None, -3., None]}
    r22b = {'kind': 'rect', 'params': [2, 2, 2, 3, 2]}
    r22l = {'kind': 'rect', 'params': [2, 2, 3, 0, 0], 'justify': 'l'}          # left-justified names
    mix = {'kind': 'mixed', 'params': [0, 2]}
    # (start, depth, alphabet level at each depth)
    if ctx.thorough:
        plan = [(r22, 3, (1, 0, 0)), (r22, 2, (2, 2)), (r32, 3, (0, 0, 0)), (r32, 2, (1, 2)), (mix, 3, (0, 0, 0)), (mix, 2, (2, 2)), (r22b, 2, (1, 1)), (r22l, 3, (0, 0, 0))]
        nrand, nbig = 1500, 300
    else:
        plan = [(r22, 2, (1, 1)), (r22, 1, (2,)), (r32, 2, (0, 0)), (mix, 2, (0, 1)), (mix, 1, (2,)), (r22b, 2, (0, 0)), (r22l, 2, (0, 0))]
        nrand, nbig = 160, 32
    replay_witnesses(ctx)
    tot = sweep(ctx, exe, fixbits, plan, nrand, nbig, 25)
    ctx.extra['exhaustive'] = True
    ctx.extra['input_distribution'] = {
        k: {'sequences': tot[k].seq, 'op_kinds': dict(tot[k].opk), 'endings': dict(tot[k].endk), 'error_kinds': dict(tot[k].errk)}
        for k in tot}
    ctx.hyp_met['sequences on which every clause held after every edit'] = sum(tot[k].clean for k in tot)

    def deep(broken):
        ctx.log('deep search: oracle-only sweep at greater depth')
        ctx.rng = random.Random(ctx.seed + 4242)
        sweep(ctx, None, fixbits, [(r22, 2, (1, 1)), (mix, 2, (1, 1))], 600, 60, 25, label='(deep)')
    return ctx.finish(deep_search=deep)


def replay(ctx, data):
    case = data.get('input') or {}
    if not case or 'ops' not in case: return True
    key = data.get('finding_key') or data.get('key')
    try:
        g = start_geometry(case['init'])
        bad0 = L.inv_classes(g)
    except Exception as e:
        print('replay: building the start geometry %s raises %s' % (json.dumps(case['init']), L.exn_name(e))); return True
    if bad0:
        print('replay: the start geometry %s is not consistent: %s' % (json.dumps(case['init']), bad0)); return True
    ops = [_t(o) for o in case['ops']]
    out = run_impl_sequence(g, ops)
    print('replay: start %s, %d edit(s): %s' % (json.dumps(case['init']), len(ops), json.dumps(case['ops'])[:600]))
    hit = [f for f in out.fails if key is None or f[1] == key]
    if hit:
        t, k, v = hit[0]
        print('  statement broken after edit %d (%s): %s' % (t, k, '; '.join(v)))
        return True
    print('  every clause that held before still holds after each edit' + (' (sequence ended in %s at edit %d)' % (out.error[1], out.error[0]) if out.error else ''))
    return False
