"""C04 -- geometry -> TOUGH2 grid conversion is geometrically exact and index-consistent.

tie: H.  coq/C04/FromGeo.v is a hand transcription of the two name-list loops of mulgrids.py
(790-865) and of t2grid.fromgeo (t2grids.py 341-434) with the mulgrid helpers they call, over an
abstract geometry with exact rational numbers.  The extracted model is run on the abstract
geometry read off real mulgrid objects and compared with t2grid().fromgeo(geo[, blockmap]);
independently, the property statement is evaluated on the implementation from raw node
coordinates and layer elevations (tools/props/c04_lib.py: oracle)."""
import os, sys, json, time, random, resource, subprocess, collections
from concurrent.futures import ThreadPoolExecutor
import vf

sys.path.insert(0, os.path.dirname(os.path.abspath(__file__)))
import c04_lib as L

CORR = 'fromgeo: extracted model vs t2grid().fromgeo(geo[, blockmap]) and the geometry\'s name lists'
ORACLE = 'property-statement-on-implementation'


def _unlimit():
    try: resource.setrlimit(resource.RLIMIT_STACK, (resource.RLIM_INFINITY, resource.RLIM_INFINITY))
    except Exception:
        try:
            soft, hard = resource.getrlimit(resource.RLIMIT_STACK)
            resource.setrlimit(resource.RLIMIT_STACK, (hard, hard))
        except Exception: pass


def run_model(exe, lines, shards=None, timeout=3000):
    """One case line per geometry -> one result line.  Round-robin over `shards` processes;
    the extracted code is not tail recursive, so the stack limit is lifted."""
    n = len(lines)
    if n == 0: return []
    shards = max(1, min(shards or vf.NPROC, n))
    order = sorted(range(n), key=lambda i: -len(lines[i]))        # longest first, dealt round-robin
    buckets = [order[k::shards] for k in range(shards)]

    def one(idx):
        p = subprocess.run([exe], input='\n'.join(lines[i] for i in idx) + '\n', stdout=subprocess.PIPE,
                           stderr=subprocess.PIPE, text=True, timeout=timeout, preexec_fn=_unlimit)
        out = p.stdout.split('\n')
        if out and out[-1] == '': out.pop()
        if p.returncode != 0 or len(out) != len(idx):
            raise RuntimeError('model driver failed (rc %s, %d lines for %d cases): %s' % (p.returncode, len(out), len(idx), p.stderr[-1500:]))
        return out

    with ThreadPoolExecutor(max_workers=shards) as ex:
        outs = list(ex.map(one, buckets))
    res = [None] * n
    for idx, out in zip(buckets, outs):
        for i, o in zip(idx, out): res[i] = o
    return res


class Stats:
    def __init__(self):
        self.dist = collections.Counter()
        self.tot = collections.Counter()
        self.hyp = collections.Counter()


def note_distribution(st, recipe, geo, bm):
    d = st.dist
    d['kind:' + recipe.get('kind', recipe['base'].get('name', recipe['base']['kind']))] += 1
    d['surface-mode:' + recipe.get('mode', '?')] += 1
    d['atmosphere_type:%d' % geo.atmosphere_type] += 1
    d['convention:%d' % geo.convention] += 1
    d['block_order:%s' % geo.block_order] += 1
    d['blockmap:' + ('none' if bm is None else 'empty' if not bm else 'yes')] += 1
    d['permeability_angle:' + ('0' if geo.permeability_angle == 0 else 'nonzero')] += 1
    d['tilted:' + ('yes' if (geo.gdcx or geo.gdcy) else 'no')] += 1
    ops = [o[0] for o in recipe.get('ops', [])]
    for o in ('rotate', 'translate', 'refine', 'refine_layers', 'centres'):
        if o in ops: d['op:' + o] += 1
    # hypotheses of the theorems, measured on the real object
    lays = geo.layerlist
    h = st.hyp
    h['geometries'] += 1
    contiguous = lays[0].top == lays[0].bottom and all(lays[i + 1].top == lays[i].bottom for i in range(len(lays) - 1))
    mono = all(lays[i + 1].bottom <= lays[i].bottom for i in range(len(lays) - 1))
    if contiguous and mono: h['layers_wf (atmosphere layer flat, layers contiguous, bottoms non-increasing)'] += 1
    if all(c.surface > lays[-1].bottom for c in geo.columnlist): h['every surface above the bottom of the last layer'] += 1
    names = [(bm or {}).get(n, n) for n in geo.block_name_list]
    if len(set(names)) == len(names): h['NoDup mapped block names'] += 1
    cn = geo.block_connection_name_list
    if len(set(cn)) == len(cn): h['NoDup connection names'] += 1
    if len(set(l.name for l in lays)) == len(lays) and len(set(c.name for c in geo.columnlist)) == geo.num_columns:
        h['NoDup layer names and column names'] += 1
    conv = geo.convention
    if all(geo.layer_name(L.own_block_name(conv, l.name, c.name)) == l.name and geo.column_name(L.own_block_name(conv, l.name, c.name)) == c.name
           for l in lays[1:] for c in geo.columnlist):
        h['names_decode (every rock layer x column)'] += 1
    if len(lays) > 1: h['at least one rock layer'] += 1
    if all(float(con.node[0].pos[0]) != float(con.node[1].pos[0]) or float(con.node[0].pos[1]) != float(con.node[1].pos[1]) for con in geo.connectionlist):
        h['edges_wf (end points of every shared edge differ)'] += 1
    colset = set(id(c) for c in geo.columnlist)
    if all(id(con.column[0]) in colset and id(con.column[1]) in colset for con in geo.connectionlist):
        h['connection columns are columns of the geometry'] += 1
    if geo.atmosphere_type in (0, 1, 2): h['atmosphere_type in 0..2'] += 1
    if not (geo.gdcx or geo.gdcy): h['untilted (hypothesis of the dircos theorems only)'] += 1


def check_batch(ctx, exe, st, cases, label):
    """cases: list of (recipe, geo, blockmap).  Correspondence + oracle on each."""
    lines = [L.abstract_line(g, b) for _, g, b in cases]
    outs = None
    if exe:
        try: outs = run_model(exe, lines)
        except Exception as e:
            ctx.log('model driver failed on batch', label, repr(e)[:500])
            ctx.proof_failures.append({'kind': 'harness', 'name': 'model-driver', 'detail': repr(e)[:2000]})
    for i, (recipe, geo, bm) in enumerate(cases):
        grid, err = L.run_impl(geo, bm)
        sc = L.Scales(geo)
        key = json.dumps(recipe, sort_keys=True, default=str)
        note_distribution(st, recipe, geo, bm)
        if outs is not None:
            diffs = L.compare(geo, bm, grid, err, L.parse_model(outs[i]), sc)
            if diffs:
                ctx.disagreement(CORR, {'recipe': recipe}, '; '.join(diffs[:4])[:1500], 'see differences (impl side quoted in the text)')
        fails = []
        stats = L.oracle(geo, bm, grid, err, sc, lambda k, o, r: fails.append((k, o, r)))
        st.tot.update(stats)
        ctx.count(key, nontrivial=stats['blocks'] > 0)
        seen = set()
        for k, o, r in fails:
            if k in seen: continue
            seen.add(k)
            ctx.failure(ORACLE, k, {'recipe': recipe}, o, r)
        if len(ctx.samples) < 6:
            ctx.sample({'recipe': {k: (v if k != 'ops' else [o if o[0] != 'surface' else ['surface', '%d explicit elevations' % len(o[1])] for o in v])
                                   for k, v in recipe.items() if k != 'blockmap'},
                        'blockmap_entries': None if bm is None else len(bm),
                        'columns': geo.num_columns, 'layers': geo.num_layers, 'blocks': grid.num_blocks if grid else None,
                        'connections': grid.num_connections if grid else None})
    if outs is not None: ctx.corr_cases(CORR, len(cases))
    ctx.oracle_cases(ORACLE, len(cases))


def generate(ctx, n, st, big=False, kinds=None):
    cases = []
    for _ in range(n):
        kind = ctx.rng.choice(kinds) if kinds else None
        try:
            cases.append(L.gen_recipe(ctx.rng, kind=kind, repo=ctx.repo, big=big))
        except Exception as e:
            # building a geometry through the public API failed: not this property's subject, but never silent
            st.dist['generator-exception:' + type(e).__name__] += 1
    return cases


def shipped_cases(ctx, names, variants):
    """The shipped irregular geometries themselves (large): as shipped, and with varied
    atmosphere type / surfaces / block map."""
    cases = []
    for nm in names:
        for v in range(variants):
            if v == 0:
                recipe = dict(base=dict(kind='file', name=nm), ops=[], blockmap=None, kind=nm, mode='shipped')
                geo, bm = L.build_geo(recipe, ctx.repo)
                cases.append((recipe, geo, bm))
            else:
                cases.append(L.gen_recipe(ctx.rng, kind=nm, repo=ctx.repo))
    return cases


def sweep(ctx, exe, st, n_small, shipped, variants, batch=240):
    t0 = time.time()
    big = shipped_cases(ctx, shipped, variants) if shipped else []
    # the large shipped geometries run first (their model runs dominate the wall time)
    done = 0
    if big:
        check_batch(ctx, exe, st, big, 'shipped')
        ctx.log('shipped geometries: %d cases (%.0fs)' % (len(big), time.time() - t0))
    while done < n_small:
        k = min(batch, n_small - done)
        cases = generate(ctx, k, st, big=ctx.thorough)
        check_batch(ctx, exe, st, cases, 'random-%d' % done)
        done += k
        ctx.log('geometries checked: %d (%.0fs)' % (done + len(big), time.time() - t0))


def run(ctx):
    ctx.rule = ('geometries are built through the public mulgrid API from a recorded recipe: rectangular (1..6 x 1..6 x 1..6 blocks quick, up to 9 x 9 x 8 thorough; '
                'uniform/random/geometric spacings, origins up to 1e5, 4 conventions, l/r justification, case, alphabetic character sets, 2-D slices), '
                'the shipped irregular geometries g1..g7 (g7 and one large one in the quick tier, all in the thorough tier), column refinements of both (triangular transition columns) '
                'and layer refinements, then rotated/translated, atmosphere type 0/1/2, block order None/layer_column/dmplex, permeability angle, GDCX/GDCY tilt, '
                'atmosphere volume/connection, layer centres off the mid-point, explicit column surfaces (default; on a layer boundary; above the top layer; thin slivers; inside the bottom layer; sloping), '
                'no block map / empty / partial / total block map.  A case is distinct by its recipe and non-trivial when the grid has rock blocks.')
    ctx.trusted += ['Coq 8.16.1 kernel (coqc); vm_compute only on closed terms inside Example proofs; no native_compute; Props.v is axiom-free, PropsR.v (the same connection statements read in R with sqrt) uses the stdlib axioms of the classical reals',
                    'coq/C04/FromGeo.v: hand transcription of mulgrids.py 790-881, 1381-1455, geometry.line_projection and t2grids.py 282-318, 341-434 (validated on every run by the correspondence, not derived from the source)',
                    'exact rational arithmetic stands for IEEE double arithmetic (difference measured per run: all compared quantities agree to 1e-9 relative + 2e-13 of the cancellation scale)',
                    'extraction: ExtrOcamlBasic + ExtrOcamlString, OCaml 4.13.1, ocaml/main.ml; Base/Wire.v unhex/z_of_str',
                    'tools/props/c04_lib.py: recipe builder, abstract-geometry reader (public attributes of mulgrid/column/layer/connection/node), comparison and oracle']
    ctx.assumptions += ['column and layer names are those the library generates from alphabetic character sets, or those of the shipped files (fix_blockname is then the identity on block names; hypothesis names_decode of the theorems)',
                        'the name lists of the geometry are current (setup_block_name_index / setup_block_connection_name_index called after surfaces change, as the library and its tests do)',
                        'layer objects are identified by their unique names (layerlist.index); connection columns are members of columnlist',
                        'the atmosphere layer has zero thickness and layers are contiguous (identify_layer_tops), every column surface lies above the bottom of the last layer',
                        'square roots are outside the model: distances, areas and cosines that involve a norm are carried as coef*sqrt(rad) with rational coef, rad']
    ctx.stage()
    ok = ctx.coq_build(props=('Props.v', 'PropsR.v'), timeout=1200)
    exe = vf.build_driver(ctx)
    st = Stats()
    seedpick = ['g5', 'g6', 'g1', 'g3'][ctx.seed % 4]
    if ctx.thorough:
        sweep(ctx, exe, st, 3000, ['g7', 'g1', 'g3', 'g5', 'g6', 'g2', 'g4'], 2)
    else:
        sweep(ctx, exe, st, 200, ['g7', seedpick], 1)
    ctx.extra['input_distribution'] = dict(sorted(st.dist.items()))
    ctx.extra['oracle_totals'] = dict(st.tot)
    ctx.hyp_met = dict(st.hyp)

    def deep(broken):
        rng = random.Random(ctx.seed + 4041)
        ctx.rng = rng
        # bounded by a case count (deterministic), not by the clock
        for _ in range(40 if ctx.thorough else 6):
            if ctx.new_failures: break
            check_batch(ctx, None, st, generate(ctx, 100, st, big=True), 'deep')

    return ctx.finish(deep_search=deep)


def replay(ctx, data):
    inp = data.get('input') or {}
    recipe = inp.get('recipe')
    if recipe is None:
        print('replay: no concrete input recorded'); return True
    geo, bm = L.build_geo(recipe, ctx.repo)
    grid, err = L.run_impl(geo, bm)
    fails = []
    L.oracle(geo, bm, grid, err, L.Scales(geo), lambda k, o, r: fails.append((k, o, r)))
    for k, o, r in fails[:5]: print('replay: %s: observed %s; required %s' % (k, o, r))
    if not fails: print('replay: the property statement holds on this geometry')
    return bool(fails)
