"""C04 -- geometry -> TOUGH2 grid conversion is geometrically exact and index-consistent.

tie: H + T.  T: tools/props/c04_translate.py regenerates the arithmetic / comparison kernels (block_surface,
block_volume, block_centre, connection_params, line_projection, the loop bodies of add_vertical_/
add_horizontal_layer_connections, add_atmosphereblocks, add_underground_blocks, the name loops of
setup_block_connection_name_index, the layer-column filters) from the AST of the current source as expression
trees (Gen/GenKernels.v); coq/C04/KernelTie.v proves that they evaluate to what the hand model computes.
H: coq/C04/FromGeo.v is a hand transcription of the two name-list loops of mulgrids.py
(790-865) and of t2grid.fromgeo (t2grids.py 341-434) with the mulgrid helpers they call, over an
abstract geometry with exact rational numbers.  The extracted model is run on the abstract
geometry read off real mulgrid objects and compared with t2grid().fromgeo(geo[, blockmap]);
independently, the property statement is evaluated on the implementation from raw node
coordinates and layer elevations (tools/props/c04_lib.py: oracle)."""
import os, sys, json, time, random, resource, subprocess, collections
from concurrent.futures import ThreadPoolExecutor
import vf

sys.path.insert(0, os.path.dirname(os.path.abspath(__file__)))
import c04_lib as L

CORR = 'fromgeo: extracted model vs t2grid().fromgeo(geo[, blockmap]) and the geometry\'s name lists'
ORACLE = 'property-statement-on-implementation'


def _unlimit():
    try: resource.setrlimit(resource.RLIMIT_STACK, (resource.RLIM_INFINITY, resource.RLIM_INFINITY))
    except Exception:
        try:
            soft, hard = resource.getrlimit(resource.RLIMIT_STACK)
            resource.setrlimit(resource.RLIMIT_STACK, (hard, hard))
        except Exception: pass


def run_model(exe, lines, shards=None, timeout=3000):
    """One case line per geometry -> one result line.  Round-robin over `shards` processes;
    the extracted code is not tail recursive, so the stack limit is lifted."""
    n = len(lines)
    if n == 0: return []
    shards = max(1, min(shards or vf.NPROC, n))
    order = sorted(range(n), key=lambda i: -len(lines[i]))        # longest first, dealt round-robin
    buckets = [order[k::shards] for k in range(shards)]

    def one(idx):
        p = subprocess.run([exe], input='\n'.join(lines[i] for i in idx) + '\n', stdout=subprocess.PIPE,
                           stderr=subprocess.PIPE, text=True, timeout=timeout, preexec_fn=_unlimit)
        out = p.stdout.split('\n')
        if out and out[-1] == '': out.pop()
        if p.returncode != 0 or len(out) != len(idx):
            raise RuntimeError('model driver failed (rc %s, %d lines for %d cases): %s' % (p.returncode, len(out), len(idx), p.stderr[-1500:]))
        return out

    with ThreadPoolExecutor(max_workers=shards) as ex:
        outs = list(ex.map(one, buckets))
    res = [None] * n
    for idx, out in zip(buckets, outs):
        for i, o in zip(idx, out): res[i] = o
    return res


class Stats:
    def __init__(self):
        self.dist = collections.Counter()
        self.tot = collections.Counter()
        self.hyp = collections.Counter()


def note_distribution(st, recipe, geo, bm):
    d = st.dist
    d['use:' + recipe.get('use', 'fresh')] += 1
    if any(o[0] == 'convert' for o in recipe.get('ops', [])): d['late:geometry converted before (then edited / converted again)'] += 1
    last = {}
    for j, o in enumerate(recipe.get('ops', [])): last[o[0]] = j
    if 'atm' in last and last['atm'] > last.get('surface', -1): d['late:atmosphere_type assigned on the finished geometry'] += 1
    if 'order' in last and last['order'] > last.get('surface', -1): d['late:block_order assigned on the finished geometry'] += 1
    if sum(1 for o in recipe.get('ops', []) if o[0] == 'surface') > 1: d['late:surfaces reassigned'] += 1
    if ('copy_layers' in last or 'add_layers' in last) and any(getattr(c, 'default_surface', False) for c in geo.columnlist) \
            and any(float(c.surface) != float(geo.layerlist[0].bottom) for c in geo.columnlist if getattr(c, 'default_surface', False)):
        d['late:default-surface columns under a replaced layer structure'] += 1
    d['kind:' + recipe.get('kind', recipe['base'].get('name', recipe['base']['kind']))] += 1
    d['surface-mode:' + recipe.get('mode', '?')] += 1
    d['atmosphere_type:%d' % geo.atmosphere_type] += 1
    d['convention:%d' % geo.convention] += 1
    d['block_order:%s' % geo.block_order] += 1
    d['blockmap:' + ('none' if bm is None else 'empty' if not bm else 'yes')] += 1
    d['permeability_angle:' + ('0' if geo.permeability_angle == 0 else 'nonzero')] += 1
    d['tilted:' + ('yes' if (geo.gdcx or geo.gdcy) else 'no')] += 1
    ops = [o[0] for o in recipe.get('ops', [])]
    for o in ('rotate', 'translate', 'refine', 'refine_layers', 'centres', 'copy_layers', 'add_layers', 'rename_col', 'split', 'move_centre'):
        if o in ops: d['op:' + o] += 1
    # hypotheses of the theorems, measured on the real object
    lays = geo.layerlist
    h = st.hyp
    h['geometries'] += 1
    contiguous = lays[0].top == lays[0].bottom and all(lays[i + 1].top == lays[i].bottom for i in range(len(lays) - 1))
    mono = all(lays[i + 1].bottom <= lays[i].bottom for i in range(len(lays) - 1))
    if contiguous and mono: h['layers_wf (atmosphere layer flat, layers contiguous, bottoms non-increasing)'] += 1
    if all(c.surface > lays[-1].bottom for c in geo.columnlist): h['every surface above the bottom of the last layer'] += 1
    names = [(bm or {}).get(n, n) for n in geo.block_name_list]
    if len(set(names)) == len(names): h['NoDup mapped block names'] += 1
    cn = geo.block_connection_name_list
    if len(set(cn)) == len(cn): h['NoDup connection names'] += 1
    if len(set(l.name for l in lays)) == len(lays) and len(set(c.name for c in geo.columnlist)) == geo.num_columns:
        h['NoDup layer names and column names'] += 1
    conv = geo.convention
    if all(geo.layer_name(L.own_block_name(conv, l.name, c.name)) == l.name and geo.column_name(L.own_block_name(conv, l.name, c.name)) == c.name
           for l in lays[1:] for c in geo.columnlist):
        h['names_decode (every rock layer x column)'] += 1
    if len(lays) > 1: h['at least one rock layer'] += 1
    if all(float(con.node[0].pos[0]) != float(con.node[1].pos[0]) or float(con.node[0].pos[1]) != float(con.node[1].pos[1]) for con in geo.connectionlist):
        h['edges_wf (end points of every shared edge differ)'] += 1
    colset = set(id(c) for c in geo.columnlist)
    if all(id(con.column[0]) in colset and id(con.column[1]) in colset for con in geo.connectionlist):
        h['connection columns are columns of the geometry'] += 1
    if geo.atmosphere_type in (0, 1, 2): h['atmosphere_type in 0..2'] += 1
    if all(abs(float(c.area) - L.shoelace([n.pos for n in c.node], signed=True)) <= 1e-9 * max(1.0, abs(float(c.area))) for c in geo.columnlist):
        h['areas_from_nodes (col.area is polygon_area of the node positions)'] += 1
    pairs = [(con.column[0].name, con.column[1].name) for con in geo.connectionlist]
    if len(set(pairs)) == len(pairs): h['hpairs_distinct (ordered column pairs of the connections differ)'] += 1
    if not (geo.gdcx or geo.gdcy): h['untilted (hypothesis of the dircos theorems only)'] += 1


def sample_of(recipe, geo, bm, grid):
    return {'recipe': {k: (v if k != 'ops' else [o if o[0] != 'surface' else ['surface', '%d explicit elevations' % len(o[1])] for o in v])
                       for k, v in recipe.items() if k != 'blockmap'},
            'blockmap_entries': None if bm is None else len(bm),
            'columns': geo.num_columns, 'layers': geo.num_layers, 'blocks': grid.num_blocks if grid else None,
            'connections': grid.num_connections if grid else None}


def eval_cases(cases, outs, st, keep=False):
    """The implementation side of a list of (recipe, geo, blockmap): fromgeo, comparison with the
    model's result lines `outs` (None: no comparison), oracle.  Pure with respect to ctx: returns
    one small picklable record per case; counters go to `st`."""
    res = []
    for i, (recipe, geo, bm) in enumerate(cases):
        grid, err = L.run_impl(geo, bm, recipe.get('use', 'fresh'))
        sc = L.Scales(geo)
        note_distribution(st, recipe, geo, bm)
        diffs = L.compare(geo, bm, grid, err, L.parse_model(outs[i]), sc) if outs is not None else None
        fails, seen = [], set()

        def fail(k, o, r):
            if k not in seen:
                seen.add(k); fails.append((k, o, r))
        stats = L.oracle(geo, bm, grid, err, sc, fail)
        st.tot.update(stats)
        rec = dict(recipe=recipe, key=json.dumps(recipe, sort_keys=True, default=str), nontrivial=stats['blocks'] > 0,
                   diffs=diffs, fails=fails, sample=sample_of(recipe, geo, bm, grid))
        if keep: rec['keep'] = (geo, bm, grid, err, sc)
        res.append(rec)
    return res


def merge(ctx, res, compared):
    """Fold the per-case records into ctx (in the deterministic order they are given)."""
    for r in res:
        if r['diffs']:
            ctx.disagreement(CORR, {'recipe': r['recipe']}, '; '.join(r['diffs'][:4])[:1500], 'see differences (impl side quoted in the text)')
        ctx.count(r['key'], nontrivial=r['nontrivial'])
        for k, o, rq in r['fails']:
            ctx.failure(ORACLE, k, {'recipe': r['recipe']}, o, rq)
        if len(ctx.samples) < 6: ctx.sample(r['sample'])
    if compared: ctx.corr_cases(CORR, len(res))
    ctx.oracle_cases(ORACLE, len(res))


def model_failed(ctx, label, e):
    ctx.log('model driver failed on batch', label, str(e)[:500])
    ctx.proof_failures.append({'kind': 'harness', 'name': 'model-driver', 'detail': str(e)[:2000]})


def check_batch(ctx, exe, st, cases, label):
    """cases: list of (recipe, geo, blockmap).  Correspondence + oracle on each (in this process)."""
    outs = None
    if exe:
        try: outs = run_model(exe, [L.abstract_line(g, b) for _, g, b in cases])
        except Exception as e: model_failed(ctx, label, repr(e))
    merge(ctx, eval_cases(cases, outs, st), outs is not None)


def shard_worker(args):
    """One shard of the generated sweep, in a forked worker process: its own random stream
    (seed drawn by the parent), its own model process; returns picklable records only."""
    seed, n, big, exe, repo = args
    rng = random.Random(seed)
    st = Stats()
    cases = []
    for _ in range(n):
        try: cases.append(L.gen_recipe(rng, repo=repo, big=big))
        except Exception as e:
            # building a geometry through the public API failed: not this property's subject, but never silent
            st.dist['generator-exception:' + type(e).__name__] += 1
    outs, merr = None, None
    if exe:
        try: outs = run_model(exe, [L.abstract_line(g, b) for _, g, b in cases], shards=1)
        except Exception as e: merr = repr(e)
    return eval_cases(cases, outs, st), (st.dist, st.tot, st.hyp), merr, outs is not None


def generate(ctx, n, st, big=False, kinds=None):
    cases = []
    for _ in range(n):
        kind = ctx.rng.choice(kinds) if kinds else None
        try:
            cases.append(L.gen_recipe(ctx.rng, kind=kind, repo=ctx.repo, big=big))
        except Exception as e:
            # building a geometry through the public API failed: not this property's subject, but never silent
            st.dist['generator-exception:' + type(e).__name__] += 1
    return cases


def shipped_cases(ctx, names, variants):
    """The shipped irregular geometries themselves (large): as shipped, and with varied
    atmosphere type / surfaces / block map (the two giants g2, g4 -- 29 k blocks, 80 k
    connections each -- only as shipped)."""
    cases = []
    for nm in names:
        for v in range(1 if nm in ('g2', 'g4') else variants):
            if v == 0:
                recipe = dict(base=dict(kind='file', name=nm), ops=[], blockmap=None, kind=nm, mode='shipped')
                geo, bm = L.build_geo(recipe, ctx.repo)
                cases.append((recipe, geo, bm))
            else:
                cases.append(L.gen_recipe(ctx.rng, kind=nm, repo=ctx.repo))
    return cases


SHARDS = 4          # logical shards of the generated sweep (fixed: the case set does not depend on VERIF_JOBS)


def sweep(ctx, exe, st, n_small, shipped, variants, per=60):
    """Deterministic in (seed, tier): the shipped cases and one seed per (round, shard) are drawn
    from ctx.rng up front.  Processes: <= 4 sweep workers (each with one model process) + <= 4
    model processes for the shipped geometries."""
    import multiprocessing
    from concurrent.futures import ProcessPoolExecutor
    t0 = time.time()
    big = shipped_cases(ctx, shipped, variants) if shipped else []
    # corpus: recipes of past false alarms / disagreements, always run first
    import glob
    corpus = []
    for f in sorted(glob.glob(os.path.join(vf.VERIF, 'corpus', 'C04', '*.json'))):
        rec = json.load(open(f))['recipe']
        geo, bm = L.build_geo(rec, ctx.repo)
        corpus.append((rec, geo, bm))
    if corpus: check_batch(ctx, exe, st, corpus, 'corpus')
    rounds = []
    left = n_small
    while left > 0:
        k = min(SHARDS * per, left)
        rounds.append([(ctx.rng.getrandbits(62), k // SHARDS + (1 if j < k % SHARDS else 0), ctx.thorough, exe, ctx.repo) for j in range(SHARDS)])
        left -= k
    half = max(1, vf.NPROC // 2)
    procs = ProcessPoolExecutor(max_workers=min(SHARDS, half), mp_context=multiprocessing.get_context('fork'))
    procs.submit(int, 0).result()           # fork the workers before any thread exists in this process
    futs = [[procs.submit(shard_worker, a) for a in r] for r in rounds]
    # the model runs of the large shipped geometries dominate the wall time (one case cannot be
    # sharded): they run in the background on the other half of the cores
    pool = ThreadPoolExecutor(max_workers=1)
    bigfut = pool.submit(run_model, exe, [L.abstract_line(g, b) for _, g, b in big], half) if (big and exe) else None
    bigres = eval_cases(big, None, st, keep=True) if big else []      # meanwhile: fromgeo + oracle on them here
    if big: ctx.log('shipped geometries: oracle on %d cases (%.0fs)' % (len(big), time.time() - t0))
    done = 0
    for r, fr in zip(rounds, futs):
        for f in fr:
            res, (d, t, h), merr, compared = f.result()
            if merr: model_failed(ctx, 'generated', merr)
            merge(ctx, res, compared)
            st.dist.update(d); st.tot.update(t); st.hyp.update(h)
            done += len(res)
        ctx.log('generated geometries checked: %d (%.0fs)' % (done, time.time() - t0))
    procs.shutdown()
    if big:
        outs = None
        if bigfut is not None:
            try: outs = bigfut.result()
            except Exception as e: model_failed(ctx, 'shipped', repr(e))
        for i, rec in enumerate(bigres):
            geo, bm, grid, err, sc = rec.pop('keep')
            if outs is not None: rec['diffs'] = L.compare(geo, bm, grid, err, L.parse_model(outs[i]), sc)
        merge(ctx, bigres, outs is not None)
        ctx.log('shipped geometries: %d cases compared with the model (%.0fs)' % (len(big), time.time() - t0))
    pool.shutdown()


def translate(ctx):
    """Tie T: regenerate the arithmetic kernels from the current source as expression trees."""
    import c04_translate as T
    try:
        src = {f: open(os.path.join(ctx.repo, f)).read() for f in ('mulgrids.py', 't2grids.py', 'geometry.py')}
        import warnings
        with warnings.catch_warnings():
            warnings.simplefilter('ignore')
            text = T.translate(src)
    except T.Refusal as e:
        ctx.refusal('c04_translate', e); return False
    except (SyntaxError, OSError, KeyError) as e:
        ctx.refusal('c04_translate', repr(e)); return False
    ctx.gen('GenKernels', text)
    ctx.extra['translated_kernels'] = text.count('Definition gen_')
    return True


def run(ctx):
    ctx.rule = ('geometries are built through the public mulgrid API from a recorded recipe: rectangular (1..6 x 1..6 x 1..6 blocks quick, up to 9 x 9 x 8 thorough; '
                'uniform/random/geometric spacings, origins up to 1e5, 4 conventions, l/r justification, case, alphabetic character sets, 2-D slices), '
                'the shipped irregular geometries g1..g7 (g7 and one large one in the quick tier, all in the thorough tier), column refinements of both (triangular transition columns) '
                'and layer refinements, then rotated/translated, atmosphere type 0/1/2, block order None/layer_column/dmplex, permeability angle, GDCX/GDCY tilt, '
                'atmosphere volume/connection, layer centres off the mid-point, explicit column surfaces (default; on a layer boundary; above the top layer; thin slivers; inside the bottom layer; sloping), '
                'no block map / empty / partial / total block map; the configuration is also REACHED BY ASSIGNMENT on the finished geometry: atmosphere_type (35 %) and block_order (20 %) set after the surfaces, columns renamed (20 %), surfaces reassigned, the layer structure replaced by copy_layers_from / add_layers with another top elevation under default or file surfaces (30 %); 30 % of the geometries were already converted once and then edited (split_column, column centres assigned) before the conversion under test; the grid under test is a fresh one (60 %), the second one built from the same geometry and block map after the first was written into by its owner (25 %), or a grid object that already held another model (15 %).  A case is distinct by its recipe and non-trivial when the grid has rock blocks.')
    ctx.trusted += ['Coq 8.16.1 kernel (coqc); vm_compute only on closed terms inside Example proofs; no native_compute; Props.v is axiom-free, PropsR.v (the same connection statements read in R with sqrt) uses the stdlib axioms of the classical reals',
                    'tools/props/c04_translate.py (AST -> expression trees; atoms are pinned source text of look-ups) and the evaluator coq/C04/Kx.v with the environments of coq/C04/KernelTie.v (which model quantity each source look-up denotes)',
                    'coq/C04/FromGeo.v: hand transcription of mulgrids.py 790-881, 1381-1455, geometry.line_projection and t2grids.py 282-318, 341-434 (validated on every run by the correspondence, not derived from the source)',
                    'exact rational arithmetic stands for IEEE double arithmetic (difference measured per run: all compared quantities agree to 1e-9 relative + 2e-13 of the cancellation scale)',
                    'extraction: ExtrOcamlBasic + ExtrOcamlString, OCaml 4.13.1, ocaml/main.ml; Base/Wire.v unhex/z_of_str',
                    'tools/props/c04_lib.py: recipe builder, abstract-geometry reader (public attributes of mulgrid/column/layer/connection/node), comparison and oracle']
    ctx.assumptions += ['column and layer names are those the library generates from alphabetic character sets, or those of the shipped files (fix_blockname is then the identity on block names; hypothesis names_decode of the theorems)',
                        'the name lists of the geometry are current (setup_block_name_index / setup_block_connection_name_index called after surfaces change, as the library and its tests do)',
                        'layer objects are identified by their unique names (layerlist.index); connection columns are members of columnlist',
                        'the atmosphere layer has zero thickness and layers are contiguous (identify_layer_tops), every column surface lies above the bottom of the last layer',
                        'column polygons are lists of node positions (column.polygon), for which polygon_area / polygon_centroid do not alias their argument; polygons of fewer than 3 nodes are not modelled for the centroid',
                        'tie T: a column connection joins exactly two columns along an edge with two nodes (comprehensions over con.column / con.node are expanded to two elements); numpy division does not raise (the ZeroDivisionError handler of line_projection is dead); con is a member of connectionlist',
                        'no two column connections join the same ordered pair of columns (hypothesis hpairs_distinct of fromgeo_conns_eq_name_list_derived; measured)',
                        'square roots are outside the model: distances, areas and cosines that involve a norm are carried as coef*sqrt(rad) with rational coef, rad']
    ctx.stage()
    translate(ctx)                   # tie T: Gen/GenKernels.v from the current source (a refusal is recorded; the build then fails closed)
    ok = ctx.coq_build(props=('Props.v', 'PropsT.v', 'PropsR.v'), timeout=1200)
    exe = vf.build_driver(ctx)
    st = Stats()
    seedpick = ['g5', 'g6', 'g1', 'g3'][ctx.seed % 4]
    if ctx.thorough:
        sweep(ctx, exe, st, 2000, ['g2', 'g4', 'g7', 'g1', 'g3', 'g5', 'g6'], 2)
    else:
        sweep(ctx, exe, st, 200, ['g7', seedpick], 1, per=50)
    ctx.extra['input_distribution'] = dict(sorted(st.dist.items()))
    ctx.extra['oracle_totals'] = dict(st.tot)
    ctx.hyp_met = dict(st.hyp)

    def deep(broken):
        rng = random.Random(ctx.seed + 4041)
        ctx.rng = rng
        # bounded by a case count (deterministic), not by the clock
        for _ in range(40 if ctx.thorough else 6):
            if ctx.new_failures: break
            check_batch(ctx, None, st, generate(ctx, 100, st, big=True), 'deep')

    return ctx.finish(deep_search=deep)


def replay(ctx, data):
    inp = data.get('input') or {}
    recipe = inp.get('recipe')
    if recipe is None:
        print('replay: no concrete input recorded'); return True
    geo, bm = L.build_geo(recipe, ctx.repo)
    grid, err = L.run_impl(geo, bm, recipe.get('use', 'fresh'))
    fails = []
    L.oracle(geo, bm, grid, err, L.Scales(geo), lambda k, o, r: fails.append((k, o, r)))
    for k, o, r in fails[:5]: print('replay: %s: observed %s; required %s' % (k, o, r))
    if not fails: print('replay: the property statement holds on this geometry')
    return bool(fails)
