"""C04 translator (T): mulgrids.py / t2grids.py / geometry.py -> Gen/GenKernels.v, via `ast` only
(the modules are never imported here).

What is regenerated from the *current* source on every run: the arithmetic / comparison kernels of

    mulgrid.block_surface, mulgrid.block_volume, mulgrid.block_centre, mulgrid.connection_params,
    geometry.line_projection,
    the loop bodies of t2grid.add_vertical_layer_connections and add_horizontal_layer_connections,
    t2grid.add_atmosphereblocks / add_underground_blocks (what is passed to add_block),
    the vertical-connection loop body of mulgrid.setup_block_connection_name_index,
    and the `col.surface > lay.bottom` filters of the four layer-column comprehensions

as small decision trees (`kt`) over expression trees (`kx`, coq/C04/Kx.v).  A function body is
executed symbolically: local variables are substituted by their defining expressions, an `if`
becomes a node with the rest of the body continued in both branches, `return e` / `continue` /
`self.add_connection(con)` / `self.add_block(blk)` / `....append(x)` are leaves.  Arithmetic,
comparisons, boolean connectives, `is None`, list literals, constant subscripts and the pure
functions min / norm / np.dot / abs / np.argmax / np.array keep their structure; every other
sub-expression (attribute chains, dictionary look-ups, method calls: *which* object a number is
taken from) becomes an atom carrying its canonical source text (`ast.unparse`).  A comprehension
over `con.column` / `con.node` is expanded to its two elements.  The `for` loops themselves (the
iteration order) are not translated: they are the hand model's (tie H).

Coq (coq/C04/KernelTie.v) then proves, for all inputs, that evaluating each generated tree in the
environment that names the model's quantities gives what the hand model FromGeo.v computes.
Fail closed: anything outside this subset raises Refusal."""
import ast, copy
from fractions import Fraction


class Refusal(Exception):
    pass


def where(node):
    return 'line %s' % getattr(node, 'lineno', '?')


TWO = {'con.column': 2, 'con.node': 2}          # a column connection joins two columns along an edge with two nodes
PURE = {'min': 'min', 'norm': 'norm', 'np.linalg.norm': 'norm', 'np.dot': 'dot', 'abs': 'abs',
        'np.argmax': 'argmax', 't2connection': 't2connection', 't2block': 't2block'}
ARITH = (ast.BinOp, ast.UnaryOp, ast.Compare, ast.BoolOp, ast.Constant, ast.List, ast.Tuple)


# ------------------------------------------------------------------ python-level substitution
class Subst(ast.NodeTransformer):
    def __init__(self, env): self.env = env

    def visit_Name(self, n):
        if isinstance(n.ctx, ast.Load) and n.id in self.env: return copy.deepcopy(self.env[n.id])
        return n

    def visit_ListComp(self, n):
        return expand_comp(n, self.env)

    def visit_Subscript(self, n):
        n = self.generic_visit(n)
        # constant subscript of a list literal folds
        if isinstance(n.value, (ast.List, ast.Tuple)) and isinstance(n.slice, ast.Constant) and isinstance(n.slice.value, int) \
                and not isinstance(n.slice.value, bool) and 0 <= n.slice.value < len(n.value.elts):
            return n.value.elts[n.slice.value]
        return n


def expand_comp(n, env):
    if len(n.generators) != 1: raise Refusal('comprehension with %d generators (%s)' % (len(n.generators), where(n)))
    g = n.generators[0]
    if g.ifs or g.is_async or not isinstance(g.target, ast.Name):
        raise Refusal('comprehension with a filter / pattern target (%s)' % where(n))
    it = subst(g.iter, env)
    txt = ast.unparse(it)
    if txt not in TWO: raise Refusal('comprehension over %r: length unknown (%s)' % (txt, where(n)))
    elts = []
    for i in range(TWO[txt]):
        e2 = dict(env)
        e2[g.target.id] = ast.Subscript(value=copy.deepcopy(it), slice=ast.Constant(value=i), ctx=ast.Load())
        elts.append(subst(n.elt, e2))
    return ast.List(elts=elts, ctx=ast.Load())


def subst(node, env):
    return ast.fix_missing_locations(Subst(env).visit(copy.deepcopy(node)))


# ------------------------------------------------------------------ expressions -> kx
def qlit(v):
    fr = Fraction(v) if isinstance(v, int) else Fraction(repr(float(v)))      # the decimal the source shows
    if Fraction(float(fr)) != Fraction(float(v)): raise Refusal('literal %r does not round-trip' % (v,))
    return fr


def coq_str(s):
    if any(ord(ch) > 126 or ord(ch) < 32 for ch in s): raise Refusal('non-printable text in atom %r' % s)
    return '"' + s.replace('"', '""') + '"'


def call_name(f):
    try: return ast.unparse(f)
    except Exception: return None


def kx(n):
    """substituted python expression -> Coq term of type kx (text)"""
    if isinstance(n, ast.Constant):
        v = n.value
        if v is None: return 'KNone'
        if isinstance(v, bool): return 'KAtom %s' % coq_str(repr(v))
        if isinstance(v, int): return 'KInt (%d)' % v
        if isinstance(v, float):
            fr = qlit(v)
            return 'KNum (%d # %d)' % (fr.numerator, fr.denominator)
        raise Refusal('constant %r (%s)' % (v, where(n)))
    if isinstance(n, ast.UnaryOp):
        if isinstance(n.op, ast.USub):
            if isinstance(n.operand, ast.Constant) and isinstance(n.operand.value, (int, float)) and not isinstance(n.operand.value, bool):
                return kx(ast.copy_location(ast.Constant(value=-n.operand.value), n))
            return 'KNeg (%s)' % kx(n.operand)
        if isinstance(n.op, ast.Not): return 'KNot (%s)' % kx(n.operand)
        raise Refusal('unary operator %s (%s)' % (type(n.op).__name__, where(n)))
    if isinstance(n, ast.BinOp):
        ops = {ast.Add: 'KAdd', ast.Sub: 'KSub', ast.Mult: 'KMul', ast.Div: 'KDiv'}
        if type(n.op) not in ops: raise Refusal('binary operator %s (%s)' % (type(n.op).__name__, where(n)))
        return '%s (%s) (%s)' % (ops[type(n.op)], kx(n.left), kx(n.right))
    if isinstance(n, ast.BoolOp):
        k = 'KAnd' if isinstance(n.op, ast.And) else 'KOr'
        out = kx(n.values[-1])
        for v in reversed(n.values[:-1]): out = '%s (%s) (%s)' % (k, kx(v), out)
        return out
    if isinstance(n, ast.Compare):
        parts = []
        left = n.left
        for op, right in zip(n.ops, n.comparators):
            if isinstance(op, (ast.Is, ast.IsNot)):
                if not (isinstance(right, ast.Constant) and right.value is None): raise Refusal('`is` with a non-None operand (%s)' % where(n))
                parts.append('%s (%s)' % ('KIsNone' if isinstance(op, ast.Is) else 'KIsNotNone', kx(left)))
            else:
                ops = {ast.Lt: 'CLt', ast.LtE: 'CLe', ast.Gt: 'CGt', ast.GtE: 'CGe', ast.Eq: 'CEq', ast.NotEq: 'CNe', ast.In: 'CIn'}
                if type(op) not in ops: raise Refusal('comparison %s (%s)' % (type(op).__name__, where(n)))
                parts.append('KCmp %s (%s) (%s)' % (ops[type(op)], kx(left), kx(right)))
            left = right
        out = parts[-1]
        for p in reversed(parts[:-1]): out = 'KAnd (%s) (%s)' % (p, out)
        return out
    if isinstance(n, ast.IfExp):
        return 'KIfE (%s) (%s) (%s)' % (kx(n.test), kx(n.body), kx(n.orelse))
    if isinstance(n, (ast.List, ast.Tuple)):
        return 'KList [%s]' % '; '.join(kx(e) for e in n.elts)
    if isinstance(n, ast.Subscript):
        s = n.slice
        if isinstance(s, ast.Constant) and isinstance(s.value, int) and not isinstance(s.value, bool) and s.value >= 0:
            return 'KIndex (%s) %d' % (kx(n.value), s.value)
        if isinstance(s, ast.Slice) and s.step is None and all(isinstance(b, ast.Constant) and isinstance(b.value, int) and b.value >= 0 for b in (s.lower, s.upper)):
            return 'KSlice (%s) %d %d' % (kx(n.value), s.lower.value, s.upper.value)
        if isinstance(s, ast.Slice) and s.step is None and s.upper is None and s.lower is not None:
            return 'KDrop (%s) (%s)' % (kx(s.lower), kx(n.value))
        return 'KAtom %s' % coq_str(ast.unparse(n))
    if isinstance(n, ast.Call):
        f = call_name(n.func)
        if f == 'np.array':
            if len(n.args) != 1 or n.keywords: raise Refusal('np.array with %d arguments (%s)' % (len(n.args), where(n)))
            return kx(n.args[0])
        if f in PURE:
            args = [kx(a) for a in n.args]
            for kw in sorted(n.keywords, key=lambda k: k.arg or ''):
                if kw.arg is None: raise Refusal('**kwargs (%s)' % where(n))
                args.append('KList [KAtom %s; %s]' % (coq_str(kw.arg + '='), kx(kw.value)))
            return 'KCall %s [%s]' % (coq_str(PURE[f]), '; '.join(args))
        return 'KAtom %s' % coq_str(ast.unparse(n))
    if isinstance(n, (ast.Name, ast.Attribute)):
        return 'KAtom %s' % coq_str(ast.unparse(n))
    raise Refusal('expression %s (%s)' % (type(n).__name__, where(n)))


# ------------------------------------------------------------------ statements -> kt (symbolic execution)
EMIT_CALLS = ('self.add_connection', 'self.add_block', 'self.block_connection_name_list.append')


def is_docstring(st):
    return isinstance(st, ast.Expr) and isinstance(st.value, ast.Constant) and isinstance(st.value.value, str)


def exec_block(stmts, env, rest=()):
    """decision tree (Coq text of type kt) of `stmts` followed by `rest`, under the substitution env"""
    stmts = list(stmts) + list(rest)
    if not stmts: return 'KSkip'
    st, tail = stmts[0], stmts[1:]
    if is_docstring(st) or isinstance(st, ast.ImportFrom): return exec_block(tail, env)
    if isinstance(st, ast.Assign):
        if len(st.targets) != 1: raise Refusal('chained assignment (%s)' % where(st))
        t = st.targets[0]
        e2 = dict(env)
        if isinstance(t, ast.Name):
            e2[t.id] = subst(st.value, env)
        elif isinstance(t, (ast.Tuple, ast.List)) and all(isinstance(x, ast.Name) for x in t.elts):
            rhs = subst(st.value, env)
            for i, x in enumerate(t.elts):
                if isinstance(rhs, (ast.Tuple, ast.List)) and len(rhs.elts) == len(t.elts): e2[x.id] = rhs.elts[i]
                else: e2[x.id] = ast.Subscript(value=copy.deepcopy(rhs), slice=ast.Constant(value=i), ctx=ast.Load())
        else:
            raise Refusal('assignment target %s (%s)' % (type(t).__name__, where(st)))
        return exec_block(tail, e2)
    if isinstance(st, ast.AugAssign):
        if not isinstance(st.target, ast.Name): raise Refusal('augmented assignment target (%s)' % where(st))
        cur = env.get(st.target.id, ast.Name(id=st.target.id, ctx=ast.Load()))
        e2 = dict(env)
        e2[st.target.id] = ast.fix_missing_locations(ast.copy_location(
            ast.BinOp(left=copy.deepcopy(cur), op=st.op, right=subst(st.value, env)), st))
        return exec_block(tail, e2)
    if isinstance(st, ast.If):
        c = kx(subst(st.test, env))
        return 'KIf (%s)\n (%s)\n (%s)' % (c, exec_block(st.body, env, tail), exec_block(st.orelse, env, tail))
    if isinstance(st, ast.Return):
        if st.value is None: raise Refusal('bare return (%s)' % where(st))
        return 'KRet (%s)' % kx(subst(st.value, env))
    if isinstance(st, ast.Continue): return 'KSkip'
    if isinstance(st, ast.For):
        # the loop body is the kernel; the iteration itself belongs to the hand model
        if st.orelse or tail: raise Refusal('statements after / else of the loop (%s)' % where(st))
        if not isinstance(st.target, ast.Name): raise Refusal('loop target (%s)' % where(st))
        e2 = dict(env); e2.pop(st.target.id, None)
        return exec_block(st.body, e2)
    if isinstance(st, ast.Try):
        # geometry.line_projection: numpy division does not raise; the handler is dead for array operands
        if len(st.handlers) != 1 or ast.unparse(st.handlers[0].type) != 'ZeroDivisionError' or st.orelse or st.finalbody:
            raise Refusal('try statement (%s)' % where(st))
        return exec_block(st.body, env, tail)
    if isinstance(st, ast.Expr) and isinstance(st.value, ast.Call):
        f = call_name(st.value.func)
        if f in EMIT_CALLS and len(st.value.args) == 1 and not st.value.keywords:
            if tail: raise Refusal('statements after %s (%s)' % (f, where(st)))
            return 'KEmit (%s)' % kx(subst(st.value.args[0], env))
    raise Refusal('statement %s (%s): %s' % (type(st).__name__, where(st), ast.unparse(st)[:80]))


# ------------------------------------------------------------------ locating the kernels
def find_class(mod, name):
    for n in mod.body:
        if isinstance(n, ast.ClassDef) and n.name == name: return n
    raise Refusal('class %s not found' % name)


def find_def(body, name):
    hits = [n for n in body if isinstance(n, ast.FunctionDef) and n.name == name]
    if len(hits) != 1: raise Refusal('%d definitions of %s' % (len(hits), name))
    return hits[0]


def drop_isinstance(fn):
    """block_centre accepts names for lay/col: `if isinstance(lay, str): lay = self.layer[lay]` (exactly)"""
    body = []
    for st in fn.body:
        if isinstance(st, ast.If) and ast.unparse(st.test).startswith('isinstance('):
            txt = ast.unparse(st)
            if txt not in ('if isinstance(lay, str):\n    lay = self.layer[lay]', 'if isinstance(col, str):\n    col = self.column[col]'):
                raise Refusal('isinstance guard changed: %r' % txt)
            continue
        body.append(st)
    return body


def for_loops(fn):
    return [st for st in fn.body if isinstance(st, ast.For)]


def comp_filter(fn, target='col', seq='columnlist'):
    """the single `if` of the comprehension `[col for col in <...>.columnlist if <cond>]` inside fn"""
    hits = []
    for n in ast.walk(fn):
        if isinstance(n, ast.ListComp) and len(n.generators) == 1:
            g = n.generators[0]
            if isinstance(g.target, ast.Name) and g.target.id == target and ast.unparse(g.iter).endswith('.' + seq) \
                    and isinstance(n.elt, ast.Name) and n.elt.id == target:
                if len(g.ifs) != 1: raise Refusal('%s: comprehension over %s with %d filters' % (fn.name, seq, len(g.ifs)))
                hits.append(g.ifs[0])
    if len(hits) != 1: raise Refusal('%s: %d comprehensions over %s' % (fn.name, len(hits), seq))
    return hits[0]


def fold_kernels(fn, itertext='enumerate(polygon)'):
    """A function that accumulates over `for j, p1 in enumerate(polygon)`: (step tree, epilogue tree, glue).
    step: the loop body executed on free names, returning the list of the augmented names' new values
    (sorted by name); epilogue: the statements after the loop (the `else` branch of `if n < 3` for the
    centroid); glue: the function text with the loop body and docstring removed (pinned as text)."""
    loops = [n for n in ast.walk(fn) if isinstance(n, ast.For)]
    if len(loops) != 1 or ast.unparse(loops[0].iter) != itertext or ast.unparse(loops[0].target) != '(j, p1)':
        raise Refusal('%s: loop header changed' % fn.name)
    loop = loops[0]
    aug = sorted(set(st.target.id for st in loop.body if isinstance(st, ast.AugAssign) and isinstance(st.target, ast.Name)))
    if not aug: raise Refusal('%s: no accumulator' % fn.name)
    ret = ast.Return(value=ast.List(elts=[ast.Name(id=a, ctx=ast.Load()) for a in aug], ctx=ast.Load()))
    step = exec_block(list(loop.body) + [ast.fix_missing_locations(ast.copy_location(ret, loop))], {})
    # statements that follow the loop: in the same block, then in the enclosing blocks up to the function body
    def after(block):
        for i, st in enumerate(block):
            if st is loop: return list(block[i + 1:]), True
            for sub in ('body', 'orelse'):
                if hasattr(st, sub) and isinstance(getattr(st, sub), list) and not isinstance(st, ast.For):
                    r, found = after(getattr(st, sub))
                    if found: return r + list(block[i + 1:]), True
        return [], False
    rest, found = after(fn.body)
    if not found: raise Refusal('%s: loop not found in the body' % fn.name)
    epi = exec_block(rest, {})
    g = copy.deepcopy(fn)
    for n in ast.walk(g):
        if isinstance(n, ast.For): n.body = [ast.Pass()]
    if g.body and is_docstring(g.body[0]): g.body = g.body[1:]
    glue = [l.rstrip() for l in ast.unparse(ast.fix_missing_locations(g)).splitlines()]
    return step, epi, '[' + '; '.join(coq_str(l) for l in glue) + ']', aug


def first_loop(fn):
    """the first `for` of fn, looking into if/elif branches but not into other loops"""
    def look(block):
        for st in block:
            if isinstance(st, ast.For): return st
            if isinstance(st, ast.If):
                r = look(st.body) or look(st.orelse)
                if r is not None: return r
        return None
    r = look(fn.body)
    if r is None: raise Refusal('%s: no loop' % fn.name)
    return r


def iter_kx(fn):
    """which list the (first) loop of fn runs over, as an expression tree; a filtering comprehension is an atom"""
    it = first_loop(fn).iter
    if isinstance(it, ast.ListComp): return 'KAtom %s' % coq_str(ast.unparse(it))
    return kx(it)


def glue_text(fn, leaf_loops=True):
    """the function text without docstring; the bodies of innermost loops (translated as kernels) -> pass"""
    g = copy.deepcopy(fn)
    if g.body and is_docstring(g.body[0]): g.body = g.body[1:]
    if leaf_loops:
        for n in ast.walk(g):
            if isinstance(n, ast.For) and not any(isinstance(m, ast.For) for b in n.body for m in ast.walk(b)):
                n.body = [ast.Pass()]
    lines = [l.rstrip() for l in ast.unparse(ast.fix_missing_locations(g)).splitlines()]
    return '[' + '; '.join(coq_str(l) for l in lines) + ']'


def translate(repo_sources):
    """repo_sources: dict name -> source text for 'mulgrids.py', 't2grids.py', 'geometry.py'.
    Returns the text of Gen/GenKernels.v."""
    mg = find_class(ast.parse(repo_sources['mulgrids.py']), 'mulgrid')
    tg = find_class(ast.parse(repo_sources['t2grids.py']), 't2grid')
    geom = ast.parse(repo_sources['geometry.py'])
    out = {}
    out['gen_block_surface'] = exec_block(find_def(mg.body, 'block_surface').body, {})
    out['gen_block_volume'] = exec_block(find_def(mg.body, 'block_volume').body, {})
    out['gen_block_centre'] = exec_block(drop_isinstance(find_def(mg.body, 'block_centre')), {})
    out['gen_connection_params'] = exec_block(find_def(mg.body, 'connection_params').body, {})
    out['gen_line_projection'] = exec_block(find_def(geom.body, 'line_projection').body, {})
    out['gen_vertical_connection'] = exec_block(find_def(tg.body, 'add_vertical_layer_connections').body, {})
    out['gen_horizontal_connection'] = exec_block(find_def(tg.body, 'add_horizontal_layer_connections').body, {})
    out['gen_atmosphere_blocks'] = exec_block(find_def(tg.body, 'add_atmosphereblocks').body, {})
    out['gen_underground_block'] = exec_block(find_def(tg.body, 'add_underground_blocks').body, {})
    # the geometry's own connection list: the vertical part of each layer's loop body
    sb = find_def(mg.body, 'setup_block_connection_name_index')
    outer = for_loops(sb)
    if len(outer) != 1: raise Refusal('setup_block_connection_name_index: %d top-level loops' % len(outer))
    inner = [st for st in outer[0].body if isinstance(st, ast.For)]
    if len(inner) != 2 or ast.unparse(inner[0].iter) != 'layercols' or ast.unparse(inner[1].iter) != 'cons':
        raise Refusal('setup_block_connection_name_index: loop structure changed')
    out['gen_mul_vertical_name'] = exec_block(inner[0].body, {})
    out['gen_mul_horizontal_name'] = exec_block(inner[1].body, {})
    # the layer-column filters
    filters = [('gen_filter_add_connections', find_def(tg.body, 'add_connections')),
               ('gen_filter_name_list', find_def(mg.body, 'block_name_list_layer_column')),
               ('gen_filter_name_list_dmplex', find_def(mg.body, 'block_name_list_dmplex')),
               ('gen_filter_connection_names', sb)]
    for nm, fn in filters:
        out[nm] = 'KRet (%s)' % kx(comp_filter(fn))
    glue = {}
    for nm in ('polygon_area', 'polygon_centroid'):
        step, epi, g, aug = fold_kernels(find_def(geom.body, nm))
        out['gen_%s_step' % nm] = step
        out['gen_%s_final' % nm] = epi
        glue['gen_%s_glue' % nm] = g
    iters = {'gen_iter_underground_blocks': iter_kx(find_def(tg.body, 'add_underground_blocks')),
             'gen_iter_atmosphere_blocks': iter_kx(find_def(tg.body, 'add_atmosphereblocks')),
             'gen_iter_add_connections': iter_kx(find_def(tg.body, 'add_connections')),
             'gen_iter_vertical': iter_kx(find_def(tg.body, 'add_vertical_layer_connections')),
             'gen_iter_horizontal': iter_kx(find_def(tg.body, 'add_horizontal_layer_connections')),
             'gen_iter_name_list_layers': iter_kx(find_def(mg.body, 'block_name_list_layer_column')),
             'gen_iter_connection_names_layers': iter_kx(sb)}
    for nm, fn, leaf in [('fromgeo', find_def(tg.body, 'fromgeo'), True), ('add_blocks', find_def(tg.body, 'add_blocks'), True),
                         ('add_atmosphereblocks', find_def(tg.body, 'add_atmosphereblocks'), True),
                         ('add_underground_blocks', find_def(tg.body, 'add_underground_blocks'), True),
                         ('add_connections', find_def(tg.body, 'add_connections'), False),
                         ('add_vertical_layer_connections', find_def(tg.body, 'add_vertical_layer_connections'), True),
                         ('add_horizontal_layer_connections', find_def(tg.body, 'add_horizontal_layer_connections'), True),
                         ('setup_block_name_index', find_def(mg.body, 'setup_block_name_index'), False),
                         ('block_name_list_layer_column', find_def(mg.body, 'block_name_list_layer_column'), False),
                         ('block_name_list_dmplex', find_def(mg.body, 'block_name_list_dmplex'), False),
                         ('get_tilt_vector', find_def(mg.body, 'get_tilt_vector'), False),
                         # the setters that keep the announced lists current
                         ('set_atmosphere_type', find_def(mg.body, 'set_atmosphere_type'), False),
                         ('set_convention', find_def(mg.body, 'set_convention'), False),
                         ('set_block_order', find_def(mg.body, 'set_block_order'), False),
                         ('copy_layers_from', find_def(mg.body, 'copy_layers_from'), False),
                         ('setup_block_connection_name_index', sb, True)]:
        glue['gen_glue_' + nm] = glue_text(fn, leaf)
    lines = ['(* generated by tools/props/c04_translate.py from the current mulgrids.py / t2grids.py / geometry.py: do not edit *)',
             'From Coq Require Import String List ZArith QArith.',
             'From P Require Import Kx.',
             'Import ListNotations.',
             'Open Scope string_scope.',
             'Open Scope Q_scope.', '']
    for nm in sorted(out):
        lines.append('Definition %s : kt :=\n %s.\n' % (nm, out[nm]))
    for nm in sorted(iters):
        lines.append('Definition %s : kx :=\n %s.\n' % (nm, iters[nm]))
    for nm in sorted(glue):
        lines.append('Definition %s : list string :=\n %s.\n' % (nm, glue[nm]))
    return '\n'.join(lines)


if __name__ == '__main__':
    import sys, os
    repo = sys.argv[1] if len(sys.argv) > 1 else '/repo'
    print(translate({f: open(os.path.join(repo, f)).read() for f in ('mulgrids.py', 't2grids.py', 'geometry.py')}))
