"""C13 -- initial-conditions file write/read round trip preserves every block's state.

tie: T (t2incon_format_specification regenerated from the AST on every run; fix_blockname /
unfix_blockname / valid_blockname / padstring translated from the AST and proved equal to the
typed reference model) + H (coq/C13/InconIO.v: hand model of t2incon.read / write over
Base/FixedFormat.v, run extracted against the implementation on generated objects, on their
files, on perturbed files and on the 7 shipped files)."""
import os, sys, math, tempfile, shutil, signal, json, glob, subprocess
from concurrent.futures import ThreadPoolExecutor
import vf
from translate import tables, pyfun
from props import c13_oracle as orc

SHIPPED = [('AUTOUGH2/1/case1.incon', None), ('AUTOUGH2/2/case2.incon', None), ('AUTOUGH2/3/case3.incon', None),
           ('TOUGH2/1/case1.incon', None), ('TOUGH2/2/INCON', 6), ('TOUGH2/3/test.incon', None), ('TOUGHREACT/1/SAVE_1', None)]
SHARDS = max(1, min(8, vf.NPROC))
LAYOUTS = ['header_short', 'header_long', 'incon1', 'incon1_toughreact', 'incon2', 'timing', 'timing_toughreact']


# ---------------------------------------------------------------- wire encoding (see coq/C13/Drv.v)
def enc_num(v):
    if v is None: return 'N'
    v = float(v)
    if v != v: return 'NAN'
    if v in (math.inf, -math.inf): return 'INF:%d' % (v < 0)
    neg = math.copysign(1.0, v) < 0
    if v == 0: return 'R:%d:0:0' % neg
    n, d = abs(v).as_integer_ratio()
    e = 0
    if d > 1: e = -(d.bit_length() - 1)
    else:
        while n % 2 == 0: n //= 2; e += 1
    return 'R:%d:%d:%d' % (neg, n, e)


def enc_int(v):
    if v is None: return 'N'
    return 'I:%d' % v


def enc_obj(sim, timing, blocks):
    toks = ['TR' if sim == 'TOUGHREACT' else 'T2']
    if timing is None: toks.append('-')
    else: toks.append(','.join([enc_int(timing.get('kcyc')), enc_int(timing.get('iter')), enc_int(timing.get('nm')),
                                enc_num(timing.get('tstart')), enc_num(timing.get('sumtim'))]))
    for b in blocks:
        perm = '-' if b['perm'] is None else ','.join(enc_num(k) for k in b['perm'])
        toks.append(';'.join([vf.hexs(b['name']), enc_int(b['nseq']), enc_int(b['nadd']), enc_num(b['porosity']), perm,
                              ','.join(enc_num(v) for v in b['vars'])]))
    return toks


def enc_snapshot(s):
    """canonical dump of what the implementation read; anything outside the modelled types is marked"""
    for b in s['blocks']:
        for v in (b['nseq'], b['nadd']):
            if v is not None and (isinstance(v, bool) or not isinstance(v, int)): return ['?type']
        for v in [b['porosity']] + list(b['vars']) + list(b['perm'] or []):
            if v is not None and not isinstance(v, float): return ['?type']
    return enc_obj(s['sim'], s['timing'], s['blocks'])


def nvtok(nv): return '-' if nv is None else str(nv)


def impl_read(path, nv, check, limit=2):
    """t2incon(filename, ...) -> ('OK', tokens, object) | ('RAISE', class) | ('HANG',)  (guard: c13_oracle.guarded)"""
    from t2incons import t2incon

    def go():
        inc = t2incon(path, num_variables=nv, check_blocknames=check)
        return (enc_snapshot(orc.snapshot(inc)), inc)
    r = orc.guarded(go, limit)
    if r[0] == 'OK': return ('OK', r[1][0], r[1][1])
    if r[0] == 'RAISE': return ('RAISE', type(r[1]).__name__)
    return ('HANG',)


EXN = {'Exception': 'Exception'}


def model_result(line):
    if line.startswith('OK\t'): return ('OK', line.split('\t')[1:])
    if line == 'OK': return ('OK', [''])
    if line.startswith('RAISE '): return ('RAISE', line[6:])
    return ('?', line)


def _run_one(exe, lines, timeout):
    if not lines: return []
    p = subprocess.run(['bash', '-c', 'ulimit -s unlimited 2>/dev/null || ulimit -s $(ulimit -Hs); exec "$0"', exe],
                       input=('\n'.join(lines) + '\n').encode('latin-1'), stdout=subprocess.PIPE, stderr=subprocess.PIPE, timeout=timeout)
    if p.returncode != 0: raise RuntimeError('model driver failed: ' + p.stderr.decode('latin-1')[-2000:])
    out = p.stdout.decode('latin-1').split('\n')
    if out and out[-1] == '': out.pop()
    if len(out) != len(lines): raise RuntimeError('model driver returned %d lines for %d cases' % (len(out), len(lines)))
    return out


def run_model(exe, lines, shards=None, timeout=7200):
    """The extracted model on case lines.  Own runner (vf.run_driver is not used): the stack limit is lifted (extracted
    stdlib list functions are not tail-recursive; whole shipped files are single cases), bytes are latin-1, and the cases
    are dealt round-robin to `shards` processes (results re-assembled in order)."""
    shards = max(1, min(shards or SHARDS, len(lines)))
    if shards == 1: return _run_one(exe, lines, timeout)
    with ThreadPoolExecutor(max_workers=shards) as ex:
        outs = list(ex.map(lambda k: _run_one(exe, lines[k::shards], timeout), range(shards)))
    res = [None] * len(lines)
    for k, o in enumerate(outs): res[k::shards] = o
    return res


def lap(ctx, msg):
    """progress line with the CPU time used so far (own + finished children): the machine may be shared"""
    t = os.times()
    ctx.log('%s  [cpu %.0fs]' % (msg, t.user + t.system + t.children_user + t.children_system))


def esc(t): return t.replace('\t', '\x01').replace('\n', '\x02')
def unesc(t): return t.replace('\x01', '\t').replace('\x02', '\n')


def read_case(nv, check, text):
    """model read of a file text: escaped transport (linear in the model), hex when the escape characters occur"""
    if '\x01' in text or '\x02' in text or '\r' in text:
        return '\t'.join(['R', nvtok(nv), '1' if check else '0', vf.hexs(text)])
    return '\t'.join(['T', nvtok(nv), '1' if check else '0', esc(text)])


def write_case(reset, toks): return '\t'.join(['V', '1' if reset else '0'] + toks)


def written_text(m):
    """('OK', text) | ('RAISE',) from a model V result"""
    return ('OK', unesc(m[1][0])) if m[0] == 'OK' else ('RAISE',)


def read_text(path):
    """the characters readline() delivers (universal newlines)"""
    with open(path, 'r') as f: return f.read()


# ---------------------------------------------------------------- translation
def translate(ctx):
    ok = True
    try:
        text, tabs = tables.gen_format_tables(ctx.repo)
        ctx.gen('GenTables', text)
        t2i = dict(tabs)['t2incon_format']
        missing = [r for r in LAYOUTS if r not in t2i]
        if missing:
            ctx.refusal('tables(t2incon_format_specification)', 'record kind(s) %s are missing from the table' % missing)
            ok = False
    except tables.Refusal as e:
        ctx.refusal('tables(format specifications)', e); ok = False
    try:
        t = pyfun.Translator(os.path.join(ctx.repo, 'mulgrids.py'))
        for f in ('padstring', 'fix_blockname', 'unfix_blockname', 'valid_blockname'): t.translate(f)
        ctx.gen('GenNames', pyfun.HEADER + t.text())
    except pyfun.Refusal as e:
        ctx.refusal('pyfun(padstring, fix_blockname, unfix_blockname, valid_blockname)', e); ok = False
    except SyntaxError as e:
        ctx.refusal('pyfun(mulgrids.py)', e); ok = False
    # the default length of padstring(s, length = 80): t2incon.read calls padstring(line) with the default
    try:
        import ast
        tree = ast.parse(open(os.path.join(ctx.repo, 'mulgrids.py')).read())
        fn = [n for n in tree.body if isinstance(n, ast.FunctionDef) and n.name == 'padstring']
        a = fn[0].args if len(fn) == 1 else None
        if a is None or [x.arg for x in a.args] != ['s', 'length'] or len(a.defaults) != 1 or a.vararg or a.kwarg or a.kwonlyargs or \
           not isinstance(a.defaults[0], ast.Constant) or type(a.defaults[0].value) is not int or a.defaults[0].value < 0:
            ctx.refusal('padstring default length', 'expected exactly one top-level def padstring(s, length = <non-negative int literal>)'); ok = False
        else:
            ctx.gen('GenPad', '(* GENERATED from mulgrids.padstring (default argument) -- do not edit *)\nFrom Coq Require Import ZArith.\n'
                              'Definition padstring_default_length : Z := %d%%Z.\n' % a.defaults[0].value)
        # t2incon.read must call padstring with the default length (one argument)
        t2 = ast.parse(open(os.path.join(ctx.repo, 't2incons.py')).read())
        calls = [n for n in ast.walk(t2) if isinstance(n, ast.Call) and isinstance(n.func, ast.Name) and n.func.id == 'padstring']
        if not calls or any(len(c.args) != 1 or c.keywords for c in calls):
            ctx.refusal('padstring calls in t2incons.py', 'expected padstring(line) with the default length only'); ok = False
        # does t2incon.read() set the flavour back before reading?  (statement `self.simulator = 'TOUGH2'` at the top level
        # of read(), before the loop; every other assignment to self.simulator in read() must be the literal 'TOUGHREACT')
        cls = [n for n in t2.body if isinstance(n, ast.ClassDef) and n.name == 't2incon']
        rd = [n for n in (cls[0].body if len(cls) == 1 else []) if isinstance(n, ast.FunctionDef) and n.name == 'read']
        if len(rd) != 1:
            ctx.refusal('t2incon.read', 'expected exactly one class t2incon with one method read'); ok = False
        else:
            def sim_assign(n):
                return isinstance(n, ast.Assign) and len(n.targets) == 1 and isinstance(n.targets[0], ast.Attribute) and \
                    isinstance(n.targets[0].value, ast.Name) and n.targets[0].value.id == 'self' and n.targets[0].attr == 'simulator'
            top, resets, seen_loop = rd[0].body, False, False
            for n in top:
                if isinstance(n, (ast.While, ast.For)): seen_loop = True
                if sim_assign(n):
                    if seen_loop or not (isinstance(n.value, ast.Constant) and n.value.value == 'TOUGH2'):
                        ctx.refusal('t2incon.read', 'unexpected top-level assignment to self.simulator (line %d)' % n.lineno); ok = False
                    resets = True
            inner = [n for n in ast.walk(rd[0]) if sim_assign(n) and n not in top]
            if any(not (isinstance(n.value, ast.Constant) and n.value.value == 'TOUGHREACT') for n in inner) or len(inner) != 1:
                ctx.refusal('t2incon.read', 'expected exactly one nested assignment self.simulator = \'TOUGHREACT\''); ok = False
            ctx.gen('GenRead', '(* GENERATED from t2incon.read -- do not edit *)\nDefinition read_resets_flavour : bool := %s.\n' % ('true' if resets else 'false'))
    except (OSError, SyntaxError) as e:
        ctx.refusal('padstring default length / t2incon.read', e); ok = False
    return ok


# ---------------------------------------------------------------- generators for the correspondence
def odd_names(rng, n):
    """names outside the naming conventions: unfixed digit-blank-digit, zero-padded, punctuation, wrong length, ..."""
    pool = ['AB1 5', 'AB105', 'ABC05', 'AB100', 'AB1 0', '12345', '1 3 5', '  1 2', 'a1 b2', '+++ 1', '++  1', '     ', '    1', 'x\ty 1',
            'AB 1', 'ABCD 1', 'A!# 7', '~~~99', 'ab  c', 'abcde', ' at 0', '00000', '99 99', 'AB1\n5'[:5], 'abc\n1'[:5], 'qq9 9', 'Zz0 0']
    out = []
    while len(out) < n:
        nm = rng.choice(pool) if rng.random() < 0.7 else ''.join(rng.choice('AB ab019+!~') for _ in range(rng.choice([5, 5, 5, 4, 6])))
        if nm not in out: out.append(nm)
    return out


def gen_corr_desc(rng, thorough):
    """objects for the model-vs-implementation runs: the oracle's generator plus objects outside the
    property's quantifier (odd names, over-wide integers, TOUGH2 objects carrying permeabilities, absent
    values among the variables, blocks of different lengths, ...)"""
    d = orc.gen_desc(rng, thorough)
    r = rng.random()
    if r < 0.25 and d['blocks']:
        for b, nm in zip(d['blocks'], odd_names(rng, len(d['blocks']))): b['name'] = nm
        d['check'] = rng.random() < 0.5
    elif r < 0.32 and d['blocks']:
        b = rng.choice(d['blocks']); b['nseq'] = rng.choice([100000, -10000, 123456]); b['nadd'] = rng.choice([None, 7])
    elif r < 0.38 and d['blocks']:
        d['sim'] = 'TOUGH2'; rng.choice(d['blocks'])['perm'] = [1e-13, 2e-13, 3e-13]
    elif r < 0.42 and d['blocks']:
        b = rng.choice(d['blocks']); b['vars'] = b['vars'][:rng.randint(0, len(b['vars']))]
    elif r < 0.46 and d['timing'] is not None:
        d['timing'][rng.choice(['kcyc', 'iter', 'nm'])] = rng.choice([None, 1234567, -5])
        if rng.random() < 0.3: d['timing']['sumtim'] = None
    elif r < 0.50 and d['blocks']:
        b = rng.choice(d['blocks']); b['vars'][rng.randrange(len(b['vars']))] = rng.choice([-1.5e-310, 4.9e-324, 1.7976931348623157e308, -2.2250738585072014e-308])
    if rng.random() < 0.05: d['nv'] = rng.choice([None, 0, 1, 3, 4, 5, 13])   # too large a number: the reader never returns (a few cases only)
    return d


def perturb(rng, text):
    """a damaged copy of a written file (always ending in a blank line so that no reader can run off the end)"""
    lines = text.split('\n')
    k = rng.randrange(7)
    if not lines: return text
    i = rng.randrange(len(lines))
    if k == 0 and lines[i]: j = rng.randrange(len(lines[i])); lines[i] = lines[i][:j] + lines[i][j + 1:]
    elif k == 1: j = rng.randint(0, len(lines[i])); lines[i] = lines[i][:j] + rng.choice(' *x-+5.E\t') + lines[i][j:]
    elif k == 2: lines[i] = lines[i][:rng.randint(0, len(lines[i]))]
    elif k == 3: del lines[i]
    elif k == 4: lines.insert(i, rng.choice(['', '   ', '+++', 'AB1 5', ' 1.0 2.0', ' 1.0000000000000e+0130000000000 2.0', 'AB1 5          1e-013000000000']))
    elif k == 5 and lines[i]: j = rng.randrange(len(lines[i])); lines[i] = lines[i][:j] + rng.choice('0123456789 ') + lines[i][j + 1:]
    else: lines[i] = lines[i].upper().replace('E+', rng.choice(['+', 'D+', 'E+'])).replace('E-', rng.choice(['-', 'D-', 'E-']))
    return '\n'.join(lines) + '\n\n'


# ---------------------------------------------------------------- correspondence
def model_chain(exe, path, nv, resets):
    """model side of a shipped file (runs in a worker thread): model read, then model write of what it read"""
    m = model_result(run_model(exe, [read_case(nv, True, read_text(path))], shards=1)[0])
    ws = {}
    if m[0] == 'OK':
        for reset, mo in zip(resets, run_model(exe, [write_case(r, m[1]) for r in resets], shards=len(resets))):
            ws[reset] = written_text(model_result(mo))
    return m, ws


def used_read(tmpdir, flavour, path, nv, check):
    """inc.read(path) on an object that already held a file of the given flavour -> tokens of the object afterwards"""
    used = orc.used_object(tmpdir, flavour)
    used.read(path, nv, check)
    return enc_snapshot(orc.snapshot(used))


def same_read(im, m):
    return not (im[0] != m[0] or (im[0] == 'OK' and im[1] != m[1]) or (im[0] == 'RAISE' and im[1] != m[1]))


def correspond(ctx, exe, n_objects, n_oracle, n_inst):
    rng = ctx.rng
    tmpdir = tempfile.mkdtemp(prefix='c13c_')
    pool = ThreadPoolExecutor(max_workers=3)
    try:
        # shipped files: the model side of the three large ones runs in the background from the start
        ship = []
        for rel, nv in SHIPPED:
            p = os.path.join(ctx.repo, 'tests', 'incon', rel)
            if not os.path.exists(p):
                ctx.disagreement('shipped-files', {'file': rel}, 'n/a', 'file is missing'); continue
            big = os.path.getsize(p) > 500000
            resets = (False,) if big else (False, True)
            ship.append((rel, nv, p, resets, pool.submit(model_chain, exe, p, nv, resets)))
        shards = max(1, SHARDS - 2)
        fixed = orc.fixed_cases()
        descs = fixed + [orc.gen_desc(rng, ctx.thorough) for _ in range(n_oracle - len(fixed))] + \
                [gen_corr_desc(rng, ctx.thorough) for _ in range(n_objects - n_oracle)]
        oracle_descs = descs[:n_oracle]
        f1 = os.path.join(tmpdir, 'a.incon'); f2 = os.path.join(tmpdir, 'b.incon'); f3 = os.path.join(tmpdir, 'c.incon')
        wl, rl, cl, w2l, wl_b, impl_wb, ul = [], [], [], [], [], [], []
        n_used = 600 if ctx.thorough else 150
        nobj = 0
        nhang = 0
        impl_w, impl_r, impl_w2, ptexts = [], [], [], []
        for k, d in enumerate(descs):
            toks = enc_obj(d['sim'], d['timing'], d['blocks'])
            wl.append(write_case(d['reset'], toks))
            if k < n_inst or n_oracle <= k < n_oracle + n_inst // 3:
                cl.append((k, '\t'.join(['C', nvtok(d['nv']), '1' if d['check'] else '0', '1' if d['reset'] else '0'] + toks)))
            wl_b.append(write_case(not d['reset'], toks))
            try:
                obj = orc.build(d)
                obj.write(f1, reset=d['reset'])
                text = open(f1, newline='').read()
                impl_w.append(('OK', text))
            except Exception as e:
                impl_w.append(('RAISE', type(e).__name__)); impl_r.append(None); impl_w2.append(None); ptexts.append(None); impl_wb.append(None)
                continue
            # a further write on the SAME object with the other flag, and the object after the two writes: the model's
            # write is a function of (flag, object) and has no effect on the object
            try:
                obj.write(f3, reset=not d['reset'])
                impl_wb.append(('OK', open(f3, newline='').read()))
            except Exception as e:
                impl_wb.append(('RAISE', type(e).__name__))
            after = enc_snapshot(orc.snapshot(obj))
            if after != ['?type'] and enc_snapshot(orc.snapshot(orc.build(d))) != ['?type']:
                nobj += 1
                if after != enc_snapshot(orc.snapshot(orc.build(d))):
                    k2 = next((i for i, (a, b) in enumerate(zip(after, enc_snapshot(orc.snapshot(orc.build(d))))) if a != b), -1)
                    ctx.disagreement('object-after-writes(model: unchanged)', orc.desc_to_json(d), 'unchanged', 'token %d: %r' % (k2, after[k2] if k2 >= 0 else len(after)))
            r = impl_read(f1, d['nv'], d['check'], limit=1)
            impl_r.append(r)
            nhang += r[0] == 'HANG'
            rl.append((len(impl_r) - 1, read_case(d['nv'], d['check'], read_text(f1))))
            if r[0] == 'OK':
                try:
                    r[2].write(f2, reset=d['reset'])
                    impl_w2.append(('OK', open(f2, newline='').read()))
                except Exception as e:
                    impl_w2.append(('RAISE', type(e).__name__))
            else: impl_w2.append(None)
            ptexts.append(text)
            if r[0] == 'OK' and k < n_used:
                for flavour in ('TOUGH2', 'TOUGHREACT'):
                    ru = orc.guarded(lambda: used_read(tmpdir, flavour, f1, d['nv'], d['check']), limit=2)
                    ul.append(('\t'.join(['U', '1' if flavour == 'TOUGHREACT' else '0', nvtok(d['nv']), '1' if d['check'] else '0', esc(read_text(f1))]),
                               k, flavour, ('OK', ru[1]) if ru[0] == 'OK' else (ru[0], type(ru[1]).__name__ if ru[0] == 'RAISE' else '')))
            if nhang > max(30, n_objects // 25):
                ctx.log('the reader did not return on %d of the first %d objects: remaining objects are not run' % (nhang, k + 1))
                descs = descs[:k + 1]
                break
        lap(ctx, 'implementation: %d objects written / read / rewritten' % len(descs))
        # model writes
        for d, mo, im in zip(descs, run_model(exe, wl, shards), impl_w):
            m = written_text(model_result(mo))
            if (m[0] == 'OK') != (im[0] == 'OK') or (m[0] == 'OK' and m[1] != im[1]):
                ctx.disagreement('model-write-vs-t2incon.write', orc.desc_to_json(d), repr(m)[:600], repr(im)[:600])
        ctx.corr_cases('model-write-vs-t2incon.write', len(descs), implementation_raised=sum(1 for x in impl_w if x[0] != 'OK'))
        for d, mo, im in zip(descs, run_model(exe, wl_b[:len(impl_wb)], shards), impl_wb):
            if im is None: continue
            m = written_text(model_result(mo))
            if (m[0] == 'OK') != (im[0] == 'OK') or (m[0] == 'OK' and m[1] != im[1]):
                ctx.disagreement('model-write-vs-second-write-on-same-object', orc.desc_to_json(d), repr(m)[:600], repr(im)[:600])
        ctx.corr_cases('model-write-vs-second-write-on-same-object', sum(1 for x in impl_wb if x is not None))
        ctx.corr_cases('object-after-writes(model: unchanged)', nobj)
        lap(ctx, 'model writes done')
        # model reads of the implementation's files
        mouts = run_model(exe, [l for _, l in rl], shards)
        nread = nnan = 0
        for (idx, _), mo in zip(rl, mouts):
            d, im = descs[idx], impl_r[idx]
            m = model_result(mo)
            nread += 1
            if im[0] == 'HANG':
                if not (m[0] == 'RAISE' and m[1] == 'OutOfFuel'):
                    ctx.disagreement('model-read-vs-t2incon(filename)', orc.desc_to_json(d), repr(m)[:600], 'does not terminate')
            elif not same_read(im, m):
                ctx.disagreement('model-read-vs-t2incon(filename)', orc.desc_to_json(d), repr(m)[:600], repr(im[:2])[:600])
            # second write: model write of what the model read vs implementation write of what it read
            if im[0] == 'OK' and m[0] == 'OK' and impl_w2[idx] is not None:
                if any('NAN' in t or 'INF' in t for t in m[1]): nnan += 1      # nan / inf are outside the model of %-formatting
                else: w2l.append((idx, write_case(d['reset'], m[1])))
        ctx.corr_cases('model-read-vs-t2incon(filename)', nread)
        for (idx, _), mo in zip(w2l, run_model(exe, [l for _, l in w2l], shards)):
            m = written_text(model_result(mo)); im = impl_w2[idx]
            if (m[0] == 'OK') != (im[0] == 'OK') or (m[0] == 'OK' and m[1] != im[1]):
                ctx.disagreement('model-rewrite-vs-implementation-rewrite', orc.desc_to_json(descs[idx]), repr(m)[:600], repr(im)[:600])
        ctx.corr_cases('model-rewrite-vs-implementation-rewrite', len(w2l), skipped_object_holds_nan_or_inf=nnan)
        # .read(filename) on an object that held another file: the model keeps the flavour of that object and nothing else
        for (line, k, flavour, im), mo in zip(ul, run_model(exe, [u[0] for u in ul], shards)):
            m = model_result(mo)
            if im[0] == 'HANG': ok = m[0] == 'RAISE' and m[1] == 'OutOfFuel'
            else: ok = (im[0] == m[0]) and im[1] == m[1]
            if not ok:
                ctx.disagreement('model-read-into-used-object-vs-inc.read(filename)', dict(orc.desc_to_json(descs[k]), used_object=flavour), repr(m)[:600], repr(im)[:600])
        ctx.corr_cases('model-read-into-used-object-vs-inc.read(filename)', len(ul))
        lap(ctx, 'model reads and rewrites done')
        # hypotheses and theorem instances, evaluated by the extracted model
        nwf = nidh = nq = nqwf = nfit = nqfit = nst = nqst = 0
        for (k, _), mo in zip(cl, run_model(exe, [l for _, l in cl], shards)):
            d = descs[k]
            fl = dict(kv.split('=') for kv in mo.split(' ')) if '=' in mo else {}
            if not fl:
                ctx.disagreement('theorem-instances(model)', orc.desc_to_json(d), mo, 'flags'); continue
            nq += k < n_oracle
            nfit += fl['wff'] == '1'; nqfit += fl['wff'] == '1' and k < n_oracle
            if fl['wff'] == '1' and fl['wf'] != '1':
                ctx.disagreement('theorem-instances(model)', orc.desc_to_json(d), mo, 'wf_fits implies wf (fit_implies_readback)')
            if fl['wf'] == '1':
                nwf += 1; nqwf += k < n_oracle
                if fl['rw'] != '1':
                    ctx.disagreement('theorem-instances(model)', orc.desc_to_json(d), mo, 'wf implies read(write i) = canon i')
                if fl['idh'] == '1':
                    nidh += 1
                    if fl['idem'] != '1':
                        ctx.disagreement('theorem-instances(model)', orc.desc_to_json(d), mo, 'wf and idem hypotheses imply write(canon i) = write i')
            if fl['wff'] == '1' and fl['st'] == '1':
                nst += 1; nqst += k < n_oracle
                if fl['idh'] != '1' or fl['idem'] != '1':
                    ctx.disagreement('theorem-instances(model)', orc.desc_to_json(d), mo, 'wf_fits and stable_hyp imply idem_hyp and write(canon i) = write i (incon_write_idem)')
        ctx.corr_cases('theorem-instances(model)', len(cl), wf_fits_met=nfit, wf_met=nwf, wf_and_idem_hyps_met=nidh, within_quantifier=nq, within_quantifier_wf_fits_met=nqfit, within_quantifier_wf_met=nqwf, wf_fits_and_stable_met=nst, within_quantifier_wf_fits_and_stable_met=nqst)
        ctx.hyp_met['incon_read_write: wf_fits (generated objects within the property quantifier)'] = '%d of %d' % (nqfit, nq)
        ctx.hyp_met['incon_write_idem: wf_fits and stable_hyp (generated objects within the property quantifier)'] = '%d of %d' % (nqst, nq)
        if nqfit * 4 < nq:
            ctx.proof_failures.append({'kind': 'finite', 'name': 'incon_read_write (hypothesis wf_fits is met by %d of %d generated objects)' % (nqfit, nq),
                                       'detail': 'the theorem has become (nearly) vacuous on the objects of the property quantifier'})
        lap(ctx, 'theorem instances done')
        # perturbed files
        pl, pidx = [], []
        texts = [t for t in ptexts if t]
        nper = min(len(texts), 300 if ctx.thorough else 100)
        for text in rng.sample(texts, nper):
            for _ in range(3):
                t = perturb(rng, text)
                nv = rng.choice([None, None, 1, 5])
                ck = rng.random() < 0.7
                pl.append(read_case(nv, ck, t)); pidx.append((t, nv, ck))
        for (t, nv, ck), mo in zip(pidx, run_model(exe, pl, shards)):
            m = model_result(mo)
            if m[0] == 'RAISE' and m[1] == 'OutOfFuel': continue     # the code would not terminate: not run
            with open(f1, 'w', newline='') as f: f.write(t)
            im = impl_read(f1, nv, ck, limit=3)
            if not same_read(im, m):
                ctx.disagreement('model-read-vs-t2incon(perturbed file)', {'text': t, 'num_variables': nv, 'check_blocknames': ck}, repr(m)[:600], repr(im[:2])[:600])
        ctx.corr_cases('model-read-vs-t2incon(perturbed file)', len(pl))
        lap(ctx, 'perturbed files done')
        # shipped files: implementation side, compared with the model results computed in the background
        nship = 0
        for rel, nv, p, resets, fut in ship:
            im = impl_read(p, nv, True, limit=300)
            m, ws = fut.result()
            nship += 1
            if not same_read(im, m):
                k = next((i for i, (a, b) in enumerate(zip(m[1], im[1])) if a != b), -1) if im[0] == m[0] == 'OK' else -1
                ctx.disagreement('shipped-files', {'file': rel, 'first_difference_at_token': k}, repr(m[1][k] if k >= 0 else m)[:300], repr(im[1][k] if k >= 0 else im[:2])[:300])
            elif im[0] == 'OK':
                for reset in resets:
                    im[2].write(f2, reset=reset)
                    nship += 1
                    if ws.get(reset) != ('OK', open(f2, newline='').read()):
                        ctx.disagreement('shipped-files', {'file': rel, 'rewrite_reset': reset}, 'model write of the model-read object differs', 'implementation write')
        ctx.corr_cases('shipped-files', nship, files=len(ship))
        lap(ctx, 'shipped files done')
        return oracle_descs
    finally:
        pool.shutdown(wait=True)
        shutil.rmtree(tmpdir, ignore_errors=True)


def correspond_strtod(ctx, exe):
    """the strtod model (Num.v nearest) against float() on decimal texts"""
    rng = ctx.rng
    texts = ['0', '-0.0', '1e-400', '1e400', '4.9e-324', '2.4703282292062327e-324', '2.4703282292062328e-324', '1.7976931348623157e308',
             '1.7976931348623158e308', '1.7976931348623159e308', '2.2250738585072014e-308', '2.2250738585072011e-308', '9007199254740993',
             '9007199254740992.5', '0.1', '1.0000000000000002', '1.00000000000000011102230246251565404236316680908203125', '5e-324', '3e-324',
             '1e+013000000000', '0e+013000000000', '5e-13000000000', '1e401', '123e-402', '1e-401']
    for _ in range(20000 if ctx.thorough else 3000):
        nd = rng.choice([1, 5, 10, 14, 15, 16, 17, 20])
        texts.append('%s%d.%se%d' % (rng.choice(['', '-']), rng.randint(0, 9), ''.join(rng.choice('0123456789') for _ in range(nd)), rng.choice([0, rng.randint(-30, 30), rng.randint(-330, 310)])))
    out = run_model(exe, ['N\t' + vf.hexs(t) for t in texts])
    for t, mo in zip(texts, out):
        if mo != enc_num(float(t)): ctx.disagreement('strtod-model-vs-float()', {'text': t}, mo, enc_num(float(t)))
    ctx.corr_cases('strtod-model-vs-float()', len(texts))


# ---------------------------------------------------------------- oracle sweep
def known_witnesses():
    w1 = {'sim': 'TOUGHREACT', 'reset': False, 'nv': 2, 'check': True,
          'timing': {'kcyc': 11100, 'iter': 40102, 'nm': 1, 'tstart': 0.0, 'sumtim': 52710.494},
          'blocks': [{'name': 'AAA 1', 'nseq': None, 'nadd': None, 'porosity': 0.1, 'perm': None, 'vars': [1.e5, 20.]}]}
    w2 = {'sim': 'TOUGH2', 'reset': False, 'nv': 2, 'check': True,
          'timing': {'kcyc': 1, 'iter': 2, 'nm': 3, 'tstart': 0.0, 'sumtim': 123456.74996},
          'blocks': [{'name': 'AAA 1', 'nseq': None, 'nadd': None, 'porosity': 0.1, 'perm': None, 'vars': [1.e5, 20.]}]}
    w3 = {'sim': 'TOUGH2', 'reset': True, 'nv': 2, 'check': True, 'timing': None,
          'blocks': [{'name': 'AAA 1', 'nseq': None, 'nadd': None, 'porosity': 0.1, 'perm': None, 'vars': [-9.9999999999996e-100, 20.]}]}
    w4 = {'sim': 'TOUGH2', 'reset': False, 'nv': 2, 'check': True,
          'timing': {'kcyc': 11100, 'iter': 40102, 'nm': 1, 'tstart': 0.0, 'sumtim': 1500.0},
          'blocks': [{'name': 'AAA 1', 'nseq': None, 'nadd': None, 'porosity': 0.1, 'perm': None, 'vars': [1.e5, 20.]}]}
    return [w1, w2, w3, w4]


def oracle(ctx, descs, name='write-read-write'):
    tmpdir = tempfile.mkdtemp(prefix='c13o_')
    dist = {'raised_unrepresentable': 0, 'passed': 0}
    kept = []
    try:
        for nrun, d in enumerate(descs):
            ctx.count(json.dumps(orc.desc_to_json(d), sort_keys=True), nontrivial=orc.nontrivial(d))
            out = orc.roundtrip(d, tmpdir)
            if len(kept) < (400 if ctx.thorough else 40): kept.append((d, orc.outcome_key(out)))
            bad = orc.evaluate_all(d, out)
            if not bad:
                if 'write_raised' in out: dist['raised_unrepresentable'] += 1
                else: dist['passed'] += 1
                continue
            for what, obs, req in bad:
                key = orc.classify(d, what, out.get('text1'), out.get('text2'), out.get('got'))
                ctx.failure(name, key, orc.desc_to_json(d), '%s: %s' % (what, obs), req)
            if len(ctx.new_failures) >= 25:
                ctx.log('oracle sweep stopped after %d objects: 25 failures outside the known findings' % (nrun + 1))
                break
        # results must not depend on earlier calls or on other live objects: the first sets again, in shuffled order,
        # after everything above was created and used in this process
        again = list(kept)
        ctx.rng.shuffle(again)
        for d, key in again:
            if orc.outcome_key(orc.roundtrip(d, tmpdir)) != key:
                ctx.failure(name, 't2incon.roundtrip:outcome-depends-on-earlier-calls', orc.desc_to_json(d), 'a different outcome on the second evaluation', 'the same files and objects as the first time')
        dist['evaluated_twice'] = len(again)
        for d in descs[:3]: ctx.sample(orc.desc_to_json(d))
    finally:
        shutil.rmtree(tmpdir, ignore_errors=True)
    dd = orc.distribution(descs); dd.update(dist)
    ctx.oracle_cases(name, len(descs), **dd)
    ctx.extra.setdefault('input_distribution', {}).update(dd)


def oracle_shipped(ctx):
    """the 7 shipped files on the implementation alone: (a) what t2incon holds against a parse of the file by the file
    format's own columns (independent of the format table of the code), (b) the property statement on the object read"""
    tmpdir = tempfile.mkdtemp(prefix='c13s_')
    n = 0
    try:
        for rel, nv in SHIPPED:
            p = os.path.join(ctx.repo, 'tests', 'incon', rel)
            if not os.path.exists(p):
                ctx.failure('shipped-files', 't2incon.read:shipped-file-missing', {'file': rel}, 'missing', 'present'); continue
            ctx.count('shipped:' + rel)
            try: diff = orc.shipped_values(p, nv)
            except Exception as e: diff = ('read', '%s: %s' % (type(e).__name__, str(e)[:200]), 'file read')
            n += 1
            if diff:
                ctx.failure('shipped-files', 't2incon.read:shipped-file-values', {'file': rel, 'num_variables': nv}, '%s: %s' % diff[:2], diff[2]); continue
            for reset in ((False,) if os.path.getsize(p) > 500000 else (False, True)):
                d = orc.desc_of_file(p, nv, reset)
                out = orc.roundtrip(d, tmpdir)
                n += 1
                for what, obs, req in orc.evaluate_all(d, out):
                    key = orc.classify(d, what, out.get('text1'), out.get('text2'), out.get('got'))
                    ctx.failure('shipped-files', key, {'file': rel, 'num_variables': nv, 'reset': reset}, '%s: %s' % (what, str(obs)[:300]), str(req)[:300])
    finally:
        shutil.rmtree(tmpdir, ignore_errors=True)
    ctx.oracle_cases('shipped-files', n, files=len(SHIPPED))


def run(ctx):
    # thorough: sized (by case counts) to finish within ~20 min on a loaded machine with VERIF_JOBS=5
    n_oracle = 3000 if ctx.thorough else 300
    n_extra = 1000 if ctx.thorough else 150
    n_inst = 360 if ctx.thorough else 90      # objects on which the theorems' hypotheses and conclusions are evaluated by the model
    ctx.rule = ('initial-condition sets built through the public API: 0..12 (thorough: ..40) blocks named by mulgrid\'s own naming functions in all 4 conventions '
                '(either justification and case, atmosphere names, 3-digit columns), 1..12 variables per block from 9 value classes (ordinary, negative, '
                '3-digit exponents of both signs, zeros, rounding ties, carries into a longer exponent), porosity / permeabilities / nseq-nadd present or absent, permeability triples with zeros (all-zero, partly zero, mixed across blocks; 24 fixed sets + random), '
                'timing x reset, num_variables given or not; distinct by the full description; non-trivial when it has at least one block')
    ctx.trusted += ['Coq 8.16.1 kernel (coqc); vm_compute for the finite obligations over the regenerated table and the examples',
                    'translators tools/translate/tables.py and pyfun.py (AST, fail-closed); the AST reader of padstring\'s default length in tools/props/C13.py',
                    'hand model coq/C13/InconIO.v of t2incon.read/write and Base/Fmt.v, Base/FixedFormat.v, Model/Fortran.v, Base/PyNum.v (validated by the correspondence runs of this check, not verified against CPython)',
                    'coq/C13/Num.v nearest: model of strtod (round-half-even to binary64 with gradual underflow), run against float() on every check',
                    "Python's text I/O (splitting a file into lines with universal newlines, joining written lines) is outside the model",
                    'extraction: ExtrOcamlBasic + ExtrOcamlString, OCaml 4.13.1, ocaml/main.ml; the driver is run with the stack limit lifted (own runner in tools/props/C13.py)']
    ctx.assumptions += ['attribute values are Python floats / ints / None and 5-character ASCII names; nan and inf can be read by the model but not written (outside the %-formatting model)',
                        'every block of a set has the same number of variables and num_variables, when given, is that number (the file format does not record it)',
                        'read(write i) = canon i is proved from wf_fits (structure + every value fits its field) with no field-level hypothesis; that canon rounds to exactly q decimals '
                        'additionally uses that Fmt.sci prints q+1 mantissa digits (C02 correspondence, not proved)',
                        'write(canon i) = write i (second file byte-identical) is proved from wf_fits and stable_hyp: a computable guard excluding the recorded defects of the second write '
                        '(long-header sumtim; lowered precision rounding into a shorter exponent), more than 14 printed decimals and printed decimal exponents outside [-300, 300] '
                        '(for these the exact-rational trip argument is not carried out: covered by the model evaluation of idem_hyp and by the oracle only)']
    ctx.stage()
    lap(ctx, 'staged')
    ok = translate(ctx)
    exe = None
    if ok:
        ctx.coq_build()
        lap(ctx, 'coq build done')
        exe = vf.build_driver(ctx)
    descs = None
    if exe:
        correspond_strtod(ctx, exe)
        lap(ctx, 'strtod model done')
        descs = correspond(ctx, exe, n_oracle + n_extra, n_oracle, n_inst)
    if descs is None:
        descs = orc.fixed_cases() + [orc.gen_desc(ctx.rng, ctx.thorough) for _ in range(n_oracle)]
    oracle(ctx, known_witnesses() + descs)
    oracle_shipped(ctx)
    lap(ctx, 'oracle sweep done')

    def deep(broken):
        if not ctx.thorough:
            oracle(ctx, [orc.gen_desc(ctx.rng, True) for _ in range(4000)], name='write-read-write(deep)')
    return ctx.finish(deep_search=deep)


def replay(ctx, data):
    inp = data.get('input')
    if inp and 'file' in inp and 'blocks' not in inp:
        p = os.path.join(ctx.repo, 'tests', 'incon', inp['file'])
        try: diff = orc.shipped_values(p, inp.get('num_variables'))
        except Exception as e: diff = ('read', repr(e), 'file read')
        if diff: print('replay: still fails:', diff); return True
        tmpdir = tempfile.mkdtemp(prefix='c13r_')
        try:
            for reset in (False, True):
                d = orc.desc_of_file(p, inp.get('num_variables'), reset)
                bad = orc.evaluate_all(d, orc.roundtrip(d, tmpdir))
                bad = [b for b in bad if orc.classify(d, b[0]) not in ctx.known]
                if bad: print('replay: still fails:', bad[0]); return True
        finally:
            shutil.rmtree(tmpdir, ignore_errors=True)
        print('replay: property holds on this file'); return False
    if not inp or 'blocks' not in inp: return True
    d = orc.desc_from_json(inp)
    tmpdir = tempfile.mkdtemp(prefix='c13r_')
    try:
        out = orc.roundtrip(d, tmpdir)
        bad = orc.evaluate(d, out)
        print('replay:', 'property holds on this input' if bad is None else 'still fails: %s observed %s required %s' % bad)
        if 'text1' in out: print(out['text1'])
        return bad is not None
    finally:
        shutil.rmtree(tmpdir, ignore_errors=True)
