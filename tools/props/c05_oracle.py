"""C05 oracle -- an independent reading of a listing file (no PyTOUGH code involved).

`fortran_tokens` is the Python twin of the Coq specification coq/C05/Model.v:fortran_tokens
(the two are compared on every row by the check).  `scan_listing` finds, with nothing but the
printed text, the result times, the tables printed at each time and their rows:

  row    = names (5-character fields ending in a digit)  index  [I]  numbers...
  number = [sign] digits '.' digits [ (E|D|e|d) (sign|blank) d d [d] | sign d d d ]
           (an exponent's third digit is taken only when it is not itself followed by a digit
            or a point: in `0.101304E+060.100001E+02` the `0` after `E+06` opens the next
            number; a number that carries an exponent has at most one digit before its point,
            so `    10.597704E+07` is index 1 followed by 0.597704E+07)
"""
import re

DIG = '0123456789'


def _exp_len(s, q):
    """length of the exponent part that starts at s[q] (0 if none)"""
    n = len(s)
    def d(i): return i < n and s[i] in DIG
    def stop(i): return not (i < n and (s[i] in DIG or s[i] == '.'))
    if q < n and s[q] in 'EeDd' and q + 1 < n and s[q + 1] in '+- ' and d(q + 2) and d(q + 3):
        if d(q + 4) and stop(q + 5): return 5
        return 4
    if q < n and s[q] in '+-' and d(q + 1) and d(q + 2) and d(q + 3) and not (q + 4 < n and s[q + 4] == '.'):
        return 4
    return 0


def token_spans(s):
    """[(start, end)] of the Fortran-printed reals in s, one per decimal point."""
    out = []
    n = len(s)
    for p, c in enumerate(s):
        if c != '.': continue
        q = p + 1
        while q < n and s[q] in DIG: q += 1
        el = _exp_len(s, q)
        a = p
        if el:
            if a > 0 and s[a - 1] in DIG: a -= 1
        else:
            while a > 0 and s[a - 1] in DIG: a -= 1
        if a > 0 and s[a - 1] in '+-': a -= 1
        out.append((a, q + el))
    return out


def fortran_tokens(s):
    return [s[a:b] for a, b in token_spans(s)]


def token_value(t):
    """the real number a printed token denotes (None: not a number, e.g. a lone point)"""
    m = re.match(r'^([+-]?)(\d*)\.(\d*)(?:[EeDd]([+\- ])(\d+)|([+-])(\d+))?$', t)
    if not m or not (m.group(2) or m.group(3)): return None
    sg, ip, fp = m.group(1), m.group(2), m.group(3)
    if m.group(5) is not None: e = ('-' if m.group(4) == '-' else '') + m.group(5)
    elif m.group(7) is not None: e = ('-' if m.group(6) == '-' else '') + m.group(7)
    else: e = '0'
    return float('%s%s.%se%s' % (sg, ip or '0', fp or '0', e))     # CPython strtod


def my_fix(name):
    """TOUGH2 prints names as (A3,I2): 'AA1 5' is the name 'AA105'."""
    if len(name) == 5 and name[2] in DIG and name[4] in DIG and name[3] == ' ':
        return name[:3] + '0' + name[4]
    return name


def parse_row(line, nkeys, nint, keypos=None):
    """A printed table row -> (names, index text, leading integers, [(start,end,text)], keypos) or None.

    Names are 5-character fields that end in a digit, found from the right of the text that
    precedes the index.  When the index abuts the last name (`al1010`) the split is not
    decidable from the row alone; the positions found on an earlier row of the same table
    (`keypos`, fixed Fortran format) are then used."""
    s = line.rstrip('\r\n')
    spans = token_spans(s)
    if not spans: return None
    prev = spans[0][0]
    for a, b in spans:
        if a < prev: return None                            # overlapping tokens: not decidable
        if s[prev:a].strip(): return None                   # something else between the numbers
        prev = b
    if s[prev:].strip(): return None
    pre = s[:spans[0][0]]
    toks = [(a, b, s[a:b]) for a, b in spans]
    if nint == 1: m = re.match(r'^(.*?)(\d+|\*+)\s*$', pre, re.S)
    else: m = re.match(r'^(.*?)(\d+|\*+)\s+(\d+)\s*$', pre, re.S)
    if not m: return None
    ints = [m.group(3)] if nint == 2 else []
    names_txt = m.group(1)
    if keypos is not None and len(pre) >= keypos[-1] + 5:
        # fixed format: same name columns as the earlier rows of this table
        r = pre[:keypos[0]]
        if r[:1] in ('1', '0', '+'): r = r[1:]
        names = tuple(pre[p:p + 5] for p in keypos)
        rest = pre[keypos[-1] + 5:]
        m2 = re.match(r'^\s*(\d+|\*+)\s*$' if nint == 1 else r'^\s*(\d+|\*+)\s+(\d+)\s*$', rest)
        if m2 and all(n[4] in DIG for n in names) and not re.search(r'[A-Za-z0-9]', r):
            return (names, m2.group(1), [m2.group(2)] if nint == 2 else [], toks, tuple(keypos))
    if names_txt and names_txt[-1] in DIG + '*': return None     # index abuts the name: undecidable here
    names, pos = [], []
    r = names_txt
    for _ in range(nkeys):
        p = len(r) - 1
        while p >= 0 and r[p] not in DIG: p -= 1
        if p < 4: return None
        names.append(r[p - 4:p + 1]); pos.append(p - 4)
        r = r[:p - 4]
    names.reverse(); pos.reverse()
    if r[:1] in ('1', '0', '+'): r = r[1:]                   # Fortran carriage-control column
    if re.search(r'[A-Za-z0-9]', r): return None            # text left of the names: not a row
    return (tuple(names), m.group(2), ints, toks, tuple(pos))


def is_rule(line):
    """a ruling: >= 60 copies of one character (possibly after a carriage-control '1')"""
    t = line.strip()
    if len(t) > 60 and t[0] == '1' and t[1] != '1': t = t[1:]
    return len(t) >= 60 and len(set(t[:60])) == 1 and (not t[0].isalnum() or t[0] in 'ECG')


def rule_char(line):
    t = line.strip()
    if len(t) > 60 and t[0] == '1' and t[1] != '1': t = t[1:]
    return t[0]


def header_words(line):
    w = line.split()
    for k in (1, 2):
        if len(w) > k + 1 and w[k] in ('INDEX', 'IND.') and all(x.startswith('ELEM') or x == 'SOURCE' for x in w[:k]):
            return k, w[k + 1:]
    return None


class PTable:
    def __init__(self, nkeys, cols, lineno):
        self.nkeys, self.cols, self.lineno = nkeys, cols, lineno
        self.rows = []          # (lineno, names, index text, [leading integers], [(start, end, token text)], line text)
        self.fresh = True       # no row since the last header line
        self.keypos = None; self.varying = 0
        self.odd = []           # lines inside the table that are neither rows nor recognised decoration


def scan_listing(lines):
    """lines: the file's lines (latin-1 text).  -> list of result times, each a list of PTable."""
    autough2 = any(is_rule(l) and rule_char(l) == 'E' for l in lines)
    times, cur, tab = [], None, None
    ecount = 0
    for i, line in enumerate(lines):
        if autough2:
            if is_rule(line) and rule_char(line) == 'E':
                ecount += 1
                if ecount % 3 == 1:
                    cur = []; times.append(cur)
        else:
            if line.lstrip().lower().startswith('output data after'):
                cur = []; times.append(cur); tab = None
                continue
        if autough2 and re.match(r'^[1 ]?\s*[ECG]SHORT', line):
            cur = None; tab = None                          # short output: not a full result time
        if cur is None: continue
        if is_rule(line):
            if tab is not None and not tab.fresh: tab = None
            continue
        h = header_words(line)
        if h:
            if tab is not None and tab.cols == h[1] and tab.nkeys == h[0]:
                tab.fresh = True
            else:
                tab = PTable(h[0], h[1], i); cur.append(tab)
            continue
        if tab is None: continue
        if not line.strip(): continue
        r = parse_row(line, tab.nkeys, 2 if tab.cols and tab.cols[0] == 'I' else 1, tab.keypos)
        if r is None:
            if re.search(r'\.\d', line): tab.odd.append((i, line.rstrip('\r\n')))
            continue
        names, idx, ints, toks, kp = r
        if tab.keypos is None: tab.keypos = kp
        elif kp != tab.keypos: tab.varying += 1
        tab.rows.append((i, names, idx, ints, toks, line.rstrip('\r\n')))
        tab.fresh = False
    return times
