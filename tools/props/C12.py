"""C12 -- point and line location in a geometry agree with exhaustive search.

tie: H (coq/C12/Locate.v, hand model over exact rationals; run extracted against the
implementation on real mulgrid objects whose coordinates are converted exactly) + a small T part
(constants of the located code read from the AST on every run: Gen/GenGeom.v)."""
import os, sys, ast, json, math, time, random
import multiprocessing as mp
from collections import Counter
from fractions import Fraction
import vf

sys.path.insert(0, os.path.dirname(os.path.abspath(__file__)))
import c12_geos, c12_oracle
from c12_exact import fr


# ---------------------------------------------------------------------------
# T: constants and comparison structure read from the source
def coq_q(x):
    n, d = float(x).as_integer_ratio()
    return '((%d) # %d)' % (n, d)


def find_def(tree, path):
    node = tree
    for name in path:
        nxt = None
        for ch in ast.iter_child_nodes(node):
            if isinstance(ch, (ast.FunctionDef, ast.ClassDef)) and ch.name == name:
                nxt = ch; break
        if nxt is None: raise vf.Refusal('definition %s not found' % '.'.join(path))
        node = nxt
    return node


QT_SEARCH_PINNED = """
def search(self, pos):
    leaf = self.leaf(pos)
    if leaf: return leaf.search_wave(pos)
    else: return None
"""
QT_SEARCH_FALLBACK = """
def search(self, pos):
    leaf = self.leaf(pos)
    if leaf:
        elt = leaf.search_wave(pos)
        if elt is None:
            root = self
            while root.parent: root = root.parent
            for elt in root.elements:
                if in_rectangle(pos, elt.bounding_box) and \\
                   elt.contains_point(pos): return elt
            return None
        return elt
    else: return None
"""


def translate(ctx):
    try:
        mg = ast.parse(open(os.path.join(ctx.repo, 'mulgrids.py')).read())
        ge = ast.parse(open(os.path.join(ctx.repo, 'geometry.py')).read())
        out = ['(** generated from %s/mulgrids.py and geometry.py by tools/props/C12.py -- do not edit *)' % ctx.repo,
               'From Coq Require Import QArith.', 'Open Scope Q_scope.']
        # column_track: tol = 1e-3
        f = find_def(mg, ['mulgrid', 'column_track'])
        tol = None
        for st in f.body:
            if isinstance(st, ast.Assign) and len(st.targets) == 1 and isinstance(st.targets[0], ast.Name) \
                    and st.targets[0].id == 'tol':
                if isinstance(st.value, ast.Constant) and isinstance(st.value.value, (int, float)): tol = float(st.value.value)
                else: raise vf.Refusal('column_track: tol is not a literal')
        if tol is None: raise vf.Refusal('column_track: no `tol = <literal>`')
        out.append('Definition track_tol : Q := %s.   (* %r *)' % (coq_q(tol), tol))
        # in_polygon: tolerance guard (absent since the repair cb92a48); any `tolerance` literal is reported
        f = find_def(ge, ['in_polygon'])
        guard = None
        for st in ast.walk(f):
            if isinstance(st, ast.Assign) and isinstance(st.targets[0], ast.Name) and st.targets[0].id == 'tolerance':
                if isinstance(st.value, ast.Constant): guard = float(st.value.value)
                else: raise vf.Refusal('in_polygon: tolerance is not a literal')
        out.append('Definition in_polygon_has_guard : bool := %s.' % ('true' if guard is not None else 'false'))
        # sub_rectangles: centre = 0.5 * (rect[0] + rect[1])
        f = find_def(ge, ['sub_rectangles'])
        half = None
        for st in f.body:
            if isinstance(st, ast.Assign) and isinstance(st.targets[0], ast.Name) and st.targets[0].id == 'centre':
                v = st.value
                if isinstance(v, ast.BinOp) and isinstance(v.op, ast.Mult) and isinstance(v.left, ast.Constant):
                    half = float(v.left.value)
        if half is None: raise vf.Refusal('sub_rectangles: centre = <literal> * (...) not found')
        out.append('Definition sub_rect_factor : Q := %s.' % coq_q(half))
        # quadtree: subdivide when num_elements > 1
        f = find_def(mg, ['quadtree', '__init__'])
        thr = None
        for st in ast.walk(f):
            if isinstance(st, ast.If) and isinstance(st.test, ast.Compare) and isinstance(st.test.left, ast.Attribute) \
                    and st.test.left.attr == 'num_elements' and len(st.test.ops) == 1 and isinstance(st.test.ops[0], ast.Gt) \
                    and isinstance(st.test.comparators[0], ast.Constant):
                thr = int(st.test.comparators[0].value)
        if thr is None: raise vf.Refusal('quadtree.__init__: `if self.num_elements > <literal>` not found')
        out.append('Definition quadtree_split_threshold : nat := %d.' % thr)
        # line_polygon_intersections: tol = 1.e-9
        f = find_def(ge, ['line_polygon_intersections'])
        ltol = None
        for st in f.body:
            if isinstance(st, ast.Assign) and len(st.targets) == 1 and isinstance(st.targets[0], ast.Name) \
                    and st.targets[0].id == 'tol':
                if isinstance(st.value, ast.Constant) and isinstance(st.value.value, (int, float)): ltol = float(st.value.value)
                else: raise vf.Refusal('line_polygon_intersections: tol is not a literal')
        if ltol is None: raise vf.Refusal('line_polygon_intersections: no `tol = <literal>`')
        out.append('Definition lpi_tol : Q := %s.   (* %r *)' % (coq_q(ltol), ltol))
        # quadtree.search: the pinned form (result of the neighbour wave) or the repaired form (proposed fix
        # C12-quadtree-search-fallback: when the wave finds nothing, the first element of the root whose bounding box
        # and polygon contain the point); any other shape is refused
        f = find_def(mg, ['quadtree', 'search'])
        shape = ast.dump(ast.Module(body=f.body, type_ignores=[]))
        known = {}
        for flag, src in (('false', QT_SEARCH_PINNED), ('true', QT_SEARCH_FALLBACK)):
            g = ast.parse(src).body[0]
            known[ast.dump(ast.Module(body=g.body, type_ignores=[]))] = flag
        if shape not in known: raise vf.Refusal('quadtree.search has neither the pinned nor the repaired (fallback) form')
        out.append('Definition quadtree_search_has_fallback : bool := %s.' % known[shape])
        ctx.extra['quadtree_search_has_fallback'] = (known[shape] == 'true')
        ctx.gen('GenGeom', '\n'.join(out) + '\n')
        return True
    except (vf.Refusal, SyntaxError, OSError) as e:
        ctx.refusal('C12 constants (column_track.tol, in_polygon guard, sub_rectangles factor, quadtree threshold)', e)
        return False


# ---------------------------------------------------------------------------
def chunks(total, size):
    out = []
    while total > 0:
        out.append(min(size, total)); total -= size
    return out


def plan(ctx):
    """The task list of one run."""
    rng = ctx.rng
    T = ctx.thorough
    specs = c12_geos.geometry_specs(rng, T)
    bands = c12_geos.band_specs(rng, T)
    tasks = []
    # case counts per geometry (the run is bounded by these counts, never by time)
    npts = 6000 if T else 2000
    nblk = 1500 if T else 300
    nlin = 600 if T else 150
    nprim = 1000 if T else 250
    for s in specs:
        big = s['kind'] == 'file' and s['name'] in ('g2.dat', 'g4.dat')
        f = 0.25 if big else 1.0
        for n in chunks(int(npts * f), 125 if not T else 400):
            tasks.append(('point', (s, ctx.repo, rng.randrange(1 << 30), n, None)))
        for n in chunks(int(nblk * f), 100 if not T else 300):
            tasks.append(('block', (s, ctx.repo, rng.randrange(1 << 30), n)))
        for n in chunks(int(nlin * f), 25 if not T else 100):
            tasks.append(('track', (s, ctx.repo, rng.randrange(1 << 30), n)))
        tasks.append(('prim', (s, ctx.repo, rng.randrange(1 << 30), int(nprim * f))))
    for s in bands:
        tasks.append(('band', (s, ctx.repo, rng.randrange(1 << 30), 400 if T else 60)))
    # sequences on one geometry object (query, remove the column found, query its old footprint; other objects in between)
    for s in specs:
        if s['kind'] == 'rect' and s['label'] in ('rect', 'refined', 'rotated', 'gaps', 'multiscale'):
            for _ in range(6 if T else 2):
                tasks.append(('seq', (s, ctx.repo, rng.randrange(1 << 30), 12 if T else 5)))
        elif s['kind'] == 'file' and s['name'] in ('g1.dat', 'g7.dat', 'g5.dat'):
            tasks.append(('seq', (s, ctx.repo, rng.randrange(1 << 30), 8 if T else 3)))
    # fixed witnesses of the recorded findings (run on every tier so that they are re-found or seen repaired)
    fx = dict(c12_geos.FAR_CROSSING_SPEC)
    tasks.append(('track', (fx, ctx.repo, 0, 0, c12_geos.FAR_CROSSING_LINES)))
    return specs + bands + [fx], tasks


def run_task(t):
    kind, args = t
    f = {'point': c12_oracle.point_task, 'block': c12_oracle.block_task, 'track': c12_oracle.track_task,
         'prim': c12_oracle.prim_task, 'band': c12_oracle.band_task, 'seq': c12_oracle.seq_task}[kind]
    r = f(args)
    r['kind'] = kind
    r['label'] = args[0].get('label')
    r['spec'] = args[0]
    r['repo'] = args[1]
    return r


JOBS = max(1, min(vf.NPROC, 8))


def line_cost(l):
    """rough cost of one driver case (measured: ~7 us per query x column)"""
    if l.startswith('geo\t'):
        f = l.split('\t')
        return (f[4].count('|') + 1) * (f[1].count('|') + 31)
    if l.startswith('trk\t'):
        return 70 * (l.split('\t', 2)[1].count('|') + 1)
    return 40


def run_model(exe, lines, timeout=1700):
    """Run the extracted model on the case lines in JOBS processes, balanced by estimated cost
    (the cases are very unequal: one geo line carries ~1000 queries); deterministic."""
    from concurrent.futures import ThreadPoolExecutor
    n = len(lines)
    cost = [line_cost(l) for l in lines]
    order = sorted(range(n), key=lambda i: (-cost[i], i))
    bins = [[] for _ in range(JOBS)]
    load = [0] * JOBS
    for i in order:
        j = load.index(min(load))
        bins[j].append(i); load[j] += cost[i]
    bins = [sorted(b) for b in bins if b]
    with ThreadPoolExecutor(max_workers=len(bins) or 1) as ex:
        outs = list(ex.map(lambda b: vf.run_driver(exe, [lines[i] for i in b], timeout, 1), bins))
    res = [None] * n
    for b, o in zip(bins, outs):
        for i, r in zip(b, o): res[i] = r
    return res


def leaf_agrees(model, impl, scale):
    if model == 'N' or impl == 'N': return model == impl
    try:
        mb, me = model.split(':'); ib, ie = impl.split(':')
        if me.split() != ie.split(): return False
        mv = [Fraction(int(a), int(b)) for a, b in (x.split('/') for x in mb.split())]
        iv = [fr(float(x)) for x in ib.split()]
        return all(abs(a - b) <= Fraction(1, 10 ** 9) * fr(scale) for a, b in zip(mv, iv))
    except Exception:
        return False


def subrects_agree(model, impl):
    """sub_rectangles: the implementation rounds 0.5*(a+b) to a double; agree within 1 ulp-ish"""
    try:
        mv = [Fraction(int(a), int(b)) for a, b in (x.split('/') for x in model.replace(';', ' ').split())]
        iv = [Fraction(int(a), int(b)) for a, b in (x.split('/') for x in impl.replace(';', ' ').split())]
        if len(mv) != len(iv): return False
        m = max([abs(x) for x in mv] + [1])
        return all(abs(a - b) <= m * Fraction(1, 2 ** 50) for a, b in zip(mv, iv))
    except Exception:
        return False


def lpi_agrees(model, impl, meta, r, counts):
    """line_polygon_intersections: the model's exact hits, merged as the implementation merges them (the stated
    abstraction, c12_oracle.lpi_merge), against the implementation's list"""
    import numpy as np
    if impl['ambiguous']:
        counts['discarded_lpi_parameter_at_threshold'] += 1; return True
    try:
        hits = []
        for h in [x for x in model.split(';') if x.strip()]:
            v = [Fraction(int(a), int(b)) for a, b in (t.split('/') for t in h.split())]
            hits.append((float(v[2]), float(v[3])))
        poly = [np.array(q) for q in impl['poly']]      # (the worker's own polygon: refine() orders columns per process)
        l0 = np.array(meta[2][0])
        pts, amb = c12_oracle.lpi_merge(hits, l0, poly)
        if amb:
            counts['discarded_lpi_distance_at_rounding_boundary'] += 1; return True
        if len(pts) != len(impl['pts']): return False
        scale = max([abs(v) for q in impl['poly'] for v in q] + [1.0])
        return all(abs(a[0] - b[0]) <= 1e-9 * scale and abs(a[1] - b[1]) <= 1e-9 * scale for a, b in zip(pts, impl['pts']))
    except Exception:
        return False


def process(ctx, exe, results):
    """Aggregate worker results: oracle failures, counts, and the model/implementation diff."""
    counts = Counter()
    per_geo = {}
    lines, expect = [], []       # for the driver
    for r in results:
        if 'crash' in r:
            ctx.log('WORKER CRASH\n' + r['crash'])
            ctx.proof_failures.append({'kind': 'harness', 'name': 'worker-crashed', 'detail': r['crash'][-3000:]})
            continue
        kind = r['kind']
        lab = r['label']
        pg = per_geo.setdefault(json.dumps(r['spec'], sort_keys=True), Counter())
        for k, v in r['counts'].items():
            counts[k] += v; pg[k] += v
        for (oname, key, inp, obs, req) in r.get('failures', []):
            ctx.failure(oname, key, inp, obs, req)
        for s in r.get('samples', []): ctx.sample(s)
        if kind in ('point', 'band', 'block'):
            for m in r['meta']:
                ctx.count((lab, kind, json.dumps(m, sort_keys=True, default=str)))
            if r['queries']:
                w = r['wire']
                lines.append('geo\t%s\t%s\t%s\t%s' % (w[0], w[1], w[2], '|'.join(r['queries'])))
                expect.append(('geo', r))
        elif kind == 'track':
            w = r['wire']
            for t in r['tracks']:
                ctx.count((lab, 'track', t['line']))
                lines.append('trk\t%s\t%s\t%s\t%s' % (w[0], t['line'], t['percol'], t['dtab']))
                expect.append(('trk', r, t))
            ctx.evaluations += r['counts'].get('lines', 0) - len(r['tracks'])
            for l, e, m in zip(r.get('plines', []), r.get('pimpl', []), r.get('pmeta', [])):
                lines.append(l); expect.append(('prim', e, m, r))
        elif kind == 'prim':
            for l, e, m in zip(r['lines'], r['impl'], r['meta']):
                lines.append(l); expect.append(('prim', e, m, r))
    # oracle bookkeeping
    ctx.oracle_cases('aids-agree', counts['queries'], points=counts['points'],
                     classes={k[6:]: v for k, v in counts.items() if k.startswith('class:')})
    ctx.oracle_cases('exhaustive-contains', counts['points'])
    ctx.oracle_cases('block-unique', counts['points3d'], z_classes={k[2:]: v for k, v in counts.items() if k.startswith('z:')})
    ctx.oracle_cases('sequence', counts['seq_queries'], rounds=counts['seq_rounds'], edits=counts['seq_edits'])
    ctx.evaluations += counts['seq_queries']
    ctx.oracle_cases('track', counts['lines'], line_classes={k[5:]: v for k, v in counts.items() if k.startswith('line:')},
                     segments=counts['track_segments'])
    # the model
    if exe and lines:
        t0 = time.time()
        # the time limit is a safety net only (the work is bounded by the case counts): generous on a loaded machine
        out = run_model(exe, lines, timeout=9000 if ctx.thorough else 1700)
        ctx.log('model driver: %d case lines in %.1fs (%d shards)' % (len(lines), time.time() - t0, JOBS))
        ncmp = Counter()
        for e, o in zip(expect, out):
            if e[0] == 'geo':
                r = e[1]
                parts = o.split('|')
                head, parts = parts[0], parts[1:]
                if not head.startswith('D ') or head.split()[2] != '1' or len(parts) != len(r['impl']):
                    ctx.disagreement('model-run', {'geometry': r['spec']}, o[:200], '%d answers expected' % len(r['impl']))
                    continue
                counts['max_quadtree_depth'] = max(counts['max_quadtree_depth'], int(head.split()[1]))
                scale = None
                for mo, io, meta in zip(parts, r['impl'], r['meta']):
                    k = meta['kind']
                    name = {'C': 'column_containing_point', 'E': 'contains_point-exhaustive', 'L': 'quadtree-leaf',
                            'B': 'block_containing_point', 'X': 'block_contains_point'}[k]
                    ncmp[name] += 1
                    if k == 'L':
                        if not leaf_agrees(mo, io, r.get('cmag', 1.0)):
                            if meta.get('near_split'): counts['discarded_leaf_near_split_line'] += 1
                            else: ctx.disagreement(name, {'geometry': r['spec'], 'query': meta}, mo, io)
                    elif mo != io:
                        ctx.disagreement(name, {'geometry': r['spec'], 'query': meta}, mo, io)
            elif e[0] == 'trk':
                ncmp['column_track-assembly'] += 1
                if o != e[2]['impl']:
                    ctx.disagreement('column_track-assembly', e[2]['input'], o[:600], e[2]['impl'][:600])
            else:
                name = e[2][0]
                ncmp[name] += 1
                if name == 'line_intersects_rectangle':
                    ok = o.split()[0] == e[1]
                    counts['max_cohen_sutherland_rounds'] = max(counts['max_cohen_sutherland_rounds'], int(o.split()[1]))
                    if int(o.split()[1]) >= 8: ok = False        # the model's fuel bound must never be reached
                elif name == 'line_polygon_intersections':
                    ok = lpi_agrees(o, e[1], e[2], e[3], counts)
                else:
                    ok = (o == e[1]) if name != 'sub_rectangles' else subrects_agree(o, e[1])
                if name == 'bounds_of_points' and not ok:
                    ok = subrects_agree(o, e[1]) and False
                if not ok:
                    ctx.disagreement(name, {'geometry': e[3]['spec'], 'case': e[2][1:]}, o[:300], str(e[1])[:300])
        for k, v in ncmp.items(): ctx.corr_cases(k, v)
    return counts, per_geo


def run(ctx):
    ctx.rule = ('geometries: rectangular with irregular spacing, rectangular with column sizes 1..1000 (3 orders of magnitude), '
                'rectangular refined twice (triangular transition columns), rectangular translated to 1e6-size coordinates and rotated, '
                'rectangular with deleted columns (non-convex domain, incl. the M-grid of the test-suite), shipped g1..g7 (quick: g1 + one other), '
                'tiny-angle rotations (nearly horizontal edges); points: uniform in the inflated bounding box, inside random columns, level with a '
                'vertex, 10^-4.5..10^-1.5 side lengths off an edge, far outside, on quadtree split lines; every point at least 1e-6 x (longest side '
                'of the column owning the nearest edge) + 1e-9 x coordinate size away from every edge (closer ones are discarded and counted); '
                '8 search-aid combinations per point (none, right / neighbouring / far guess, bounding rectangle or boundary polygon, column '
                'subset containing the answer, quadtree, a random combination); 3-D points with elevations inside layers, above, below, around '
                'the column surface; lines with end points anywhere / inside columns / through the whole mesh, not along an edge. '
                'sequences on one geometry object: 3-D query in a column, refine or delete that column, 3-D / 2-D / track queries in its old footprint as the first queries after the edit, an unrelated geometry queried in between, arguments compared before and after each call. '
                'A case is distinct by (geometry, point or line, aid).')
    ctx.trusted += ['Coq 8.16.1 kernel (coqc); vm_compute only on closed terms inside proofs',
                    'coq/C12/Locate.v: hand-written model of geometry.py / mulgrids.py location code over exact rationals (validated by correspondence on this run, not verified against the Python text)',
                    'extraction: ExtrOcamlBasic + ExtrOcamlString, OCaml 4.13.1, ocaml/main.ml',
                    'coq/C12/Drv.v: wire parser/printer of the extracted model; it multiplies every coordinate, elevation and distance of a geo/trk case by the largest denominator of the geometry (exact) so that the rational arithmetic runs on integers, and divides printed coordinates again - every modelled function is homogeneous in the lengths',
                    'oracle: tools/props/c12_exact.py (exact rational point-in-polygon with a vertical ray, exact segment clipping) and c12_oracle.py',
                    'float.as_integer_ratio (exact conversion of doubles to rationals)']
    ctx.assumptions += ['the model computes in exact rationals, the implementation in doubles: agreement is claimed for points at least the stated tolerance away from every column edge and quadtree split line',
                        'completeness of the aided searches (search_aids_agree) is proved under the explicit hypotheses tiling and connected_near; both are evaluated per point on every generated geometry (see hypotheses_met)',
                        'bbox = bounds_of_points(polygon) (hypothesis of plain_search_exhaustive / search_aids_agree): the driver tabulates exactly that, and the correspondence of bounds_of_points and of near_point-dependent answers checks it against column.bounding_box',
                        'column_track: the assembly theorems are over abstract per-column intersection lists; line_polygon_intersections and line_intersects_rectangle are modelled exactly (coq/C12/LineModel.v) up to the np.unique/round de-duplication, which is a stated abstraction (irrelevant for convex columns: it merges only points less than 1e-3 x longest side apart, a clip column_track drops anyway) reproduced by the harness when the two are compared',
                        'convex-column theorems (in_polygon_convex, chord, crossed_convex_column_not_skipped) need every three vertices of the column in list order to make a left turn; the number of such columns is recorded per geometry under hypotheses_met',
                        'blocks: a block spans its whole layer interval (PyTOUGH convention, also used by block_contains_point); the top block reaches up to the column surface']
    ctx.stage()
    ok = translate(ctx)
    specs, tasks = plan(ctx)
    pool = mp.get_context('fork').Pool(JOBS)
    # heavy tasks first
    order = sorted(range(len(tasks)), key=lambda i: (0 if tasks[i][0] == 'point' else 1))
    async_res = pool.map_async(run_task, [tasks[i] for i in order], chunksize=1)
    exe = None
    if ok:
        ok = ctx.coq_build(timeout=900)
        exe = vf.build_driver(ctx)
    ctx.log('coq build done (ok=%s); waiting for %d implementation tasks' % (ok, len(tasks)))
    results = async_res.get(timeout=9000 if ctx.thorough else 1700)
    pool.close(); pool.join()
    ctx.log('implementation tasks done')
    counts, per_geo = process(ctx, exe, results)
    hyp = {}
    for k, c in per_geo.items():
        s = json.loads(k)
        lab = s.get('label') + ':' + (s.get('name') or '%dx%d' % (len(s.get('dx', [])), len(s.get('dy', [])))) + \
            ('' if s.get('rotate') is None else ':rot%.4g' % s['rotate'])
        n = 2
        base = lab
        while lab in hyp:
            lab = '%s#%d' % (base, n); n += 1
        hyp[lab] = {'points': c['points'], 'tiling_true': c['tiling_true'], 'tiling_false': c['tiling_false'],
                    'connected_near_true': c['connected_near_true'], 'connected_near_false': c['connected_near_false'],
                    'outside_points': c['outside_points'],
                    'columns': c['columns'], 'columns_strictly_convex_ccw': c['columns_strictly_convex_ccw'],
                    'columns_convex_ccw_after_straightening': c['columns_convex_ccw_after_straightening']}
    ctx.hyp_met = hyp
    ctx.extra['input_distribution'] = {k: v for k, v in sorted(counts.items())}
    ctx.extra['geometries'] = [{k: (v if k not in ('dx', 'dy', 'dz', 'refine', 'delete') or len(str(v)) < 200 else str(v)[:200] + '...')
                                for k, v in s.items()} for s in specs]
    ctx.log('points %d (discarded as too close to an edge: %d), aid queries %d, 3-D points %d, lines %d; tiling false %d, connected_near false %d' % (
        counts['points'], counts['discarded_too_close_to_edge'], counts['queries'], counts['points3d'], counts['lines'],
        counts['tiling_false'], counts['connected_near_false']))

    def deep(broken):
        ctx.log('deep search: more points / lines on the implementation')
        rng = random.Random(ctx.seed + 4242)
        ctx.rng = rng
        sp = c12_geos.geometry_specs(rng, False) + c12_geos.band_specs(rng, True)
        tk = []
        for s in sp:
            if s['label'] == 'tiny-rotation':
                tk.append(('band', (s, ctx.repo, rng.randrange(1 << 30), 300)))
                continue
            for _ in range(8):
                tk.append(('point', (s, ctx.repo, rng.randrange(1 << 30), 250, None)))
            tk.append(('block', (s, ctx.repo, rng.randrange(1 << 30), 300)))
            tk.append(('track', (s, ctx.repo, rng.randrange(1 << 30), 100)))
        with mp.get_context('fork').Pool(JOBS) as p2:
            res = p2.map(run_task, tk, chunksize=1)
        process(ctx, None, res)
    return ctx.finish(deep_search=deep)


def replay(ctx, data):
    """Re-run the recorded input on the implementation; True iff the property still fails on it."""
    import numpy as np
    inp = data.get('input') or {}
    spec = inp.get('geometry')
    if not spec: return True
    G = c12_oracle.get_ctx(spec, ctx.repo)
    out = c12_oracle.new_out()
    out['tracks'] = []
    key = data.get('finding_key', '')
    if 'sequence' in inp:
        r = c12_oracle.run_sequence(spec, ctx.repo, steps=inp['sequence'])
        if 'crash' in r: print('replay: sequence crashed\n' + r['crash']); return True
        for f in r['failures']: print('replay:', f[1], f[3], '| required:', f[4])
        return bool(r['failures'])
    if 'line' in inp:
        l0, l1 = inp['line']
        exp = c12_oracle.expected_track(G, l0, l1)
        try:
            t = G.geo.column_track([np.array(l0), np.array(l1)])
            tr = [(G.index[id(c)], (float(a[0]), float(a[1])), (float(b[0]), float(b[1]))) for (c, a, b) in t]
        except Exception as e:
            print('replay: column_track raises', repr(e)); return True
        fails = []
        c12_oracle.check_track(G, l0, l1, tr, exp, lambda k, o, r: fails.append((k, o, r)))
        print('replay: column_track(%r) -> %s' % (inp['line'], [G.cols[i].name for i, a, b in tr]))
        for f in fails: print('  ', f)
        return bool(fails)
    if 'z' in inp:
        pos, z = inp['pos'], inp['z']
        Tset = G.truth(pos)
        T = Tset[0] if len(Tset) == 1 else None
        exp, strict = c12_oracle.expected_block(G, T, z)
        lays = G.geo.layerlist
        want = None if exp is None else G.geo.block_name(lays[exp[0]].name, G.cols[exp[1]].name)
        if 'block' in inp:
            r = G.geo.block_contains_point(inp['block'], np.array([pos[0], pos[1], z]))
            print('replay: block_contains_point(%r) -> %r' % (inp['block'], r)); return r is not True
        try: r = G.geo.block_name_containing_point(np.array([pos[0], pos[1], z]), qtree=G.q if inp.get('qtree') else None)
        except Exception as e: r = 'RAISE ' + type(e).__name__
        print('replay: block_name_containing_point(%r, %r, qtree=%s) -> %r ; required %r' % (pos, z, bool(inp.get('qtree')), r, want))
        return r != want
    pos = inp['pos']
    aid = inp.get('aid') or {'name': 'none'}
    c12_oracle.eval_point(G, pos, [{'name': 'none'}, aid] if aid.get('name') != 'none' else [aid], inp.get('class', '?'), out, check_corr=False)
    for f in out['failures']: print('replay:', f[1], f[3], '| required:', f[4])
    return bool(out['failures'])
