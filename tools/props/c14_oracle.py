"""C14 -- the property statement evaluated on the implementation alone (IAPWS97.py).

Nothing here uses the Coq model.  Every clause of the statement is one function; each takes
the imported implementation module `I`, a case-count `n`, and the check context `ctx`
(ctx.rng, ctx.count, ctx.failure, ctx.oracle_cases).

Independent transcription: the region-4 (saturation) and B23 coefficients and the region
limits below are typed from the IAPWS-IF97 release (Wagner et al. 2000, tables 34 and 1),
not read from the code under test."""
import math

TC_K = 273.15
T_CRIT_K = 647.096
P_CRIT = 22.064e6
# IAPWS-IF97 table 34 (region 4)
N4 = (0.11670521452767e4, -0.72421316703206e6, -0.17073846940092e2, 0.12020824702470e5,
      -0.32325550322333e7, 0.14915108613530e2, -0.48232657361591e4, 0.40511340542057e6,
      -0.23855557567849, 0.65017534844798e3)
# IAPWS-IF97 table 1 (B23)
N23 = (0.34805185628969e3, -0.11671859879975e1, 0.10192970039326e-2, 0.57254459862746e3, 0.13918839778870e2)

# tolerances (see DESIGN.md C14 oracle notes; measured values on the pinned tree in comments)
TOL_TSAT_K = 1e-8          # |tsat(sat t) - t|        measured <= 3.1e-11 K
TOL_SAT_REL = 1e-9         # |sat(tsat p) - p| / p    measured <= 1e-12
TOL_B23_K = 1e-8           # |b23t(b23p t) - t|       measured <= 1.7e-10 K
TOL_B23_REL = 1e-9         # |b23p(b23t p) - p| / p
TOL_IDENTITY = 2e-6        # scaled residual of the single-potential identity (5-point differences: measured <= 5e-9)
TOL_DV = 5e-4              # IF97 section 10: |dv|/v <= 0.05 % across the 1/3 and 2/3 boundaries
TOL_DH = 200.0             # IF97 section 10: |dh| <= 0.2 kJ/kg
REGION_MARGIN = 1e-6       # "away from the boundary curves": relative distance in pressure


def spec_psat(t):
    """IAPWS-IF97 eq. 30, independently transcribed (t in deg C)."""
    T = t + TC_K
    th = T + N4[8] / (T - N4[9])
    A = th * th + N4[0] * th + N4[1]
    B = N4[2] * th * th + N4[3] * th + N4[4]
    C = N4[5] * th * th + N4[6] * th + N4[7]
    return 1e6 * (2 * C / (-B + math.sqrt(B * B - 4 * A * C))) ** 4


def spec_b23p(t):
    T = t + TC_K
    return 1e6 * (N23[0] + N23[1] * T + N23[2] * T * T)


def spec_region(t, p):
    """IAPWS-IF97 section 3 (regions 1, 2, 3; region 5 is not implemented by the module).
    Returns the set of regions whose basic equation is valid at (t, p), or None when a
    boundary curve is closer than REGION_MARGIN (the caller skips those)."""
    if not (0.01 <= t <= 800.0 and 0.0 < p <= 100e6): return set()
    if t <= 350.0:
        ps = spec_psat(t)
        if abs(p - ps) <= REGION_MARGIN * ps: return None
        r = {1} if p > ps else {2}
        if t == 350.0 and p > ps: r.add(3)          # both closed at 623.15 K
        return r
    if t <= 590.0:
        pb = spec_b23p(t)
        if abs(p - pb) <= REGION_MARGIN * pb: return None
        return {3} if p > pb else {2}
    return {2}


def call(f, *a):
    try:
        r = f(*a)
    except Exception as e:
        return ('raise', type(e).__name__)
    return r


def isnum(x):
    try: return x is not None and not isinstance(x, tuple) and math.isfinite(float(x))
    except Exception: return False


def ispair(r):
    return isinstance(r, tuple) and len(r) == 2 and isnum(r[0]) and isnum(r[1])


# ---------------------------------------------------------------- saturation line
def sat_line(I, ctx, n, ts=None, ps=None):
    name = 'sat-tsat-inverse'
    tc = T_CRIT_K - TC_K
    explicit = ts is not None or ps is not None
    if not explicit:
        grid = [0.01 + (tc - 0.01) * k / (n - 1) for k in range(n)]
        grid[-1] = tc
        ts = [0.01, tc, math.nextafter(tc, 0.0), math.nextafter(0.01, 1.0)] + grid + [ctx.rng.uniform(0.01, tc) for _ in range(n)]
    ts = ts or []
    worst = 0.0
    for t in ts:
        ctx.count(('sat', t))
        p = call(I.sat, t)
        if not isnum(p) or not p > 0:
            ctx.failure(name, 'sat:undefined-on-saturation-line', {'fn': 'sat', 't': t}, repr(p), 'a positive pressure')
            continue
        t2 = call(I.tsat, p)
        if not isnum(t2):
            key = 'tsat:upper-endpoint' if t >= tc - 1e-6 else ('tsat:lower-endpoint' if t <= 0.01 + 1e-6 else 'tsat:undefined-on-saturation-line')
            ctx.failure(name, key, {'fn': 'tsat(sat(t))', 't': t}, 'sat(t)=%r, tsat(sat(t))=%r' % (float(p), t2),
                        'tsat(sat(t)) = t on the closed interval 0.01..tcritical')
            continue
        worst = max(worst, abs(t2 - t))
        if abs(t2 - t) > TOL_TSAT_K:
            ctx.failure(name, 'tsat:not-inverse', {'fn': 'tsat(sat(t))', 't': t}, 'tsat(sat(t))=%r' % float(t2), '|tsat(sat(t)) - t| <= %g K' % TOL_TSAT_K)
    plo, phi = spec_psat(0.01), P_CRIT
    if not explicit:
        ps = [plo * 1.0000001, phi] + [math.exp(math.log(plo * 1.0000001) + (math.log(phi) - math.log(plo * 1.0000001)) * k / (n - 1)) for k in range(n)]
        ps = [min(p, phi) for p in ps]
    ps = ps or []
    worstp = 0.0
    for p in ps:
        ctx.count(('tsat', p))
        t = call(I.tsat, p)
        if not isnum(t):
            ctx.failure(name, 'tsat:undefined-on-saturation-line', {'fn': 'tsat', 'p': p}, repr(t), 'a temperature')
            continue
        p2 = call(I.sat, t)
        if not isnum(p2):
            key = 'sat:upper-endpoint' if p >= phi * (1 - 1e-9) else 'sat:undefined-on-saturation-line'
            ctx.failure(name, key, {'fn': 'sat(tsat(p))', 'p': p}, 'tsat(p)=%r, sat(tsat(p))=%r' % (float(t), p2), 'sat(tsat(p)) = p')
            continue
        worstp = max(worstp, abs(p2 - p) / p)
        if abs(p2 - p) > TOL_SAT_REL * p:
            ctx.failure(name, 'sat:not-inverse', {'fn': 'sat(tsat(p))', 'p': p}, 'sat(tsat(p))=%r' % float(p2), 'relative error <= %g' % TOL_SAT_REL)
    ctx.oracle_cases(name, len(ts) + len(ps), worst_abs_K=max(worst, ctx.oracle.get(name, {}).get('distribution', {}).get('worst_abs_K', 0.0)),
                     worst_rel_p=max(worstp, ctx.oracle.get(name, {}).get('distribution', {}).get('worst_rel_p', 0.0)))


# ---------------------------------------------------------------- B23
def b23_line(I, ctx, n, ts=None, ps=None):
    name = 'b23-inverse'
    explicit = ts is not None or ps is not None
    if not explicit:
        ts = [350.0, 590.0] + [350.0 + 240.0 * k / (n - 1) for k in range(n)] + [ctx.rng.uniform(350.0, 590.0) for _ in range(n)]
    ts = ts or []
    worst = 0.0
    for t in ts:
        ctx.count(('b23', t))
        p = call(I.b23p, t)
        t2 = call(I.b23t, p) if isnum(p) else None
        if not isnum(t2):
            ctx.failure(name, 'b23:undefined', {'fn': 'b23t(b23p(t))', 't': t}, 'b23p=%r b23t=%r' % (p, t2), 'defined on 350..590 degC')
            continue
        worst = max(worst, abs(t2 - t))
        if abs(t2 - t) > TOL_B23_K:
            ctx.failure(name, 'b23:not-inverse', {'fn': 'b23t(b23p(t))', 't': t}, 'b23t(b23p(t))=%r' % float(t2), '|.. - t| <= %g K' % TOL_B23_K)
        # against the independent transcription (0.05 % as for the saturation line is far more than rounding)
        if abs(p - spec_b23p(t)) > 1e-9 * p:
            ctx.failure(name, 'b23p:differs-from-release', {'fn': 'b23p', 't': t}, repr(float(p)), 'IF97 eq. 5: %r' % spec_b23p(t))
    plo, phi = spec_b23p(350.0), 100e6
    worstp = 0.0
    if not explicit: ps = [plo, phi] + [plo + (phi - plo) * k / (n - 1) for k in range(n)]
    ps = ps or []
    for p in ps:
        ctx.count(('b23p', p))
        t = call(I.b23t, p)
        p2 = call(I.b23p, t) if isnum(t) else None
        if not isnum(p2):
            ctx.failure(name, 'b23:undefined', {'fn': 'b23p(b23t(p))', 'p': p}, 'b23t=%r b23p=%r' % (t, p2), 'defined on the boundary')
            continue
        worstp = max(worstp, abs(p2 - p) / p)
        if abs(p2 - p) > TOL_B23_REL * p:
            ctx.failure(name, 'b23:not-inverse', {'fn': 'b23p(b23t(p))', 'p': p}, repr(float(p2)), 'relative error <= %g' % TOL_B23_REL)
    ctx.oracle_cases(name, len(ts) + len(ps), worst_abs_K=worst, worst_rel_p=worstp)


# ---------------------------------------------------------------- state generators
def upper_p_region2(t):
    if t <= 350.0: return spec_psat(t)
    if t <= 590.0: return min(spec_b23p(t), 100e6)
    return 100e6


def gen_region1(rng, n, edges=True):
    """(t, p) with 0.01 <= t <= 350, psat(t) <= p <= 100 MPa; boundary-biased."""
    out = []
    for k in range(n):
        r = rng.random()
        t = rng.uniform(0.01, 350.0)
        if edges and r < 0.15: t = rng.choice([0.01, 350.0, 0.01 + rng.random() * 0.5, 350.0 - rng.random() * 0.5])
        ps = spec_psat(t)
        p = rng.uniform(ps, 100e6)
        r = rng.random()
        if edges and r < 0.15: p = ps * (1 + rng.random() * 1e-3)
        elif edges and r < 0.3: p = 100e6 * (1 - rng.random() * 1e-3)
        elif r < 0.5: p = math.exp(rng.uniform(math.log(ps), math.log(100e6)))
        out.append((t, p))
    return out


def gen_region2(rng, n, edges=True):
    out = []
    for k in range(n):
        t = rng.uniform(0.01, 800.0)
        r = rng.random()
        if edges and r < 0.2: t = rng.choice([0.01, 350.0, 590.0, 800.0, rng.uniform(0.01, 1.0), rng.uniform(349.0, 351.0), rng.uniform(589.0, 591.0), rng.uniform(799.0, 800.0)])
        pm = upper_p_region2(t)
        r = rng.random()
        if edges and r < 0.25: p = pm * (1 - rng.random() * 1e-3)
        elif r < 0.6: p = math.exp(rng.uniform(math.log(10.0), math.log(pm)))
        else: p = rng.uniform(10.0, pm)
        out.append((t, p))
    return out


def p3(I, d, t):
    r = call(I.super, d, t)
    return float(r[0]) if ispair(r) else float('nan')


def solve_d3(I, t, p):
    """Density of the region-3 equation at (t, p) on the stable branch: the liquid-like root
    (scan down from 800 kg/m3, above every region-3 density) when p >= psat(t) or t >= tc, the vapour-like root (scan up from
    60 kg/m3) when p < psat(t).  Returns None when no bracket is found."""
    tc = T_CRIT_K - TC_K
    liquid = (t >= tc) or (p >= spec_psat(t))
    if liquid:
        hi, lo, step = 800.0, None, 0.97
        if not p3(I, hi, t) > p: return None
        d = hi
        while d > 50.0:
            d2 = d * step
            if p3(I, d2, t) <= p: lo, hi = d2, d; break
            d = d2
        if lo is None: return None
    else:
        lo, hi, step = 60.0, None, 1.03
        if not p3(I, lo, t) < p: return None
        d = lo
        while d < 1000.0:
            d2 = d * step
            if p3(I, d2, t) >= p: lo, hi = d, d2; break
            d = d2
        if hi is None: return None
    for _ in range(80):
        mid = 0.5 * (lo + hi)
        if p3(I, mid, t) > p: hi = mid
        else: lo = mid
    return 0.5 * (lo + hi)


def gen_region3(I, rng, n, edges=True):
    """(d, t, p) with 350 <= t <= 590, b23p(t) <= p <= 100 MPa, d the stable root.  States within
    0.2 % (pressure) of the saturation curve are not generated (inside/at the dome)."""
    out = []
    tries = 0
    while len(out) < n and tries < 20 * n + 100:
        tries += 1
        t = rng.uniform(350.0, 590.0)
        r = rng.random()
        if edges and r < 0.25: t = rng.choice([350.0, rng.uniform(350.0, 351.0), rng.uniform(373.0, 375.0), rng.uniform(589.0, 590.0)])
        pl = spec_b23p(t)
        if pl >= 100e6: continue
        r = rng.random()
        if edges and r < 0.15: p = pl * (1 + rng.random() * 1e-3)
        elif edges and r < 0.3: p = 100e6 * (1 - rng.random() * 1e-3)
        else: p = rng.uniform(pl, 100e6)
        if t < T_CRIT_K - TC_K and abs(p - spec_psat(t)) < 2e-3 * p: continue
        d = solve_d3(I, t, p)
        if d is None: continue
        out.append((d, t, p))
    return out


# ---------------------------------------------------------------- single potential identity
def d5(f, x, h):
    return (-f(x + 2 * h) + 8 * f(x + h) - 8 * f(x - h) + f(x - 2 * h)) / (12 * h)


def identity_gibbs(I, ctx, fname, states):
    """(du/dp)_T = -T (dv/dT)_p - p (dv/dp)_T for a (density, energy) pair derived from one Gibbs
    potential; 5-point differences; scaled by max(|T v_T|, |p v_p|) (DESIGN.md C14 oracle notes)."""
    fn = getattr(I, fname)
    name = 'single-potential-' + fname
    tmax = 350.0 if fname == 'cowat' else 800.0
    worst = 0.0
    n = 0
    for (t, p) in states:
        ht = 0.02
        # liquid: compressibility is ~5e-10/Pa, a pressure step below ~1e4 Pa drowns in rounding (the
        # region-1 equation is smooth through p <= 0, so the stencil may reach below the state);
        # steam: relative step
        hp = 2e4 if fname == 'cowat' else 1e-3 * p
        # keep the stencil inside the function's own range checks
        t0 = min(max(t, 0.01 + 2 * ht), tmax - 2 * ht)
        p0 = min(p, 100e6 - 2 * hp)
        ctx.count((fname, 'id', t0, p0)); n += 1
        try:
            v = lambda a, b: 1.0 / float(fn(a, b)[0])
            u = lambda a, b: float(fn(a, b)[1])
            T = t0 + TC_K
            up = d5(lambda x: u(t0, x), p0, hp)
            vT = d5(lambda x: v(x, p0), t0, ht)
            vp = d5(lambda x: v(t0, x), p0, hp)
            res = abs(up + T * vT + p0 * vp) / max(abs(T * vT), abs(p0 * vp))
        except Exception as e:
            ctx.failure(name, fname + ':raises', {'fn': fname, 't': t0, 'p': p0}, repr(e), 'a (density, energy) pair')
            continue
        if not (res == res):
            ctx.failure(name, fname + ':not-finite', {'fn': fname, 't': t0, 'p': p0}, repr(call(fn, t0, p0)), 'finite density and energy')
            continue
        worst = max(worst, res)
        if res > TOL_IDENTITY:
            ctx.failure(name, fname + ':potential-identity', {'fn': fname, 't': t0, 'p': p0, 'ht': ht, 'hp': hp},
                        'du/dp=%.9g, -T dv/dT - p dv/dp=%.9g, scaled residual %.3g' % (up, -T * vT - p0 * vp, res),
                        'scaled residual <= %g' % TOL_IDENTITY)
    ctx.oracle_cases(name, n, worst_scaled_residual=worst)


def identity_helmholtz(I, ctx, states):
    """(du/drho)_T = (p - T (dp/dT)_rho) / rho^2 for super(d, t) (one Helmholtz potential)."""
    name = 'single-potential-super'
    worst = 0.0
    n = 0
    for (d, t, p) in states:
        ht, hd = 0.02, 1e-3 * d
        ctx.count(('super', 'id', d, t)); n += 1
        try:
            T = t + TC_K
            ud = d5(lambda x: float(I.super(x, t)[1]), d, hd)
            pT = d5(lambda x: float(I.super(d, x)[0]), t, ht)
            pp = float(I.super(d, t)[0])
            res = abs(ud * d * d - (pp - T * pT)) / max(abs(pp), abs(T * pT))
        except Exception as e:
            ctx.failure(name, 'super:raises', {'fn': 'super', 'd': d, 't': t}, repr(e), 'a (pressure, energy) pair')
            continue
        if not (res == res):
            ctx.failure(name, 'super:not-finite', {'fn': 'super', 'd': d, 't': t}, repr(call(I.super, d, t)), 'finite values')
            continue
        worst = max(worst, res)
        if res > TOL_IDENTITY:
            ctx.failure(name, 'super:potential-identity', {'fn': 'super', 'd': d, 't': t, 'ht': ht, 'hd': hd},
                        'rho^2 du/drho=%.9g, p - T dp/dT=%.9g, scaled residual %.3g' % (ud * d * d, pp - T * pT, res),
                        'scaled residual <= %g' % TOL_IDENTITY)
    ctx.oracle_cases(name, n, worst_scaled_residual=worst)


# ---------------------------------------------------------------- monotone density, viscosity
def visc_key(d, mu):
    """finding class of a viscosity failure: the density equal to dcritical makes delta - 1 == 0,
    which power_array inverts"""
    if d == 322.0 and isinstance(mu, tuple) and mu[:2] == ('raise', 'ZeroDivisionError'): return 'visc:critical-density'
    return 'visc:not-positive'


def monotone_and_visc(I, ctx, s1, s2, s3):
    name = 'density-increases-with-pressure'
    nv = 0
    vmin = float('inf')
    for fname, states in (('cowat', s1), ('supst', s2)):
        fn = getattr(I, fname)
        for (t, p) in states:
            dp = max(1e-3 * p, 1.0)
            pa, pb = (p, p + dp) if p + dp <= 100e6 else (p - dp, p)
            ctx.count((fname, 'mono', t, p))
            ra, rb = call(fn, t, pa), call(fn, t, pb)
            if not (ispair(ra) and ispair(rb)):
                ctx.failure(name, fname + ':undefined-in-range', {'fn': fname, 't': t, 'p': pa, 'p2': pb}, '%r, %r' % (ra, rb), 'values inside the stated range')
                continue
            if not (float(rb[0]) > float(ra[0]) > 0):
                ctx.failure(name, fname + ':density-not-increasing', {'fn': fname, 't': t, 'p': pa, 'p2': pb},
                            'rho(p)=%r rho(p2)=%r' % (float(ra[0]), float(rb[0])), '0 < rho(t,p) < rho(t,p2) for p < p2')
            mu = call(I.visc, float(ra[0]), t)
            nv += 1
            if not (isnum(mu) and mu > 0):
                ctx.failure('viscosity-positive', visc_key(float(ra[0]), mu), {'fn': 'visc', 'd': float(ra[0]), 't': t}, repr(mu), 'visc > 0')
            else: vmin = min(vmin, float(mu))
    for (d, t, p) in s3:
        d2 = d * (1 + 1e-3)
        ctx.count(('super', 'mono', d, t))
        # d is the stable root; stay outside the dome: d2 > d on the liquid side is further out, on the
        # vapour side (d below the critical density, t subcritical) step downwards instead
        if t < T_CRIT_K - TC_K and p < spec_psat(t): d2 = d * (1 - 1e-3)
        ra, rb = call(I.super, d, t), call(I.super, d2, t)
        if not (ispair(ra) and ispair(rb)):
            ctx.failure(name, 'super:undefined-in-range', {'fn': 'super', 'd': d, 't': t, 'd2': d2}, '%r, %r' % (ra, rb), 'values')
            continue
        if not ((float(rb[0]) - float(ra[0])) * (d2 - d) > 0):
            ctx.failure(name, 'super:pressure-not-increasing', {'fn': 'super', 'd': d, 't': t, 'd2': d2},
                        'p(d)=%r p(d2)=%r' % (float(ra[0]), float(rb[0])), 'pressure strictly increasing with density outside the two-phase dome')
        mu = call(I.visc, d, t)
        nv += 1
        if not (isnum(mu) and mu > 0):
            ctx.failure('viscosity-positive', 'visc:not-positive', {'fn': 'visc', 'd': d, 't': t}, repr(mu), 'visc > 0')
        else: vmin = min(vmin, float(mu))
    # the critical density itself, as the Python float the module defines (dcritical = 322.0)
    for t in (T_CRIT_K - TC_K, 0.01, 100.0, 400.0, 800.0):
        d = 322.0
        ctx.count(('visc', d, t))
        mu = call(I.visc, d, t)
        nv += 1
        if not (isnum(mu) and mu > 0):
            ctx.failure('viscosity-positive', visc_key(d, mu), {'fn': 'visc', 'd': d, 't': t}, repr(mu), 'visc > 0')
        else: vmin = min(vmin, float(mu))
    ctx.oracle_cases(name, len(s1) + len(s2) + len(s3))
    ctx.oracle_cases('viscosity-positive', nv, min_viscosity=vmin)


# ---------------------------------------------------------------- routines are functions of the VALUES of their arguments
def _same(a, b, tol=1e-12):
    """two results of a routine agree (None / int / float / tuple / ndarray), to a relative tolerance"""
    if a is None or b is None: return a is None and b is None
    if isinstance(a, tuple) and len(a) and a[0] == 'raise': return isinstance(b, tuple) and len(b) and b[0] == 'raise'
    if isinstance(b, tuple) and len(b) and b[0] == 'raise': return False
    if isinstance(a, tuple) or isinstance(b, tuple):
        return isinstance(a, tuple) and isinstance(b, tuple) and len(a) == len(b) and all(_same(x, y, tol) for x, y in zip(a, b))
    try:
        import numpy as np
        x, y = np.asarray(a, dtype=float), np.asarray(b, dtype=float)
        if x.shape != y.shape: return False
        return bool(np.all((np.abs(x - y) <= tol * np.abs(y)) | ((x != x) & (y != y))))
    except Exception:
        return False


def purity_cases(I, rng, n):
    """(routine name, tuple of float arguments): valid states of every routine"""
    tc = T_CRIT_K - TC_K
    cs = []
    for k in range(n):
        t = rng.uniform(350.0, 590.0); cs.append(('b23p', (t,)))
        cs.append(('b23t', (rng.uniform(16.6e6, 100e6),)))
        cs.append(('sat', (rng.uniform(0.01, tc),)))
        cs.append(('tsat', (math.exp(rng.uniform(math.log(700.0), math.log(P_CRIT))),)))
        t = rng.uniform(0.01, 350.0); cs.append(('cowat', (t, rng.uniform(spec_psat(t), 100e6))))
        t = rng.uniform(0.01, 800.0); cs.append(('supst', (t, rng.uniform(10.0, upper_p_region2(t)))))
        cs.append(('super', (rng.uniform(150.0, 700.0), rng.uniform(375.0, 590.0))))
        cs.append(('visc', (10 ** rng.uniform(-2, 3), rng.uniform(0.01, 800.0))))
        cs.append(('region', (rng.uniform(0.01, 800.0), rng.uniform(1.0, 100e6))))
    return cs


def purity(I, ctx, n, only=None):
    """General clause behind every 'for all temperatures / pressures' of the statement: what a routine
    returns for a state depends on the VALUES it is given and on nothing else -- not on earlier calls
    (order of evaluation), not on the numeric container that carries the value (Python float,
    np.float64, 0-d ndarray, and -- where the routine accepts them -- an element of a 1-d ndarray or of a
    row of a 2-d ndarray, the way a grid of boundary temperatures is evaluated in one call); and the
    routine leaves the caller's arguments as they were and returns no view of them."""
    import numpy as np
    name = 'pure-function-of-argument-values'
    rng = ctx.rng
    cases = only if only is not None else purity_cases(I, rng, n)
    ncase = 0
    def module_state():
        st = {}
        for k, v in vars(I).items():
            if k.startswith('__'): continue
            if isinstance(v, np.ndarray): st[k] = v.copy()
            elif isinstance(v, (int, float, tuple)) and not isinstance(v, bool): st[k] = v
        return st
    state0 = module_state()
    ref = []
    for fn, args in cases:                      # reference: plain Python floats, in generation order
        ref.append(call(getattr(I, fn), *[float(a) for a in args]))
    # (1) order of evaluation: shuffled, then reversed, then in order again
    idx = list(range(len(cases)))
    for order in (rng.sample(idx, len(idx)), idx[::-1], idx):
        for k in order:
            fn, args = cases[k]
            ctx.count((fn, 'order', args)); ncase += 1
            r = call(getattr(I, fn), *[float(a) for a in args])
            if not _same(r, ref[k], 0.0):
                ctx.failure(name, fn + ':depends-on-earlier-calls', {'fn': fn, 'args': list(args), 'clause': 'order'},
                            '%r, earlier in the same process %r' % (r, ref[k]), 'the same result whenever the call is made')
    # (2) containers, mutation, aliasing, repeatability
    def containers(args):
        yield 'np.float64', [np.float64(a) for a in args], None
        yield '0-d ndarray', [np.array(a, dtype=float) for a in args], None
        pad = [rng.uniform(0.9, 1.1) for _ in range(4)]
        pos = rng.randrange(5)
        vecs = []
        for a in args:
            v = [a * f for f in pad]; v.insert(pos, a); vecs.append(v)
        yield '1-d ndarray', [np.array(v, dtype=float) for v in vecs], pos
        yield 'row of a 2-d ndarray', [np.array([v, v[::-1]], dtype=float)[0] for v in vecs], pos
    nacc = {}
    for k, (fn, args) in enumerate(cases):
        f = getattr(I, fn)
        for cname, cargs, pos in containers(args):
            before = [np.array(c, dtype=float, copy=True) for c in cargs]
            r = call(f, *cargs)
            if pos is not None and isinstance(r, tuple) and len(r) and r[0] == 'raise':
                nacc[(fn, 'not accepted')] = nacc.get((fn, 'not accepted'), 0) + 1
                # a routine may refuse arrays; it must still leave them alone
                if not all(np.array_equal(np.asarray(c, dtype=float), b) for c, b in zip(cargs, before)):
                    ctx.failure(name, fn + ':mutates-argument', {'fn': fn, 'args': list(args), 'container': cname, 'clause': 'container'},
                                'arguments after the (failed) call: %r' % ([np.asarray(c).tolist() for c in cargs],), 'arguments unchanged')
                continue
            ctx.count((fn, cname, args)); ncase += 1
            nacc[(fn, cname)] = nacc.get((fn, cname), 0) + 1
            inp = {'fn': fn, 'args': list(args), 'container': cname, 'clause': 'container'}
            if not all(np.array_equal(np.asarray(c, dtype=float), b) for c, b in zip(cargs, before)):
                ctx.failure(name, fn + ':mutates-argument', inp,
                            'arguments after the call: %r' % ([np.asarray(c).tolist() for c in cargs],),
                            'the caller\'s arguments unchanged: %r' % ([b.tolist() for b in before],))
                continue
            got = r
            if pos is not None:
                try: got = tuple(x[pos] for x in r) if isinstance(r, tuple) else r[pos]
                except Exception: got = ('shape', repr(r)[:80])
            if not _same(got, ref[k]):
                ctx.failure(name, fn + ':value-depends-on-argument-type', inp, repr(got)[:200], 'as for Python floats: %r' % (ref[k],))
                continue
            if any(isinstance(x, np.ndarray) and x.ndim and any(np.shares_memory(x, c) for c in cargs if isinstance(c, np.ndarray))
                   for x in (r if isinstance(r, tuple) else (r,))):
                ctx.failure(name, fn + ':result-aliases-argument', inp, 'the returned array shares memory with an argument', 'a fresh result')
                continue
            r2 = call(f, *cargs)                 # the caller goes on using the same objects
            if not _same(r2, r, 0.0):
                ctx.failure(name, fn + ':not-repeatable', inp, 'second call on the same objects: %r, first: %r' % (repr(r2)[:120], repr(r)[:120]),
                            'the same result')
    # (3) the module's own tables and constants are as they were before all these calls
    state1 = module_state()
    for k in sorted(set(state0) | set(state1)):
        a, b = state0.get(k), state1.get(k)
        same = (a is not None and b is not None and
                (np.array_equal(a, b) if isinstance(a, np.ndarray) or isinstance(b, np.ndarray) else (a == b or (a != a and b != b))))
        if not same:
            ctx.failure(name, 'module:state-changed-by-calls', {'fn': 'module', 'args': [], 'name': k, 'clause': 'state'},
                        '%s is now %s' % (k, repr(b)[:120]), 'module-level data unchanged by evaluating the routines (was %s)' % repr(a)[:120])
    ctx.oracle_cases(name, ncase, accepted={'%s/%s' % k: v for k, v in sorted(nacc.items())})



# ---------------------------------------------------------------- region classifier
def classifier(I, ctx, n, pts=None):
    name = 'region-classifier'
    rng = ctx.rng
    explicit = pts is not None
    pts = pts or []
    for k in range(0 if explicit else n):
        r = rng.random()
        t = rng.uniform(0.01, 800.0)
        p = rng.uniform(1.0, 100e6)
        if r < 0.35:      # straddle the saturation curve
            t = rng.uniform(0.01, 350.0); p = spec_psat(t) * (1 + rng.choice([-1, 1]) * 10 ** rng.uniform(-5.5, -1))
        elif r < 0.6:     # straddle B23
            t = rng.uniform(350.0, 590.0); p = spec_b23p(t) * (1 + rng.choice([-1, 1]) * 10 ** rng.uniform(-5.5, -1))
        elif r < 0.75:    # straddle 350 / 590 / the outer limits
            t = rng.choice([350.0, 590.0, 0.01, 800.0]) + rng.choice([-1, 0, 1]) * 10 ** rng.uniform(-9, 0)
        elif r < 0.8:
            p = rng.choice([100e6, 100e6 * (1 + 1e-9), 100e6 * (1 - 1e-9), 1e-3])
        pts.append((t, min(max(p, 1e-6), 1.2e8)))
    nskip = 0
    hist = {}
    for (t, p) in pts:
        want = spec_region(t, p)
        if want is None: nskip += 1; continue
        ctx.count(('region', t, p))
        got = call(I.region, t, p)
        hist[str(got)] = hist.get(str(got), 0) + 1
        if want == set():
            if got is not None:
                ctx.failure(name, 'region:out-of-range-not-none', {'fn': 'region', 't': t, 'p': p}, repr(got), 'None outside 0.01..800 degC, 0..100 MPa')
            continue
        if got not in want:
            ctx.failure(name, 'region:wrong-region', {'fn': 'region', 't': t, 'p': p}, repr(got), 'one of %s (IF97 section 3)' % sorted(want))
            continue
        # the named region's equation is valid (returns a value) at the state
        if got == 1 and not ispair(call(I.cowat, t, p)):
            ctx.failure(name, 'region:equation-undefined', {'fn': 'cowat', 't': t, 'p': p}, repr(call(I.cowat, t, p)), 'cowat defined in region 1')
        if got == 2 and not ispair(call(I.supst, t, p)):
            ctx.failure(name, 'region:equation-undefined', {'fn': 'supst', 't': t, 'p': p}, repr(call(I.supst, t, p)), 'supst defined in region 2')
    # on the curves themselves: the chosen region must be closed there
    for k in range(0 if explicit else max(20, n // 50)):
        t = rng.uniform(0.01, 350.0)
        p = call(I.sat, t)
        got = call(I.region, t, p) if isnum(p) else None
        ctx.count(('region-on-sat', t))
        if got not in (1, 2):
            ctx.failure(name, 'region:on-saturation-curve', {'fn': 'region', 't': t, 'p': p}, repr(got), '1 or 2 (both closed on the curve)')
        t = rng.uniform(350.0, 590.0)
        p = call(I.b23p, t)
        if isnum(p) and p <= 100e6:
            got = call(I.region, t, p)
            if got not in (2, 3):
                ctx.failure(name, 'region:on-b23-curve', {'fn': 'region', 't': t, 'p': p}, repr(got), '2 or 3 (both closed on the curve)')
    ctx.oracle_cases(name, len(pts) - nskip, skipped_near_curves=nskip, classes=hist)


# ---------------------------------------------------------------- boundary consistency
def boundaries(I, ctx, n, tsat_list=None, p13=None, t23=None):
    name = 'boundary-consistency'
    rng = ctx.rng
    worst = {'dv13': 0.0, 'dh13': 0.0, 'dv23': 0.0, 'dh23': 0.0, 'dps': 0.0}
    explicit = not (tsat_list is None and p13 is None and t23 is None)
    if not explicit:
        tsat_list = [0.01 + (T_CRIT_K - TC_K - 0.01) * k / (n - 1) for k in range(n)]
        ps_ = spec_psat(350.0)
        p13 = [ps_ + (100e6 - ps_) * (k / (n - 1) if k % 2 == 0 else rng.random()) for k in range(n)]
        t23 = [350.0 + 240.0 * (k / (n - 1) if k % 2 == 0 else rng.random()) for k in range(n)]
    # saturation curve of the module against the release (0.05 % stated for p_s)
    for t in (tsat_list or []):
        ps = call(I.sat, t)
        ctx.count(('ps', t))
        if not isnum(ps): continue          # reported by sat_line
        e = abs(ps - spec_psat(t)) / spec_psat(t)
        worst['dps'] = max(worst['dps'], e)
        if e > 5e-4:
            ctx.failure(name, 'sat:differs-from-release', {'fn': 'sat', 't': t}, repr(float(ps)), 'IF97 eq. 30 within 0.05 %%: %r' % spec_psat(t))
    # 1/3 at 350 degC
    ps = spec_psat(350.0)
    for p in (p13 or []):
        ctx.count(('b13', p))
        r1 = call(I.cowat, 350.0, p)
        d3 = solve_d3(I, 350.0, max(p, ps * (1 + 1e-9)))
        if not ispair(r1) or d3 is None:
            ctx.failure(name, 'boundary13:undefined', {'fn': 'cowat/super', 't': 350.0, 'p': p}, '%r, d3=%r' % (r1, d3), 'both equations defined on the boundary')
            continue
        d1, u1 = float(r1[0]), float(r1[1])
        u3 = float(I.super(d3, 350.0)[1])
        dv = abs(d1 / d3 - 1.0)
        dh = abs((u3 + p / d3) - (u1 + p / d1))
        worst['dv13'] = max(worst['dv13'], dv); worst['dh13'] = max(worst['dh13'], dh)
        if dv > TOL_DV or dh > TOL_DH:
            ctx.failure(name, 'boundary13:inconsistent', {'fn': 'cowat/super', 't': 350.0, 'p': p},
                        'rho1=%r rho3=%r (dv/v=%.3g), h3-h1=%.4g J/kg' % (d1, d3, dv, dh), 'dv/v <= 0.05 %, |dh| <= 200 J/kg (IF97 section 10)')
    # 2/3 along B23
    for t in (t23 or []):
        p = min(spec_b23p(t), 100e6)
        ctx.count(('b23c', t))
        r2 = call(I.supst, t, p)
        tc = T_CRIT_K - TC_K
        if t < tc and abs(p - spec_psat(t)) < 1e-6 * p: p = p * (1 - 2e-6)
        d3 = solve_d3(I, t, p)
        if not ispair(r2) or d3 is None:
            ctx.failure(name, 'boundary23:undefined', {'fn': 'supst/super', 't': t, 'p': p}, '%r, d3=%r' % (r2, d3), 'both equations defined on the boundary')
            continue
        d2, u2 = float(r2[0]), float(r2[1])
        u3 = float(I.super(d3, t)[1])
        dv = abs(d2 / d3 - 1.0)
        dh = abs((u3 + p / d3) - (u2 + p / d2))
        worst['dv23'] = max(worst['dv23'], dv); worst['dh23'] = max(worst['dh23'], dh)
        if dv > TOL_DV or dh > TOL_DH:
            ctx.failure(name, 'boundary23:inconsistent', {'fn': 'supst/super', 't': t, 'p': p},
                        'rho2=%r rho3=%r (dv/v=%.3g), h3-h2=%.4g J/kg' % (d2, d3, dv, dh), 'dv/v <= 0.05 %, |dh| <= 200 J/kg (IF97 section 10)')
    ctx.oracle_cases(name, len(tsat_list or []) + len(p13 or []) + len(t23 or []), **worst)


def sweep(I, ctx, scale=1):
    """The whole statement.  scale=1: quick tier sizes."""
    rng = ctx.rng
    sat_line(I, ctx, 400 * scale)
    b23_line(I, ctx, 300 * scale)
    s1 = gen_region1(rng, 1200 * scale)
    s2 = gen_region2(rng, 1200 * scale)
    s3 = gen_region3(I, rng, 300 * scale)
    for s in (s1[:2] + s2[:2]): ctx.sample({'t': s[0], 'p': s[1]})
    for s in s3[:2]: ctx.sample({'d': s[0], 't': s[1], 'p': s[2]})
    identity_gibbs(I, ctx, 'cowat', s1)
    identity_gibbs(I, ctx, 'supst', s2)
    identity_helmholtz(I, ctx, s3)
    monotone_and_visc(I, ctx, s1, s2, s3)
    classifier(I, ctx, 4000 * scale)
    boundaries(I, ctx, 120 * scale)
    purity(I, ctx, 12 * scale)


# ---------------------------------------------------------------- deep search and replay
def corner_states(I, rng, n):
    """States in the corners and along the edges of regions 1, 2, 3 (where one high-power term of
    a sum dominates: extreme reduced pressure / temperature)."""
    s1, s2 = [], []
    for _ in range(n):
        t = rng.choice([rng.uniform(0.01, 3.0), rng.uniform(345.0, 350.0), rng.uniform(0.01, 350.0)])
        ps = spec_psat(t)
        p = rng.choice([ps * (1 + rng.random() * 1e-2), 100e6 * (1 - rng.random() * 1e-2), rng.uniform(ps, 100e6)])
        s1.append((t, p))
        t = rng.choice([rng.uniform(0.01, 5.0), rng.uniform(340.0, 360.0), rng.uniform(585.0, 595.0), rng.uniform(790.0, 800.0), rng.uniform(0.01, 800.0)])
        pm = upper_p_region2(t)
        p = rng.choice([pm * (1 - rng.random() * 1e-2), 10 ** rng.uniform(0, 3), rng.uniform(1.0, pm)])
        s2.append((t, min(p, pm)))
    return s1, s2


def deep_sweep(I, ctx, rounds):
    rng = ctx.rng
    for r in range(rounds):
        s1, s2 = corner_states(I, rng, 1500)
        s3 = gen_region3(I, rng, 600)
        identity_gibbs(I, ctx, 'cowat', s1)
        identity_gibbs(I, ctx, 'supst', s2)
        identity_helmholtz(I, ctx, s3)
        monotone_and_visc(I, ctx, s1, s2, s3)
        boundaries(I, ctx, 400)
        classifier(I, ctx, 4000)
        purity(I, ctx, 12)
        sat_line(I, ctx, 500)
        b23_line(I, ctx, 300)
        if ctx.new_failures: return


class MiniCtx:
    """records failures of a single clause evaluation (replay)"""
    def __init__(self):
        import random
        self.rng = random.Random(0); self.fails = []; self.oracle = {}
    def count(self, *a, **k): pass
    def oracle_cases(self, *a, **k): pass
    def sample(self, *a, **k): pass
    def failure(self, name, key, inp, observed, required): self.fails.append((key, inp, observed, required))


def replay_one(I, key, inp):
    """Re-evaluate the clause that failed on the recorded input; True iff it still fails."""
    m = MiniCtx()
    fn = inp.get('fn', '')
    if inp.get('clause') == 'state':
        purity(I, m, 4)
    elif inp.get('clause') in ('order', 'container'):
        purity(I, m, 0, only=[(fn, tuple(inp['args']))] * (3 if inp['clause'] == 'order' else 1))
    elif key.startswith(('tsat:', 'sat:')) and 'differs' not in key:
        if 't' in inp: sat_line(I, m, 0, ts=[inp['t']], ps=[])
        else: sat_line(I, m, 0, ts=[], ps=[inp['p']])
    elif key.startswith('sat:differs'):
        boundaries(I, m, 0, tsat_list=[inp['t']], p13=[], t23=[])
    elif key.startswith(('b23:', 'b23p:')):
        if 't' in inp: b23_line(I, m, 0, ts=[inp['t']], ps=[])
        else: b23_line(I, m, 0, ts=[], ps=[inp['p']])
    elif key.startswith('region:'):
        if 'on-' in key:
            got = call(I.region, inp['t'], inp['p'])
            ok = got in ((1, 2) if 'saturation' in key else (2, 3))
            if not ok: m.fails.append((key, inp, repr(got), ''))
        else:
            classifier(I, m, 0, pts=[(inp['t'], inp['p'])])
            if key.endswith('equation-undefined') and not m.fails:
                r = call(getattr(I, fn), inp['t'], inp['p'])
                if not ispair(r): m.fails.append((key, inp, repr(r), ''))
    elif key.startswith('boundary13'):
        boundaries(I, m, 0, tsat_list=[], p13=[inp['p']], t23=[])
    elif key.startswith('boundary23'):
        boundaries(I, m, 0, tsat_list=[], p13=[], t23=[inp['t']])
    elif key.startswith('visc:'):
        mu = call(I.visc, inp['d'], inp['t'])
        if not (isnum(mu) and mu > 0): m.fails.append((key, inp, repr(mu), 'visc > 0'))
    elif key.startswith('super:'):
        if 'd2' in inp:
            ra, rb = call(I.super, inp['d'], inp['t']), call(I.super, inp['d2'], inp['t'])
            if not (ispair(ra) and ispair(rb)) or not ((float(rb[0]) - float(ra[0])) * (inp['d2'] - inp['d']) > 0):
                m.fails.append((key, inp, '%r, %r' % (ra, rb), 'pressure increasing with density'))
        else:
            identity_helmholtz(I, m, [(inp['d'], inp['t'], None)])
    elif key.startswith(('cowat:', 'supst:')):
        f = key.split(':')[0]
        if 'p2' in inp:
            ra, rb = call(getattr(I, f), inp['t'], inp['p']), call(getattr(I, f), inp['t'], inp['p2'])
            if not (ispair(ra) and ispair(rb)) or not (float(rb[0]) > float(ra[0]) > 0):
                m.fails.append((key, inp, '%r, %r' % (ra, rb), 'density increasing with pressure'))
        else:
            identity_gibbs(I, m, f, [(inp['t'], inp['p'])])
    else:
        print('replay: unknown finding key %r' % key)
        return True
    for (k, i, obs, req) in m.fails:
        print('replay: %s on %r -> %s ; required: %s' % (k, i, obs, req))
    if not m.fails: print('replay: the clause holds on %r now' % (inp,))
    return bool(m.fails)
