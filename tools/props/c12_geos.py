"""C12: geometry recipes (JSON-able specs) and their construction through PyTOUGH's public
entry points, plus the derived data the oracle and the wire format need."""
import os, math, random
import numpy as np
from fractions import Fraction
from c12_exact import fr, fpt


def q2(x):
    n, d = float(x).as_integer_ratio()
    return '%d %d' % (n, d)


def ptstr(p):
    return q2(p[0]) + ' ' + q2(p[1])


def canon_key(c):
    return (round(float(c.centre[0]), 6), round(float(c.centre[1]), 6))


def canonical_columns(g):
    """the columns in an order that does not depend on how the geometry was built"""
    return sorted(g.columnlist, key=canon_key)


def canonical_polygon(P):
    """the vertex list rotated to start at its smallest vertex (same orientation)"""
    k = min(range(len(P)), key=lambda i: (round(P[i][0], 6), round(P[i][1], 6)))
    return P[k:] + P[:k]


def build_geo(spec, repo):
    """Build the mulgrid described by spec (a dict)."""
    from mulgrids import mulgrid
    if spec['kind'] == 'file':
        g = mulgrid(os.path.join(repo, 'tests', 'mulgrid', spec['name']))
    else:
        g = mulgrid().rectangular(spec['dx'], spec['dy'], spec['dz'], origin=spec.get('origin'))
    def warm_up():
        # location queries BEFORE the next edit of the geometry: anything a search caches on the columns
        # (bounding boxes, ...) must not survive delete / refine / translate / rotate
        try:
            c = g.columnlist[len(g.columnlist) // 2].centre
            g.column_containing_point(c)
            g.column_containing_point(c, qtree=g.column_quadtree())
            g.column_track([g.bounds[0], g.bounds[1]])
        except Exception:
            pass
    warm_up()
    if spec.get('delete'):
        names = [g.columnlist[i].name for i in spec['delete'] if i < len(g.columnlist)]
        for nm in names: g.delete_column(nm)
        warm_up()
    for ref in spec.get('refine') or []:
        # mulgrid.refine() orders/names its new columns through sets of objects (address order: differs from
        # process to process), so columns are always picked by their rank in a canonical order (by centre)
        canon = canonical_columns(g)
        cols = [canon[i] for i in ref if i < len(canon)]
        if cols:
            g.refine(cols); warm_up()
    if spec.get('translate'):
        g.translate(spec['translate']); warm_up()
    if spec.get('rotate') is not None:
        g.rotate(spec['rotate'])
    if spec.get('surface_seed') is not None and len(g.layerlist) > 2:
        r = random.Random(spec['surface_seed'])
        top = g.layerlist[0].bottom
        bot = g.layerlist[-1].bottom
        for col in canonical_columns(g):
            u = r.random()
            if u < 0.35: continue
            if u < 0.5: col.surface = top + r.uniform(0.5, 30.0)              # above the top layer
            elif u < 0.65: col.surface = r.choice(g.layerlist[1:-1]).bottom    # exactly on a layer boundary
            else: col.surface = top - r.uniform(0.05, 0.8) * (top - bot)      # inside some layer
        try:
            for col in g.columnlist: g.set_column_num_layers(col)
            g.setup_block_name_index()
            g.setup_block_connection_name_index()
        except Exception:
            pass
    return g


class GeoCtx(object):
    """A built geometry with everything derived from it once."""

    def __init__(self, spec, repo, geo=None):
        """geo: an already built (possibly edited, already queried) mulgrid to wrap instead of building spec"""
        self.spec = spec
        self.geo = g = geo if geo is not None else build_geo(spec, repo)
        self.cols = cols = list(g.columnlist)
        self.n = len(cols)
        self.index = {id(c): i for i, c in enumerate(cols)}
        self.polyf = [[(float(p[0]), float(p[1])) for p in c.polygon] for c in cols]
        self.polyq = [[fpt(p) for p in c.polygon] for c in cols]
        # canonical views used by the generators only (reproducible whatever order PyTOUGH produced)
        self.order = sorted(range(self.n), key=lambda i: canon_key(cols[i]))
        self.rank = {i: r for r, i in enumerate(self.order)}
        self.polyg = [canonical_polygon(P) for P in self.polyf]
        self.maxside = np.array([float(max(c.side_lengths)) for c in cols])
        bb = np.array([[min(p[0] for p in P), min(p[1] for p in P), max(p[0] for p in P), max(p[1] for p in P)]
                       for P in self.polyf])
        self.bb = bb
        # all edges, for the distance-to-nearest-edge filter
        A, B, own = [], [], []
        for i, P in enumerate(self.polyf):
            for k in range(len(P)):
                A.append(P[k]); B.append(P[(k + 1) % len(P)]); own.append(i)
        self.eA = np.array(A); self.eB = np.array(B); self.eown = np.array(own)
        self.eD = self.eB - self.eA
        self.eL2 = (self.eD ** 2).sum(axis=1)
        self.eL2[self.eL2 == 0.0] = 1.0
        b = g.bounds
        self.bounds = [float(b[0][0]), float(b[0][1]), float(b[1][0]), float(b[1][1])]
        self.scale = max(self.bounds[2] - self.bounds[0], self.bounds[3] - self.bounds[1])
        self.cmag = max(abs(v) for v in self.bounds)
        self.q = g.column_quadtree()
        try:
            bp = g.boundary_polygon
            self.bpoly = [np.array([float(p[0]), float(p[1])]) for p in bp]
            self.bpolyq = [fpt(p) for p in self.bpoly]
            if len(self.bpoly) < 3: self.bpoly = None
        except Exception:
            self.bpoly = None
        self._wire = None

    def nbrs(self, i):
        """neighbours of column i as a list in columnlist order (canonical order: reproducible)"""
        return sorted(self.cols[i].neighbour, key=lambda c: self.rank[self.index[id(c)]])

    def pick(self, rng):
        """a random column index, reproducibly"""
        return self.order[rng.randrange(self.n)]

    # ---- classification helpers ------------------------------------
    def edge_clearance(self, pos):
        """(distance to the nearest column edge) / (tolerance of that edge); < 1 means too close."""
        p = np.array(pos, dtype=float)
        t = ((p - self.eA) * self.eD).sum(axis=1) / self.eL2
        t = np.clip(t, 0.0, 1.0)
        qx = self.eA + t[:, None] * self.eD
        d = np.sqrt(((p - qx) ** 2).sum(axis=1))
        tol = 1e-6 * self.maxside[self.eown] + 1e-9 * max(self.cmag, 1.0)
        return float(np.min(d / tol))

    def candidates(self, pos):
        x, y = float(pos[0]), float(pos[1])
        m = 1e-6 * self.scale
        bb = self.bb
        return np.nonzero((bb[:, 0] - m <= x) & (x <= bb[:, 2] + m) & (bb[:, 1] - m <= y) & (y <= bb[:, 3] + m))[0]

    def truth(self, pos):
        """indices of the columns that really contain pos (exact test, independent algorithm)"""
        from c12_exact import contains
        pq = fpt(pos)
        return [int(i) for i in self.candidates(pos) if contains(self.polyq[i], pq)]

    # ---- wire -----------------------------------------------------
    def wire(self):
        """(columns field, layers field, quadtree field) for the extracted model"""
        if self._wire is None:
            g = self.geo
            allE = self.q.all_elements
            cf = []
            for c in self.cols:
                nb = sorted(self.index[id(n)] + 1 for n in (c.neighbour & allE))
                sf = c.surface if c.surface is not None else g.layerlist[0].bottom
                cf.append(ptstr(c.centre) + ';' + q2(sf) + ';' + ' '.join(map(str, nb)) + ';' +
                          ' '.join(ptstr(p) for p in c.polygon))
            lf = '|'.join(q2(l.bottom) + ' ' + q2(l.top) for l in g.layerlist)
            b = g.bounds
            qf = ptstr(b[0]) + ' ' + ptstr(b[1]) + ';' + ' '.join(str(i + 1) for i in range(self.n)) + ';64'
            self._wire = ('|'.join(cf), lf, qf)
        return self._wire


# ---------------------------------------------------------------------------
def dyadic(r, lo, hi):
    """a random size in [lo, hi] that is a multiple of 1/8 (exact in binary)"""
    return max(0.125, round(r.uniform(lo, hi) * 8) / 8.0)


def geometry_specs(rng, thorough):
    """The geometries of one run: rectangular, multiscale (3 orders of magnitude of column
    size), shipped, refined, rotated, with gaps (non-convex domain)."""
    specs = []
    shipped = ['g1.dat', 'g2.dat', 'g3.dat', 'g4.dat', 'g5.dat', 'g6.dat', 'g7.dat']
    reps = 3 if thorough else 1
    for rep in range(reps):
        # 1. small rectangular, irregular spacing
        nx, ny = rng.randint(2, 7), rng.randint(2, 7)
        specs.append({'label': 'rect', 'kind': 'rect', 'dx': [dyadic(rng, 5, 60) for _ in range(nx)],
                      'dy': [dyadic(rng, 5, 60) for _ in range(ny)], 'dz': [dyadic(rng, 2, 20) for _ in range(rng.randint(2, 6))],
                      'origin': [dyadic(rng, -100, 100), dyadic(rng, -100, 100), dyadic(rng, -50, 50)],
                      'surface_seed': rng.randint(0, 10 ** 6)})
        # 2. column sizes over three orders of magnitude
        k = [rng.randint(3, 6) if thorough else rng.randint(3, 5) for _ in range(4)]
        dx = [1.0] * k[0] + [10.0] * k[1] + [100.0] * k[2] + [1000.0] * max(1, k[3] - 2)
        dy = [1000.0] * max(1, k[3] - 2) + [100.0] * k[2] + [10.0] * k[1] + [1.0] * k[0] if rng.random() < 0.5 else list(dx)
        specs.append({'label': 'multiscale', 'kind': 'rect', 'dx': dx, 'dy': dy, 'dz': [10.0, 20.0, 40.0],
                      'origin': [0.0, 0.0, 0.0], 'surface_seed': rng.randint(0, 10 ** 6)})
        # 3. refined (triangular transition columns), twice
        nx, ny = rng.randint(4, 7), rng.randint(4, 7)
        n = nx * ny
        r1 = sorted(rng.sample(range(n), rng.randint(1, max(1, n // 4))))
        specs.append({'label': 'refined', 'kind': 'rect', 'dx': [dyadic(rng, 50, 200) for _ in range(nx)],
                      'dy': [dyadic(rng, 50, 200) for _ in range(ny)], 'dz': [10.0, 10.0, 20.0],
                      'origin': [1000.0, 2000.0, 100.0], 'refine': [r1, sorted(rng.sample(range(n), 2))],
                      'surface_seed': rng.randint(0, 10 ** 6)})
        # 4. rotated and translated to large coordinates
        nx, ny = rng.randint(3, 8), rng.randint(3, 8)
        specs.append({'label': 'rotated', 'kind': 'rect', 'dx': [dyadic(rng, 20, 300) for _ in range(nx)],
                      'dy': [dyadic(rng, 20, 300) for _ in range(ny)], 'dz': [25.0, 25.0, 50.0, 100.0],
                      'origin': [0.0, 0.0, 0.0], 'translate': [2765984.77, 6261546.23, 0.0],
                      # (first repetition: never a multiple of 90 degrees, so that bounding boxes exceed the columns)
                      'rotate': rng.choice([30.0, 90.0 if rep else 60.0, 45.0, rng.uniform(0, 360), rng.uniform(0, 360)]),
                      'surface_seed': rng.randint(0, 10 ** 6)})
        # 5. gaps: non-convex domain (includes the M-grid of the test-suite in the first repetition)
        if rep == 0:
            specs.append({'label': 'gaps', 'kind': 'rect', 'dx': [100.0] * 5, 'dy': [100.0] * 3, 'dz': [10.0, 10.0],
                          'origin': [0.0, 0.0, 0.0], 'delete': [1, 3, 6, 8]})
        else:
            nx, ny = rng.randint(4, 8), rng.randint(3, 6)
            n = nx * ny
            specs.append({'label': 'gaps', 'kind': 'rect', 'dx': [dyadic(rng, 20, 200) for _ in range(nx)],
                          'dy': [dyadic(rng, 20, 200) for _ in range(ny)], 'dz': [10.0, 10.0],
                          'origin': [0.0, 0.0, 0.0], 'delete': sorted(rng.sample(range(n), rng.randint(1, n // 3)))})
    # 5b. column sizes over orders of magnitude AND gaps (notch + hole): large columns are filed in the quadtree far from
    #     parts of their own area, and the neighbour wave cannot cross the gaps
    specs.append({'label': 'gaps-multiscale', 'kind': 'rect', 'dx': [1000.0, 10.0, 100.0, 1000.0, 1000.0],
                  'dy': [100.0, 1000.0, 1000.0], 'dz': [10.0, 10.0], 'origin': [0.0, 0.0, 0.0], 'delete': [2, 6]})
    if thorough:
        for rep in range(3):
            sizes = [1.0, 10.0, 100.0, 1000.0]
            dx = [rng.choice(sizes) for _ in range(rng.randint(4, 7))]
            dy = [rng.choice(sizes) for _ in range(rng.randint(3, 6))]
            n = len(dx) * len(dy)
            specs.append({'label': 'gaps-multiscale', 'kind': 'rect', 'dx': dx, 'dy': dy, 'dz': [10.0, 10.0],
                          'origin': [0.0, 0.0, 0.0], 'delete': sorted(rng.sample(range(n), rng.randint(2, max(2, n // 4))))})
    # 5c. geometries whose quadtree has EMPTY quadrants at the root, so that quadtree.leaf() returns the root itself and the
    #     neighbour wave runs on the root's own element list (= geo.columnlist): a single row of columns (vertical slice
    #     model: all centres on the mid-line are filed in the lower quadrants) and an L-shaped 2 x 2 grid
    specs.append({'label': 'single-row', 'kind': 'rect', 'dx': [dyadic(rng, 10, 80) for _ in range(rng.randint(4, 7))],
                  'dy': [dyadic(rng, 20, 60)], 'dz': [10.0, 10.0, 20.0], 'origin': [0.0, 0.0, 0.0]})
    specs.append({'label': 'L-shape', 'kind': 'rect', 'dx': [100.0, 100.0], 'dy': [100.0, 100.0], 'dz': [10.0, 10.0],
                  'origin': [0.0, 0.0, 0.0], 'delete': [rng.choice([0, 1, 2, 3])]})
    # 6. shipped geometries
    if thorough:
        names = shipped
    else:
        names = ['g1.dat', rng.choice(['g7.dat', 'g5.dat', 'g3.dat', 'g6.dat'])]
    for nm in names:
        specs.append({'label': 'shipped', 'kind': 'file', 'name': nm})
    if thorough:
        specs.append({'label': 'shipped-rotated', 'kind': 'file', 'name': 'g7.dat', 'rotate': rng.uniform(0, 360)})
        specs.append({'label': 'shipped-rotated', 'kind': 'file', 'name': 'g5.dat', 'rotate': rng.uniform(0, 360)})
        specs.append({'label': 'shipped-refined', 'kind': 'file', 'name': 'g7.dat',
                      'refine': [sorted(rng.sample(range(100), 12))]})
    return specs


def band_specs(rng, thorough):
    """tiny-angle rotations: edges that are nearly but not exactly horizontal"""
    out = []
    for ang in ([1e-7, 3e-9] if not thorough else [1e-7, 3e-9, 1e-8, 2e-6, 5e-10]):
        out.append({'label': 'tiny-rotation', 'kind': 'rect', 'dx': [10.0] * 4, 'dy': [10.0] * 4, 'dz': [5.0] * 3,
                    'origin': [0.0, 0.0, 0.0], 'rotate': ang})
    return out


# witness of finding column_track:crossing-short-relative-to-distance-from-start
# (findings/C12-column-track-far-crossing.json): two 1 x 1 columns between two 1000 x 1 columns
FAR_CROSSING_SPEC = {'label': 'far-crossing', 'kind': 'rect', 'dx': [1000.0, 1.0, 1.0, 1000.0], 'dy': [1.0], 'dz': [10.0],
                     'origin': [0.0, 0.0, 0.0]}
FAR_CROSSING_LINES = [[[-1500.0, 0.25], [1500.0, 0.75]], [[1500.0, 0.75], [-1500.0, 0.25]], [[900.0, 0.25], [1100.0, 0.75]]]
