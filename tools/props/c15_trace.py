"""C15 -- symbolic execution of straight-line float arithmetic (DESIGN.md 3.1, trace.py).
Private copy of the C14 tracer, extended for t2thermo.py:

  - coefficient tables may be plain lists or int-keyed dicts (rebound to symbolic coefficient
    atoms, so products `coefficient * literal` stay symbolic);
  - `**` with a constant exponent and `exp` are nodes whose double result is NOT computed by the
    Coq model: each such node carries a *hint index*; the bit-exact evaluation takes the libm
    result from a hint list and checks the argument it was computed from (`probes`);
  - module functions named in `abstract` are not entered: a call becomes a node
    NCall (function id, output index, argument nodes) -- "the boundary functions abstract";
    over R they are interpreted by an arbitrary function family, on doubles by hints;
  - `scipy.optimize.fsolve(f, t0)` is modelled as the abstract function `solve` applied to the
    arguments f closes over, after checking that f(t) is literally `sat(t) - p`; the starting
    estimate (math.log, max) is opaque and must not reach an output or a decision;
  - extra non-traced Python arguments (bounds=True / False) select the variant traced.

The *real* functions of a private copy of the module are executed on tracer objects that
overload + - * / neg ** and comparisons and record an expression DAG in evaluation order.
Comparisons on tracers yield a condition object whose truth value is taken from a decision
plan; all plans are enumerated.  `__float__`, `__index__`, `__int__`, `__bool__`, `==` on a
tracer raise -> fail closed."""
import importlib.util, math, os, sys
from fractions import Fraction


class Refusal(Exception):
    pass


FIDS = {'sat': 0, 'b23p': 1, 'solve': 2, 'cowat': 3, 'supst': 4, 'tsat': 5}
FNOUTS = {'sat': 1, 'b23p': 1, 'solve': 1, 'cowat': 2, 'supst': 2, 'tsat': 1}
FNARGS = {'sat': 1, 'b23p': 1, 'solve': 1, 'cowat': 2, 'supst': 2, 'tsat': 1}


class Graph:
    def __init__(self):
        self.nodes = []        # tuples: (op, args...)
        self.index = {}
        self.cut_of = {}       # node id -> cut node id
        self.ncuts = 0
        self.plan = []
        self.decisions = []    # (op, a, b, outcome)

    def mk(self, *key):
        i = self.index.get(key)
        if i is None:
            i = len(self.nodes); self.nodes.append(key); self.index[key] = i
        return i

    def const(self, x):
        import numpy as np
        if isinstance(x, (bool, np.bool_)): raise Refusal('boolean used as a number')
        if isinstance(x, (int, np.integer)):
            x = int(x)
            if abs(x) >= 2 ** 53: raise Refusal('integer constant too large for exact conversion')
            x = float(x)
        elif isinstance(x, (float, np.floating)):
            x = float(x)
        elif x is None or isinstance(x, (str, bytes, tuple, list, dict)):
            # what CPython does for float <op> None etc.
            raise TypeError('unsupported operand type %s for a float operation' % type(x).__name__)
        else:
            raise Refusal('unsupported operand of type %s' % type(x).__name__)
        return self.mk('const', x.hex())

    def lift(self, x):
        if isinstance(x, T):
            if x.g is not self: raise Refusal('tracer from another graph')
            return x.i
        return self.const(x)

    def cut(self, i):
        """node i as an atom (idempotent; literals stay literals)"""
        op = self.nodes[i][0]
        if op in ('const', 'cut'): return i
        if i in self.cut_of: return self.cut_of[i]
        j = self.mk('cut', self.ncuts, i)
        self.ncuts += 1
        self.cut_of[i] = j
        return j

    def decide(self, op, a, b):
        # one run evaluates a comparison of the same two values once: a chained comparison
        # `a <= p <= b` hands the first falsy Cond on to a later `if ok:`, and a second
        # comparison of the same operands (sat's two range tests) cannot come out differently
        for (o, x, y, out) in self.decisions:
            if (o, x, y) == (op, a, b): return out
        k = len(self.decisions)
        out = self.plan[k] if k < len(self.plan) else True
        self.decisions.append((op, a, b, out))
        return out

    def operands(self, i):
        nd = self.nodes[i]
        op = nd[0]
        if op in ('add', 'sub', 'mul', 'div'): return [nd[1], nd[2]]
        if op in ('neg', 'sqrt', 'exp', 'pow'): return [nd[1]]
        if op == 'cut': return [nd[2]]
        if op == 'call': return list(nd[3])
        if op == 'opaque': return list(nd[2])
        return []

    def tainted(self, i, memo=None):
        """does node i depend on an opaque node"""
        memo = {} if memo is None else memo
        stack = [i]
        seen = set()
        while stack:
            j = stack.pop()
            if j in seen: continue
            seen.add(j)
            if self.nodes[j][0] == 'opaque': return True
            stack += self.operands(j)
        return False


class Cond:
    def __init__(self, g, op, a, b): self.g, self.op, self.a, self.b = g, op, a, b
    def __bool__(self): return self.g.decide(self.op, self.a, self.b)


class T:
    """a traced double"""
    __slots__ = ('g', 'i')
    __array_ufunc__ = None
    __array_priority__ = 1e9
    __hash__ = None

    def __init__(self, g, i): self.g, self.i = g, i

    def _bin(self, op, a, b): return T(self.g, self.g.mk(op, a, b))
    def __add__(s, o): return s._bin('add', s.i, s.g.lift(o))
    def __radd__(s, o): return s._bin('add', s.g.lift(o), s.i)
    def __sub__(s, o): return s._bin('sub', s.i, s.g.lift(o))
    def __rsub__(s, o): return s._bin('sub', s.g.lift(o), s.i)
    def __mul__(s, o): return s._bin('mul', s.i, s.g.lift(o))
    def __rmul__(s, o): return s._bin('mul', s.g.lift(o), s.i)
    def __truediv__(s, o): return s._bin('div', s.i, s.g.cut(s.g.lift(o)))
    def __rtruediv__(s, o): return s._bin('div', s.g.lift(o), s.g.cut(s.i))
    def __neg__(s): return T(s.g, s.g.mk('neg', s.i))
    def __pos__(s): return s
    def __le__(s, o): return Cond(s.g, 'le', s.i, s.g.lift(o))
    def __lt__(s, o): return Cond(s.g, 'lt', s.i, s.g.lift(o))
    def __ge__(s, o): return Cond(s.g, 'le', s.g.lift(o), s.i)
    def __gt__(s, o): return Cond(s.g, 'lt', s.g.lift(o), s.i)

    def __pow__(s, o, mod=None):
        import numpy as np
        if mod is not None or isinstance(o, T): s._no('** with a traced exponent')
        if isinstance(o, (bool, np.bool_)) or not isinstance(o, (int, float, np.integer, np.floating)):
            s._no('** with a non-numeric exponent')
        if isinstance(o, (int, np.integer)): s._no('** with an integer exponent (not used by the modules traced)')
        return T(s.g, s.g.mk('pow', s.g.cut(s.i), float(o).hex()))

    def _no(self, what):
        raise Refusal('traced value used with %s (outside the supported straight-line subset)' % what)
    def __eq__(s, o): s._no('==')
    def __ne__(s, o): s._no('!=')
    def __bool__(s): s._no('bool()')
    def __float__(s): s._no('float()')
    def __int__(s): s._no('int()')
    def __index__(s): s._no('indexing')
    def __rpow__(s, o): s._no('** with a traced exponent')
    def __abs__(s): s._no('abs()')
    def __floordiv__(s, o): s._no('//')
    def __mod__(s, o): s._no('%')
    __iter__ = None          # like a float: isinstance(x, Iterable) is False, iter(x) raises TypeError
    def __len__(s): s._no('len()')
    def __getitem__(s, k): s._no('subscript')


class NPShim:
    def __init__(self, g): self._g = g
    def zeros(self, n, dtype=None):
        if isinstance(n, T): raise Refusal('array size depends on a traced value')
        return [0.0] * int(n)
    def dot(self, a, b):
        a, b = list(a), list(b)
        if len(a) != len(b) or not a: raise Refusal('np.dot on unequal or empty operands')
        acc = a[0] * b[0]
        for x, y in zip(a[1:], b[1:]): acc = acc + x * y
        return acc
    def __getattr__(self, name):
        raise Refusal('numpy attribute `%s` is not supported by the tracer' % name)


def load_private(path, name):
    spec = importlib.util.spec_from_file_location(name, path)
    mod = importlib.util.module_from_spec(spec)
    spec.loader.exec_module(mod)
    return mod


RAISED = object()


class Traced:
    """result of tracing one function: DAG restricted to what the paths use"""
    def __init__(self, fname, nargs, nodes, paths, coef_arrays, ncuts, nhints):
        self.fname, self.nargs, self.nodes, self.paths = fname, nargs, nodes, paths
        self.coef_arrays = coef_arrays     # [(array name, length)] in flat-index order
        self.ncuts = ncuts
        self.nhints = nhints


def trace_function(path, fname, nargs, coef_tables, extra=(), abstract=(), max_paths=96):
    """Trace module function `fname` of the file `path` on `nargs` symbolic arguments followed
    by the plain Python arguments `extra`.
    coef_tables: {name: length (list/array) | [keys] (int-keyed dict)}, in translator order.
    abstract: names of module functions replaced by abstract calls."""
    import numpy as np
    mod = load_private(path, '_c15_traced_%s_%s' % (os.path.basename(path).replace('.', '_'), fname))
    if not hasattr(mod, fname): raise Refusal('function %s not found' % fname)
    g = Graph()
    used_arrays = []

    def atom(name, k):
        if name not in used_arrays: used_arrays.append(name)
        return T(g, g.mk('coef', name, k))

    class CoefList(list):
        def __init__(self, name, n):
            list.__init__(self, [None] * n); self._name = name
        def __getitem__(self, k):
            if isinstance(k, slice): return [atom(self._name, j) for j in range(*k.indices(len(self)))]
            if isinstance(k, T): k._no('indexing')
            k = int(k)
            if k < 0: k += len(self)
            if not 0 <= k < len(self): raise IndexError(k)
            return atom(self._name, k)
        def __iter__(self):
            return iter(atom(self._name, k) for k in range(len(self)))

    class CoefDict(dict):
        def __init__(self, name, keys):
            dict.__init__(self, {k: j for j, k in enumerate(keys)}); self._name = name
        def __getitem__(self, k):
            if isinstance(k, T): k._no('indexing')
            return atom(self._name, dict.__getitem__(self, k))      # KeyError as in Python
        def get(self, *a): raise Refusal('dict.get on a coefficient table')
        def values(self): raise Refusal('iteration over a coefficient table')
        def items(self): raise Refusal('iteration over a coefficient table')

    lengths = {}
    for name, spec in coef_tables.items():
        if not hasattr(mod, name): raise Refusal('coefficient table %s missing' % name)
        if isinstance(spec, int):
            setattr(mod, name, CoefList(name, spec)); lengths[name] = spec
        else:
            setattr(mod, name, CoefDict(name, list(spec))); lengths[name] = len(spec)
    if hasattr(mod, 'np'): mod.np = NPShim(g)

    def tsqrt(x):
        if isinstance(x, T): return T(g, g.mk('sqrt', x.i))
        return math.sqrt(x)
    def texp(x):
        if isinstance(x, T): return T(g, g.mk('exp', x.i))
        return math.exp(x)
    for nm, f in (('sqrt', tsqrt), ('exp', texp)):
        if hasattr(mod, nm): setattr(mod, nm, f)
    for nm in ('pow', 'sin', 'cos', 'fabs'):
        if hasattr(mod, nm):
            def bad(*a, _nm=nm): raise Refusal('math.%s is not supported by the tracer' % _nm)
            setattr(mod, nm, bad)

    def opaque(tag, *xs):
        return T(g, g.mk('opaque', tag, tuple(g.lift(x) for x in xs)))

    def is_tainted(x):
        return isinstance(x, T) and g.tainted(x.i)

    import builtins
    def tmax(*a):
        if len(a) == 1: a = tuple(a[0])
        if any(is_tainted(x) for x in a): return opaque('max', *a)
        return builtins.max(a)
    def tmin(*a):
        if len(a) == 1: a = tuple(a[0])
        if any(is_tainted(x) for x in a): return opaque('min', *a)
        return builtins.min(a)
    mod.max, mod.min = tmax, tmin

    # abstract module functions
    def make_abstract(name):
        na, no = FNARGS[name], FNOUTS[name]
        def call(*a, **kw):
            if kw or len(a) != na: raise Refusal('abstract function %s called with %d positional / %d keyword arguments' % (name, len(a), len(kw)))
            if any(is_tainted(x) for x in a): raise Refusal('opaque value passed to %s' % name)
            ids = tuple(g.lift(x) for x in a)
            outs = tuple(T(g, g.mk('call', name, k, ids)) for k in range(no))
            return outs[0] if no == 1 else outs
        return call
    for name in abstract:
        if name not in FIDS: raise Refusal('no function id for abstract function %s' % name)
        if not hasattr(mod, name): raise Refusal('abstract function %s missing from the module' % name)
        setattr(mod, name, make_abstract(name))

    # scipy.optimize.fsolve / math.log as the function under trace imports them at call time
    solve_calls = []
    def fake_fsolve(f, t0, *a, **kw):
        """fsolve(f, t0) -> the abstract `solve` applied to p, after checking that the residual is
        sat(t) - p, possibly with the iterate clamped to constants first (min / max on t): every
        branch outcome of f on a probe variable must be  sat(probe) - p  or  sat(constant) - p ,
        and the unclamped one must occur."""
        if a or kw: raise Refusal('fsolve called with extra arguments')
        if 'sat' not in abstract: raise Refusal('fsolve residual can only be recognised with sat abstract')
        probe = T(g, g.mk('var', 1000))
        saved_plan, saved_dec = g.plan, g.decisions
        outcomes = []
        def local(prefix):
            if len(outcomes) > 16: raise Refusal('too many branches in the residual handed to fsolve')
            g.plan, g.decisions = list(prefix), []
            r = f(probe)
            dec = list(g.decisions)
            outcomes.append(r)
            for j in range(len(prefix), len(dec)):
                local([d[3] for d in dec[:j]] + [not dec[j][3]])
        try:
            local([])
        finally:
            g.plan, g.decisions = saved_plan, saved_dec
        pnode, direct = None, False
        for r in outcomes:
            nd = g.nodes[r.i] if isinstance(r, T) else None
            if nd is None or nd[0] != 'sub' or g.nodes[nd[2]][0] not in ('var', 'const'):
                raise Refusal('the residual handed to fsolve is not sat(t) - p')
            c = g.nodes[nd[1]]
            if c[:3] != ('call', 'sat', 0) or len(c[3]) != 1: raise Refusal('the residual handed to fsolve is not sat(t) - p')
            arg = g.nodes[c[3][0]]
            if c[3][0] == probe.i: direct = True
            elif arg[0] != 'const': raise Refusal('the residual handed to fsolve evaluates sat at something other than t or a constant')
            if pnode is not None and pnode != nd[2]: raise Refusal('the residual handed to fsolve is not sat(t) - p for one p')
            pnode = nd[2]
        if not direct: raise Refusal('the residual handed to fsolve never evaluates sat at the iterate')
        solve_calls.append(pnode)
        return [T(g, g.mk('call', 'solve', 0, (pnode,)))]      # fsolve returns an array; the code takes [0]
    def fake_log(x):
        if isinstance(x, T): return opaque('log', x)
        return math.log(x)
    patched = []
    try:
        import scipy.optimize as so
        patched.append((so, 'fsolve', so.fsolve)); so.fsolve = fake_fsolve
    except ImportError:
        pass
    patched.append((math, 'log', math.log)); math.log = fake_log

    fn = getattr(mod, fname)
    args = [T(g, g.mk('var', k)) for k in range(nargs)]
    paths = []

    def explore(prefix):
        if len(paths) >= max_paths: raise Refusal('too many paths in %s' % fname)
        g.plan = list(prefix); g.decisions = []
        try:
            res = fn(*(args + list(extra)))
        except Refusal:
            raise
        except (TypeError, ValueError, ZeroDivisionError, IndexError, KeyError, ArithmeticError) as e:
            res = RAISED
        dec = list(g.decisions)
        if res is None: out = None
        elif res is RAISED: out = 'raise'
        else:
            items = res if isinstance(res, tuple) else (res,)
            if all(r is None for r in items): out = None          # (None, None): no value
            elif any(r is None for r in items): raise Refusal('%s returns a tuple mixing None and values' % fname)
            else:
                out = []
                for r in items:
                    if isinstance(r, T): out.append(r.i)
                    else: out.append(g.const(r))
        paths.append((dec, out))
        for j in range(len(prefix), len(dec)):
            explore([d[3] for d in dec[:j]] + [not dec[j][3]])

    try:
        explore([])
    finally:
        for obj, nm, old in patched: setattr(obj, nm, old)

    # restrict to reachable nodes, renumber
    need = set()
    stack = []
    for dec, out in paths:
        for (_, a, b, _) in dec: stack += [a, b]
        if out is not None and out != 'raise': stack += out
    while stack:
        i = stack.pop()
        if i in need: continue
        need.add(i)
        if g.nodes[i][0] == 'opaque': raise Refusal('an opaque value (log / max of the fsolve starting estimate) reaches an output or a decision of %s' % fname)
        if g.nodes[i] == ('var', 1000): raise Refusal('the fsolve probe variable escapes')
        stack += g.operands(i)
    order = sorted(need)
    ren = {old: new for new, old in enumerate(order)}
    cutren = {}
    arrays = [a for a in coef_tables if a in used_arrays]       # fixed (translator) order
    offs, o = {}, 0
    for a in arrays: offs[a] = o; o += lengths[a]
    nodes = []
    nh = 0
    for old in order:
        nd = g.nodes[old]
        op = nd[0]
        if op == 'const': nodes.append(('const', float.fromhex(nd[1])))
        elif op == 'var': nodes.append(('var', nd[1]))
        elif op == 'coef': nodes.append(('coef', offs[nd[1]] + nd[2]))
        elif op in ('add', 'sub', 'mul', 'div'): nodes.append((op, ren[nd[1]], ren[nd[2]]))
        elif op == 'neg': nodes.append((op, ren[nd[1]]))
        elif op == 'sqrt': nodes.append(('sqrt', nh, ren[nd[1]])); nh += 1
        elif op == 'exp': nodes.append(('exp', nh, ren[nd[1]])); nh += 1
        elif op == 'pow': nodes.append(('pow', nh, ren[nd[1]], float.fromhex(nd[2]))); nh += 1
        elif op == 'call': nodes.append(('call', nh, nd[1], nd[2], tuple(ren[a] for a in nd[3]))); nh += 1
        elif op == 'cut':
            cutren.setdefault(nd[1], len(cutren))
            nodes.append(('cut', cutren[nd[1]], ren[nd[2]]))
        else: raise Refusal('internal: node kind %s' % op)
    rpaths = [([(op, ren[a], ren[b], out_) for (op, a, b, out_) in dec],
               out if (out is None or out == 'raise') else [ren[i] for i in out])
              for dec, out in paths]
    return Traced(fname, nargs, nodes, rpaths, [(a, lengths[a]) for a in arrays], len(cutren), nh)


# ---- evaluation of a traced DAG on doubles, in Python (IEEE semantics, libm for exp / pow) ----
def _div(a, b):
    try: return a / b
    except ZeroDivisionError:
        if a != a or a == 0.0: return math.nan
        neg = (math.copysign(1.0, a) < 0) != (math.copysign(1.0, b) < 0)
        return -math.inf if neg else math.inf


def _exp(x):
    try: return math.exp(x)
    except OverflowError: return math.inf


def _pow(x, e):
    try:
        r = x ** e
    except OverflowError: return math.inf
    except ZeroDivisionError: return math.inf
    if isinstance(r, complex): return math.nan
    return r


def _sqrt(x):
    try: return math.sqrt(x)
    except ValueError: return math.nan


def eval_dag(tr, args, coefs, callee=None):
    """Evaluate every node.  Returns (values, hints, probes): hints[h] is the double the
    libm function / abstract callee returned for the node with hint index h; probes are
    (node index, value) pairs for the argument nodes of those nodes.
    callee(name, outidx, argvalues) -> double (nan when the real callee returns no number)."""
    vals, hints, probes = [], [None] * tr.nhints, []
    for k, nd in enumerate(tr.nodes):
        op = nd[0]
        if op == 'const': v = nd[1]
        elif op == 'var': v = args[nd[1]]
        elif op == 'coef': v = coefs[nd[1]]
        elif op == 'add': v = vals[nd[1]] + vals[nd[2]]
        elif op == 'sub': v = vals[nd[1]] - vals[nd[2]]
        elif op == 'mul': v = vals[nd[1]] * vals[nd[2]]
        elif op == 'div': v = _div(vals[nd[1]], vals[nd[2]])
        elif op == 'neg': v = -vals[nd[1]]
        elif op == 'sqrt':
            v = _sqrt(vals[nd[2]]); hints[nd[1]] = v          # not used by the Coq evaluation (sqrt is IEEE there)
        elif op == 'cut': v = vals[nd[2]]
        elif op == 'exp':
            v = _exp(vals[nd[2]]); hints[nd[1]] = v; probes.append((nd[2], vals[nd[2]]))
        elif op == 'pow':
            v = _pow(vals[nd[2]], nd[3]); hints[nd[1]] = v; probes.append((nd[2], vals[nd[2]]))
        elif op == 'call':
            av = [vals[a] for a in nd[4]]
            v = callee(nd[2], nd[3], av); hints[nd[1]] = v
            probes += [(a, vals[a]) for a in nd[4]]
        else: raise Refusal('eval: node kind %s' % op)
        vals.append(float(v))
    return vals, hints, probes


def run_dag(tr, args, coefs, callee=None):
    """What the traced function returns on doubles: ('ret', [..]) | None | ('raise',) | ('nopath',)
    together with (hints, probes)."""
    vals, hints, probes = eval_dag(tr, args, coefs, callee)
    for dec, out in tr.paths:
        ok = True
        for (op, a, b, expect) in dec:
            r = (vals[a] <= vals[b]) if op == 'le' else (vals[a] < vals[b])
            if r != expect: ok = False; break
        if ok:
            if out is None: return None, hints, probes
            if out == 'raise': return ('raise',), hints, probes
            return ('ret', [vals[i] for i in out]), hints, probes
    return ('nopath',), hints, probes


# ---- Coq rendering -----------------------------------------------------------
def coq_q(x):
    fr = Fraction(x)
    return '(%d # %d)' % (fr.numerator, fr.denominator)


def coq_f(x):
    if x != x: return 'nan'
    if x == float('inf'): return 'infinity'
    if x == float('-inf'): return 'neg_infinity'
    return '(%s)' % float(x).hex()


def emit_traced(tr, name):
    """Coq text for one traced function: `<name>_nodes`, `<name>_traced`, `<name>_coefs_F/_Q`, counts."""
    n = len(tr.nodes)
    out = []
    items = []
    for k, nd in enumerate(tr.nodes):
        op = nd[0]
        rel = lambda i: k - 1 - i
        def chk(*ids):
            for i in ids:
                if not 0 <= i < k: raise Refusal('internal: forward reference')
        if op == 'const': items.append('NConst %s%%Q %s%%float' % (coq_q(nd[1]), coq_f(nd[1])))
        elif op == 'var': items.append('NVar %d' % nd[1])
        elif op == 'coef': items.append('NCoef %d' % nd[1])
        elif op in ('add', 'sub', 'mul', 'div'):
            chk(nd[1], nd[2])
            items.append('N%s %d %d' % (op.capitalize(), rel(nd[1]), rel(nd[2])))
        elif op == 'neg':
            chk(nd[1]); items.append('NNeg %d' % rel(nd[1]))
        elif op == 'sqrt':
            chk(nd[2]); items.append('NSqrt %d %d' % (nd[1], rel(nd[2])))
        elif op == 'exp':
            chk(nd[2]); items.append('NExp %d %d' % (nd[1], rel(nd[2])))
        elif op == 'pow':
            chk(nd[2]); items.append('NPow %d %d %s%%Q %s%%float' % (nd[1], rel(nd[2]), coq_q(nd[3]), coq_f(nd[3])))
        elif op == 'call':
            chk(*nd[4]); items.append('NCall %d %d %d [%s]' % (nd[1], FIDS[nd[2]], nd[3], '; '.join('%d' % rel(a) for a in nd[4])))
        elif op == 'cut':
            chk(nd[2]); items.append('NCut %d %d' % (nd[1], rel(nd[2])))
    out.append('Definition %s_nodes : list node := [\n  %s].' % (name, ';\n  '.join(items)))
    pos = lambda i: n - 1 - i
    ps = []
    for dec, o in tr.paths:
        cs = '; '.join('{| c_cmp := %s; c_a := %d; c_b := %d; c_expect := %s |}' % (
            'CLe' if op == 'le' else 'CLt', pos(a), pos(b), 'true' if e else 'false') for (op, a, b, e) in dec)
        oo = 'ONone' if o is None else ('ORaise' if o == 'raise' else 'ORet [%s]' % '; '.join('%d' % pos(i) for i in o))
        ps.append('{| p_conds := [%s]; p_out := %s |}' % (cs, oo))
    out.append('Definition %s_traced : traced := {| t_nodes := %s_nodes; t_paths := [\n  %s] |}.' % (name, name, ';\n  '.join(ps)))
    arrs = [a for a, _ in tr.coef_arrays]
    out.append('Definition %s_coefs_F : list float := %s.' % (name, ' ++ '.join(a + '_F' for a in arrs) if arrs else '[]'))
    out.append('Definition %s_coefs_Q : list Q := %s.' % (name, ' ++ '.join(a + '_Q' for a in arrs) if arrs else '[]'))
    out.append('Definition %s_ncuts : nat := %d.' % (name, tr.ncuts))
    out.append('Definition %s_nargs : nat := %d.' % (name, tr.nargs))
    out.append('Definition %s_nhints : nat := %d.' % (name, tr.nhints))
    return '\n'.join(out) + '\n'


def describe_decisions(tr):
    """the set of (op, left, right) of all decisions, each side ('num', x) | ('var', k) | ('call', name) | ('expr',)"""
    def side(i):
        nd = tr.nodes[i]
        if nd[0] == 'const': return ('num', nd[1])
        if nd[0] == 'var': return ('var', nd[1])
        if nd[0] == 'call': return ('call', nd[2])
        return ('expr',)
    s = set()
    for dec, _ in tr.paths:
        for (op, a, b, _) in dec: s.add((op, side(a), side(b)))
    return s
