"""C05 worker: runs in a pool process.  For one listing file (a shipped one or a
value-perturbed copy) it

  * opens it with the real reader (public entry point t2listing(filename, skip_tables)),
    with wrappers installed from outside around start_of_values / parse_table_line /
    read_table_line_* / key_from_line that record every call (arguments incl. raw lines,
    result or exception) -> correspondence cases for the extracted Coq model;
  * evaluates the property statement on what the reader exposes, against the independent
    reading of the file in c05_oracle.py -> oracle failures.
"""
import os, sys, struct, random, shutil, tempfile, itertools, re, math
import numpy as np
import c05_oracle as O

_CAP = []
_INSTALLED = [False]
_CAPTURE_ON = [True]
FINDING15 = 'parse_table_line:noletter-exponent-abuts-on-layout-line'
ABSENT_FIRST = 'read_tables:TOUGH2:table-absent-at-first-time'
NEG2 = 'start_of_values:fixed-point-first-number-then-signed-number'


def hx(s): return s.encode('latin-1', 'replace').hex()


def fbits(x):
    x = float(x)
    if x != x: return 'nan'
    return struct.pack('>d', x).hex()


def install_capture():
    if _INSTALLED[0]: return
    import t2listing as T
    def wrap(cls, name):
        orig = getattr(cls, name)
        def w(self, *a, **k):
            if not _CAPTURE_ON[0]: return orig(self, *a, **k)
            try: r = orig(self, *a, **k)
            except Exception as e:
                _CAP.append((name, self, a, k, ('raise', type(e).__name__)))
                raise
            _CAP.append((name, self, a, k, ('ok', r)))
            return r
        w.__name__ = name
        setattr(cls, name, w)
    for nm in ('start_of_values', 'parse_table_line', 'read_table_line_TOUGH2', 'read_table_line_AUTOUGH2'):
        wrap(T.t2listing, nm)
    wrap(T.listingtable, 'key_from_line')
    _INSTALLED[0] = True


def cases_from_capture(cap, seen, out, stats, only=None):
    """canonical (case line, expected result line) pairs for the extracted model"""
    for name, obj, a, k, res in cap:
        try:
            if name == 'start_of_values':
                line, cols = a[0], a[1]
                case = 'sov\t%s\t%d' % (hx(line), 1 if cols and cols[0] == 'I' else 0)
                if res[0] == 'raise': exp = 'RAISE ' + res[1]
                elif res[1] is None: exp = 'NONE'
                else: exp = 'Z %d' % res[1]
            elif name == 'parse_table_line':
                line, start, cols = a[0], a[1], a[2]
                if start is None:
                    stats['unmodelled_calls'] = stats.get('unmodelled_calls', 0) + 1; continue
                case = 'ptl\t%s\t%d\t%d' % (hx(line), start, 1 if cols and cols[0] == 'I' else 0)
                exp = ('RAISE ' + res[1]) if res[0] == 'raise' else 'L ' + ','.join(str(int(x)) for x in res[1])
            elif name == 'read_table_line_TOUGH2':
                line, ncols, fmt = a[0], a[1], a[2]
                case = 'rt2\t%s\t%d\t%s' % (hx(line), ncols, ','.join(str(int(v)) for v in fmt['values']))
                exp = ('RAISE ' + res[1]) if res[0] == 'raise' else 'V ' + ';'.join(fbits(x) for x in res[1])
            elif name == 'read_table_line_AUTOUGH2':
                line = a[0]
                fmt = k.get('fmt') if 'fmt' in k else (a[2] if len(a) > 2 else None)
                case = 'ra2\t%s\t%d' % (hx(line), fmt['values'][0])
                exp = ('RAISE ' + res[1]) if res[0] == 'raise' else 'V ' + ';'.join(fbits(x) for x in res[1])
            elif name == 'key_from_line':
                line = a[0]
                case = 'kfl\t%s\t%s' % (hx(line), ','.join(str(int(p)) for p in obj.row_format['key']))
                if res[0] == 'raise': exp = 'RAISE ' + res[1]
                else:
                    r = res[1]
                    exp = 'K ' + ','.join(hx(x) for x in ((r,) if isinstance(r, str) else r))
            else: continue
        except Exception as e:                      # an argument shape outside the wire format
            stats['unmodelled_calls'] = stats.get('unmodelled_calls', 0) + 1
            continue
        stats['calls_' + name] = stats.get('calls_' + name, 0) + 1
        if only is not None and name not in ('start_of_values', 'parse_table_line') and a[0] not in only: continue
        if case in seen: continue
        seen.add(case)
        out.append((case, exp))


# ---------------------------------------------------------------------------------------
# value perturbation: same printed form, same field width

def token_form(t):
    if re.search(r'[EeDd][+\- ]\d\d\d$', t): return 'E3'
    if re.search(r'[EeDd][+\- ]\d\d$', t): return 'E2'
    if re.search(r'\d[+-]\d\d\d$', t): return 'noletter'
    if re.match(r'^[+-]?\d*\.\d*$', t): return 'fixed'
    return 'other'


def rnd_digits(rng, n, first_nonzero=False):
    s = ''.join(rng.choice('0123456789') for _ in range(n))
    if first_nonzero and n and s[0] == '0': s = rng.choice('123456789') + s[1:]
    return s


def perturb_token(rng, s, a, b, kind):
    """-> (a', new text) occupying s[a':b] with the same right end, or None when the form has no room."""
    t = s[a:b]
    m = re.match(r'^([+-]?)(\d*)\.(\d*)(.*)$', t)
    if not m: return None
    sg, ip, fp, ex = m.groups()
    form = token_form(t)
    if form in ('other', 'E3'): return None
    blank_before = a >= 2 and s[a - 1] == ' '
    if kind == 'digits':
        nip = ip if ip in ('', '0') else rnd_digits(rng, len(ip), True)
        nfp = rnd_digits(rng, len(fp), ip in ('', '0'))
        nex = ex
        if form == 'E2': nex = ex[0] + rng.choice('+-') + rnd_digits(rng, 2)
        elif form == 'noletter': nex = rng.choice('+-') + str(rng.randint(100, 307))
        return a, sg + nip + '.' + nfp + nex
    if kind == 'zero':
        nex = ex
        if form == 'E2': nex = ex[0] + '+00'
        elif form == 'noletter': return None
        body = (ip and '0' * 1 or '') + '.' + '0' * len(fp) + nex
        if not ip and sg: body = '0' + body; sg = ''          # -.5977E+07 -> 0.0000E+00
        new = sg + body
        return a, new.rjust(b - a)
    if kind == 'negative':
        if sg == '-': return a, ('0' if not ip else ' ') + t[1:]        # the other way round: make it positive
        if sg == '+': return a, '-' + t[1:]
        if ip == '0': return a, '-.' + fp + ex                # Fortran drops the zero when the field is full
        if blank_before: return a - 1, '-' + t
        return None
    if kind == 'noletter':
        if form != 'E2': return None
        e = rng.choice([100, 101, 127, 199, 200, 299, 307, rng.randint(100, 307)])
        sgn = '-' if (ex[1] == '-' or rng.random() < 0.7) else '+'
        return a, sg + ip + '.' + fp + sgn + '%03d' % e
    if kind == 'E2':
        if form != 'noletter': return None
        return a, sg + ip + '.' + fp + 'E' + ex[0] + rnd_digits(rng, 2)
    return None


KINDS = ['digits', 'zero', 'negative', 'noletter', 'noletter', 'E2']


def first_row_fixed_then_signed(ptabs):
    """the first row of some table starts with a fixed-point number (no exponent) that is followed by a
    signed number with at least one digit before its point"""
    for p in ptabs:
        if p.rows and len(p.rows[0][4]) >= 2:
            t1, t2 = p.rows[0][4][0][2], p.rows[0][4][1][2]
            if token_form(t1) == 'fixed' and re.match(r'^[+-]\d', t2): return True
    return False


def layout_row(ptab):
    """the row the reader infers the column layout from: the longest (stripped) row line of the
    table at the first result time (first one wins on ties)"""
    best = None
    for r in ptab.rows:
        n = len(r[5].strip())
        if best is None or n > best[0]: best = (n, r)
    return best[1] if best else None


def choose_substitutions(rng, lines, times, mode):
    """mode 'random': a handful of cells anywhere; 'first-rows': first row of each table at the first
    time; 'layout': cells of the layout rows; 'directed15': a no-letter exponent on a layout line in
    a cell that abuts the next one."""
    subs = {}
    def add(row, j, kind):
        ln = row[0]; s = lines[ln].rstrip('\r\n')
        a, b, t = row[4][j]
        if any(l == ln and not (bb <= a - 1 or b <= aa) for (l, aa, bb) in subs): return False
        r = perturb_token(rng, s, a, b, kind)
        if r is None: return False
        a2, new = r
        if new == s[a2:b] or len(new) != b - a2: return False
        subs[(ln, a2, b)] = (s[a2:b], new, kind)
        return True
    all_rows = [(ti, p, r) for ti, tabs in enumerate(times) for p in tabs for r in p.rows if r[4]]
    if not all_rows: return []
    if mode == 'directed15':
        cands = []
        for p in (times[0] if times else []):
            r = layout_row(p)
            if not r: continue
            for j in range(len(r[4]) - 1):
                if r[4][j][1] == r[4][j + 1][0] and token_form(r[4][j][2]) == 'E2': cands.append((r, j))
        if not cands: return []
        r, j = rng.choice(cands)
        add(r, j, 'noletter')
    elif mode == 'directed-neg2':
        cands = [p.rows[0] for p in times[0] if p.rows and len(p.rows[0][4]) >= 2 and token_form(p.rows[0][4][0][2]) == 'fixed'
                 and re.match(r'^\d', p.rows[0][4][1][2])]
        if not cands: return []
        add(rng.choice(cands), 1, 'negative')
    elif mode == 'dup-rows':
        # rows printed under a name that another row of the same table also carries (AUTOUGH2/7 'Atx13', TOUGH2-MP border
        # rows): change a number in one of them so that the copies differ
        groups = []
        for tabs in times:
            for p in tabs:
                seen = {}
                for r in p.rows:
                    if r[4]: seen.setdefault(norm_key(r[1]), []).append(r)
                groups += [rs for rs in seen.values() if len(rs) > 1]
        rng.shuffle(groups)
        for rs in groups[:6]:
            r = rs[0] if rng.random() < 0.7 else rng.choice(rs)
            for _ in range(4):
                if add(r, rng.randrange(len(r[4])), rng.choice(['digits', 'digits', 'negative'])): break
    elif mode == 'short-rows':
        # a row that is printed with more numbers at one result time than at another: the cells that go blank elsewhere are
        # given other (non-zero) digits, so that a blank cell that is not read as zero shows the stale number
        per = {}
        for ti, tabs in enumerate(times):
            for pi, p in enumerate(tabs):
                for r in p.rows:
                    per.setdefault((pi, tuple(p.cols), norm_key(r[1])), []).append(r)
        cands = []
        for rs in per.values():
            lo = min(len(r[4]) for r in rs)
            for r in rs:
                if len(r[4]) > lo: cands += [(r, j) for j in range(lo, len(r[4]))]
        rng.shuffle(cands)
        for r, j in cands[:24]:
            add(r, j, 'digits')
    elif mode == 'first-rows':
        for p in times[0]:
            if p.rows and p.rows[0][4]:
                for _ in range(4):
                    if add(p.rows[0], 0 if rng.random() < 0.7 else rng.randrange(len(p.rows[0][4])), rng.choice(KINDS)): break
    elif mode == 'layout':
        for p in times[0]:
            r = layout_row(p)
            if r and r[4]:
                for _ in range(3):
                    add(r, rng.randrange(len(r[4])), rng.choice(KINDS))
    else:
        n = rng.choice([1, 2, 5, 20, 60])
        for _ in range(n * 3):
            if len(subs) >= n: break
            ti, p, r = rng.choice(all_rows)
            u = rng.random()
            j = 0 if u < 0.2 else (len(r[4]) - 1 if u < 0.4 else rng.randrange(len(r[4])))
            add(r, j, rng.choice(KINDS))
    return [(ln, a, b, old, new, kind) for (ln, a, b), (old, new, kind) in sorted(subs.items())]


def apply_substitutions(lines, subs):
    out = list(lines)
    for ln, a, b, old, new, kind in sorted(subs, key=lambda x: (x[0], -x[1])):
        s = out[ln]
        assert s[a:b] == old, (s[a:b], old)
        out[ln] = s[:a] + new + s[b:]
    return out


# ---------------------------------------------------------------------------------------
def same(a, b):
    a = float(a); b = float(b)
    return a == b or (a != a and b != b)


def norm_key(names):
    k = tuple(O.my_fix(n) for n in names)
    return k[0] if len(k) == 1 else k


def pick_times(n, which):
    if which == 'all' or n <= 3: return list(range(n))
    return sorted({0, n // 2, n - 1})


COMPANIONS = ['AUTOUGH2/8/case8.listing', 'TOUGH2/2/rfp.listing', 'TOUGH2-MP/1/OUTPUT_DATA', 'TOUGH3/1/OUTPUT',
              'TOUGHREACT/2/case2.out', 'TOUGHplus/1/case1.dat']
PRELUDE_INCON = ('INCON -- two of four primary variables, blank porosity, a block without values\n'
                 '  a 1           0.10000000E+00\n 0.1000000000000E+06 0.2000000000000E+02\n'
                 '  a 2\n 0.1000000000000E+06\n'
                 '  a 3           \n 0.1000000000000E+06 0.2000000000000E+02 0.3000000000000E+00\n\n')
_PRELUDE_DONE = [False]


def prelude(listing_root):
    """other PyTOUGH activity in this process before any listing is looked at: the other fixed-format readers (initial
    conditions with blank fields, a data file, a geometry), through their public entry points"""
    if _PRELUDE_DONE[0]: return
    _PRELUDE_DONE[0] = True
    tests = os.path.dirname(listing_root)
    d = tempfile.mkdtemp(prefix='c05p-')
    try:
        import t2incons, t2data, mulgrids
        p = os.path.join(d, 'blank.incon')
        with open(p, 'w') as f: f.write(PRELUDE_INCON)
        for q in [p, os.path.join(tests, 'incon', 'TOUGH2', '1', 'case1.incon'), os.path.join(tests, 'incon', 'AUTOUGH2', '1', 'case1.incon')]:
            try: t2incons.t2incon(q)
            except Exception: pass
        try: t2data.t2data(os.path.join(tests, 'data', 'TOUGH2', '2', 'eos7c.dat'))
        except Exception: pass
        for root, _, fs in os.walk(os.path.join(tests, 'mulgrid')):
            for fn in sorted(fs)[:1]:
                try: mulgrids.mulgrid(os.path.join(root, fn))
                except Exception: pass
            break
    finally:
        shutil.rmtree(d, ignore_errors=True)


class ReaderHang(BaseException):
    """the reader used more CPU time than any job of this size can need: it does not return"""


def _on_cpu_alarm(signum, frame): raise ReaderHang()


def process(job):
    """runs process_ under a CPU-time watchdog (process CPU, not wall clock: the bound does not depend on how busy the
    machine is; the largest job needs 4 s of CPU, the bound for it is 33 s with other activity, 230 s otherwise)"""
    import signal
    mb = os.path.getsize(job['src']) / 1e6 if os.path.exists(job['src']) else 1.0
    limit = (15 + 10 * mb) if job.get('interference') else (120 + 60 * mb)
    old = None
    try:
        old = signal.signal(signal.SIGPROF, _on_cpu_alarm)
        signal.setitimer(signal.ITIMER_PROF, limit)
    except (ValueError, AttributeError): pass                 # not in a main thread: no watchdog
    job = dict(job, _cpu_limit=limit)
    try: return process_(job)
    finally:
        try:
            signal.setitimer(signal.ITIMER_PROF, 0)
            if old is not None: signal.signal(signal.SIGPROF, old)
        except (ValueError, AttributeError): pass


_STAGE = ['']


def process_(job):
    """job: dict(src=absolute path of the shipped file, rel=its name, subs=None | list | mode string,
    seed, times='quick'|'all', skips=max number of skip subsets (0: none), addr_stride,
    interference = None | {'prelude': bool, 'companions': [rel, ...]}: the statement is evaluated after other PyTOUGH
    activity in the same process and with listings of the other simulators open (and kept open) at the same time)"""
    install_capture()
    import t2listing as T
    rel = job['rel']
    itf = job.get('interference')
    if itf and itf.get('prelude'): prelude(job['src'][:-len(rel)].rstrip(os.sep))
    res = {'rel': rel, 'cases': [], 'failures': [], 'stats': {}, 'subs': None, 'tok': [], 'variant': job.get('subs') is not None,
           'interference': bool(job.get('interference'))}
    stats = res['stats']
    companions = []
    def fail(oracle, key, inp, observed, required):
        d = {'file': rel, 'subs': res['subs']}
        d.update(inp)
        if itf:
            d['interference'] = itf
            if key not in (FINDING15, NEG2, ABSENT_FIRST): key = 'with-other-activity:' + key
        if len(res['failures']) < 12:
            res['failures'].append({'oracle': oracle, 'key': key, 'input': d, 'observed': str(observed)[:600], 'required': str(required)[:600]})
        stats['failures'] = stats.get('failures', 0) + 1
    raw = open(job['src'], 'rb').read().decode('latin-1')
    lines = raw.split('\n')
    tmpdir = None
    path = job['src']
    try:
        if job.get('subs') is not None:
            rng = random.Random(job['seed'])
            if isinstance(job['subs'], str):
                times0 = O.scan_listing(lines)
                subs = choose_substitutions(rng, lines, times0, job['subs'])
                if not subs:
                    stats['no_substitution_possible'] = 1
                    return res
            else: subs = [tuple(x) for x in job['subs']]
            res['subs'] = [list(x) for x in subs]
            lines = apply_substitutions(lines, subs)
            tmpdir = tempfile.mkdtemp(prefix='c05-')
            path = os.path.join(tmpdir, os.path.basename(job['src']))
            with open(path, 'wb') as f: f.write('\n'.join(lines).encode('latin-1'))
            for s in subs: stats['sub_' + s[5]] = stats.get('sub_' + s[5], 0) + 1
        only = None
        if job.get('only_changed') and res['subs']:
            only = set()
            for sb in res['subs']: only.add(lines[sb[0]] + '\n'); only.add(lines[sb[0]])
        times = O.scan_listing(lines)
        job = dict(job, _times0=times[0] if times else [])
        del _CAP[:]
        seen = set()
        # ---- open -------------------------------------------------------------------
        _STAGE[0] = 't2listing(file)'
        try:
            lst = T.t2listing(path)
        except Exception as e:
            cases_from_capture(list(_CAP), seen, res['cases'], stats, only)
            msg = '%s: %s' % (type(e).__name__, str(e).split('\n')[0][:80])
            key = 't2listing:open-raises:' + type(e).__name__
            if type(e) is Exception: key += ':' + '-'.join(re.findall(r'[A-Za-z]+', str(e).split(':')[0])[:4])
            if 'Unable to parse table line' in str(e) and times:
                bad = str(e).split('\n', 1)[1].rstrip('\r\n') if '\n' in str(e) else ''
                # the row the reader names: a printed row of the first result time in which a no-letter
                # exponent abuts the next number
                for p in times[0]:
                    for r in p.rows:
                        if r[5] == bad and any(r[4][j][1] == r[4][j + 1][0] and token_form(r[4][j][2]) == 'noletter'
                                               for j in range(len(r[4]) - 1)):
                            key = FINDING15
            if key != FINDING15 and times and first_row_fixed_then_signed(times[0]): key = NEG2
            fail('opens', key, {'time': None}, msg, 'the listing opens (every printed number is of a form the row format can print)')
            stats['open_raises'] = 1
            return res
        stats['opened'] = 1
        stats['sim_' + str(lst.simulator)] = 1
        if itf:
            # listings of the other simulators are opened now and stay open while this one is stepped through
            _CAPTURE_ON[0] = False
            for crel in itf.get('companions', []):
                _STAGE[0] = 'opening %s while this listing is open' % crel
                try: companions.append(T.t2listing(os.path.join(job['src'][:-len(rel)], crel)))
                except Exception: pass
            _CAPTURE_ON[0] = True
            stats['companions_open'] = len(companions)
        nt = lst.num_fulltimes
        if nt != len(times):
            fail('result-times', 't2listing:result-times-differ', {'time': None}, nt, '%d result times printed' % len(times))
        tis = [t for t in pick_times(nt, job.get('times', 'quick')) if t < len(times)]
        snap = {}
        for ti in tis:
            _STAGE[0] = 'index = %d' % ti
            try: lst.index = ti
            except Exception as e:
                fail('reads', ABSENT_FIRST if absent_at_first(job, times[ti]) else 't2listing:set-index-raises:' + type(e).__name__,
                     {'time': ti}, repr(e)[:200], 'no exception')
                continue
            snap[ti] = {tn: (list(lst._table[tn].row_name), lst._table[tn]._data.copy()) for tn in lst.table_names}
            for tn in lst.table_names:
                check_table(lst, tn, ti, times[ti], lines, fail, stats, res, job)
            if job.get('table_ops', True):
                _CAPTURE_ON[0] = False
                try: check_table_ops(T, lst, ti, snap[ti], fail, stats)
                finally: _CAPTURE_ON[0] = True
        cases_from_capture(list(_CAP), seen, res['cases'], stats, only)
        del _CAP[:]
        table_names = list(lst.table_names)
        # ---- every result time, however it is reached ---------------------------------
        if job.get('routes', True) and snap:
            _CAPTURE_ON[0] = False
            try:
                for c in companions:                      # the other open listings move too
                    _STAGE[0] = 'moving another open listing (%s)' % os.path.basename(c.filename)
                    try: c.last(); c.first()
                    except Exception: pass
                check_routes(lst, snap, times, fail, stats, job)
            finally: _CAPTURE_ON[0] = True
        lst.close()
        # ---- every subset of skipped tables leaves the others identical ---------------
        nsk = job.get('skips', 0)
        if (nsk or job.get('skip_sets')) and snap:
            subsets = [c for k in range(1, len(table_names) + 1) for c in itertools.combinations(table_names, k)]
            stats['skip_subsets_total'] = len(subsets)
            subsets = subsets[:nsk]
            if job.get('skip_sets'): subsets = [tuple(x) for x in job['skip_sets']]
            for S in subsets:
                _STAGE[0] = 't2listing(file, skip_tables=%s) and its indices' % list(S)
                try: l2 = T.t2listing(path, skip_tables=list(S))
                except Exception as e:
                    fail('skip-tables', 'skip_tables:open-raises', {'skip': list(S), 'time': None}, repr(e)[:300], 'opens like the unskipped listing')
                    continue
                stats['skip_runs'] = stats.get('skip_runs', 0) + 1
                for ti in snap:
                    try: l2.index = ti
                    except Exception as e:
                        fail('skip-tables', ABSENT_FIRST if absent_at_first(job, times[ti]) else 'skip_tables:read-raises',
                             {'skip': list(S), 'time': ti}, repr(e)[:300], 'no exception'); continue
                    for tn in table_names:
                        if tn in S: continue
                        stats['skip_table_comparisons'] = stats.get('skip_table_comparisons', 0) + 1
                        rows0, data0 = snap[ti][tn]
                        t2 = l2._table.get(tn)
                        if t2 is None:
                            fail('skip-tables', 'skip_tables:other-table-missing', {'skip': list(S), 'time': ti, 'table': tn}, 'table absent', 'table present'); continue
                        if list(t2.row_name) != rows0 or t2._data.shape != data0.shape or not np.array_equal(t2._data, data0, equal_nan=True):
                            where = None
                            if t2._data.shape == data0.shape:
                                d = np.argwhere(~((t2._data == data0) | (np.isnan(t2._data) & np.isnan(data0))))
                                if len(d): where = [int(d[0][0]), int(d[0][1])]
                            fail('skip-tables', ABSENT_FIRST if absent_at_first(job, times[ti]) else 'skip_tables:other-table-changed', {'skip': list(S), 'time': ti, 'table': tn, 'cell': where},
                                 'differs from the unskipped read', 'identical contents')
                l2.close()
            del _CAP[:]
        return res
    except ReaderHang:
        fail('reads', 't2listing:does-not-return', {'time': None, 'stage': _STAGE[0]},
             'no return after %.0f s of CPU time during: %s' % (job.get('_cpu_limit', 0), _STAGE[0]), 'the reader returns (this listing is read in about a second)')
        stats['hangs'] = 1
        return res
    finally:
        del _CAP[:]
        _CAPTURE_ON[0] = True
        for c in companions:
            try: c.close()
            except Exception: pass
        if tmpdir: shutil.rmtree(tmpdir, ignore_errors=True)


def apply_route(lst, ops):
    for op in ops:
        if op[0] == 'index': lst.index = op[1]
        elif op[0] == 'first': lst.first()
        elif op[0] == 'last': lst.last()
        elif op[0] == 'next': lst.next()
        elif op[0] == 'prev': lst.prev()
        elif op[0] == 'time': lst.time = op[1]
        elif op[0] == 'step': lst.step = op[1]


SENTINEL = -7.7e77


def routes_to(ti, n, ft, fs):
    """ways of reaching result time ti other than `index = ti`: [(kind, ops)].  Each starts from another
    position (so that a table the move fails to re-read is seen to hold the other position's numbers)."""
    away = [('index', (ti + 1) % n)] if n > 1 else []
    far = [('index', 0 if ti else n - 1)] if n > 1 else []
    out = [('negative-index', far + [('index', ti - n)])]
    if ti == n - 1:
        out.append(('last', [('first',), ('last',)]))
        out.append(('time-past-end', [('first',), ('time', 2.0 * abs(ft[-1]) + 1.0)]))
        out.append(('step-past-end', [('first',), ('step', int(fs[-1]) + 1)]))
    if ti == 0:
        out.append(('first', [('last',), ('first',)]))
        out.append(('time-before-start', [('last',), ('time', ft[0] - abs(ft[0]) - 1.0)]))
        out.append(('step-before-start', [('last',), ('step', int(fs[0]) - 1)]))
    out.append(('time', away + [('time', ft[ti])]))
    out.append(('step', away + [('step', int(fs[ti]))]))
    if ti > 0: out.append(('next', [('index', ti - 1), ('next',)]))
    if ti < n - 1: out.append(('prev', [('index', ti + 1), ('prev',)]))
    return out


def check_routes(lst, snap, times, fail, stats, job):
    """The statement is about every result time, not about `index = i`: whichever way the reader is moved to a
    result time (negative index, first/last, next/prev, time and step setters incl. values outside the range),
    its tables must hold the numbers printed for the result time it says it is at.  snap[i] = the tables after
    `index = i`, which check_table has compared with the printed numbers."""
    n = lst.num_fulltimes
    ft = [float(x) for x in lst.fulltimes]; fs = [int(x) for x in lst.fullsteps]
    for ti in sorted(snap):
        for kind, ops in routes_to(ti, n, ft, fs):
            stats['routes'] = stats.get('routes', 0) + 1
            stats['route_' + kind] = stats.get('route_' + kind, 0) + 1
            ops_j = [list(o) for o in ops]
            _STAGE[0] = 'moves %s' % ops_j
            try:
                apply_route(lst, ops[:-1])
                # the tables are overwritten through the public column views (table[col][:] = x): what a move exposes must
                # not depend on what the tables held before it (a blank trailing cell reads as zero, not as what was there)
                for tn in lst.table_names:
                    Tb = lst._table[tn]
                    for c in set(Tb.column_name): Tb[c][:] = SENTINEL
                apply_route(lst, ops[-1:])
            except Exception as e:
                known = any(absent_at_first(job, times[t]) for t in range(min(len(times), n)))
                fail('navigation', ABSENT_FIRST if known else 'set_index:%s:raises:%s' % (kind, type(e).__name__),
                     {'time': ti, 'route': ops_j}, repr(e)[:200], 'no exception')
                continue
            at = lst.index
            if not isinstance(at, (int, np.integer)) or at not in snap:
                if not (isinstance(at, (int, np.integer)) and 0 <= at < n):
                    fail('navigation', 'set_index:%s:index-out-of-range' % kind, {'time': ti, 'route': ops_j}, repr(at), '0 <= index < %d' % n)
                continue
            at = int(at)
            for tn in lst.table_names:
                if tn not in snap[at]: continue
                rows0, data0 = snap[at][tn]
                T = lst._table[tn]
                stats['route_table_comparisons'] = stats.get('route_table_comparisons', 0) + 1
                if list(T.row_name) == rows0 and T._data.shape == data0.shape and np.array_equal(T._data, data0, equal_nan=True): continue
                cell, got, want = None, None, None
                if T._data.shape == data0.shape:
                    d = np.argwhere(~((T._data == data0) | (np.isnan(T._data) & np.isnan(data0))))
                    if len(d):
                        i, j = int(d[0][0]), int(d[0][1])
                        cell = [rows0[i] if i < len(rows0) else i, T.column_name[j]]
                        got, want = float(T._data[i, j]), float(data0[i, j])
                known = False                                 # a table the reader never reads at this result time
                if at < len(times) and absent_at_first(job, times[at]):
                    want_cols = ''.join(T.column_name).replace(' ', '')
                    cands = [q for q in times[at] if ''.join(q.cols) == want_cols]
                    known = len(cands) != 1 or absent_at_first(job, times[at], cands[0])
                fail('navigation', ABSENT_FIRST if known else 'set_index:%s:table-not-the-printed-numbers' % kind,
                     {'time': at, 'route': ops_j, 'table': tn, 'cell': cell},
                     'after %s the reader is at index %d and %s%s = %r' % (ops_j, at, tn, cell, got),
                     'the number printed for that result time (read after `index = %d`): %r' % (at, want))


def _same_arr(a, b):
    return a.shape == b.shape and bool(np.array_equal(a, b, equal_nan=True))


def _first_diff(a, b):
    if a.shape != b.shape: return None
    d = np.argwhere(~((a == b) | (np.isnan(a) & np.isnan(b))))
    return [int(d[0][0]), int(d[0][1])] if len(d) else None


def check_table_ops(T, lst, ti, snapti, fail, stats):
    """The exposed tables must hold the printed numbers whatever READ-ONLY public operations the caller has performed on
    them: after table arithmetic (the documented `change = last.element - first.element`), row / column / name access,
    iteration, rows_matching, repr and DataFrame export, and WITHOUT re-reading the results, every exposed table is
    compared with what it held when check_table compared it with the printed numbers.  Arithmetic must also leave the
    other operand unchanged, return the element-wise sum / difference, and return a table that does not share its
    cells with an operand (writing into the result must not change an operand)."""
    for tn in lst.table_names:
        Tb = lst._table[tn]
        if tn not in snapti: continue
        rows0, data0 = snapti[tn]
        nr, nc = data0.shape
        stats['table_ops_tables'] = stats.get('table_ops_tables', 0) + 1
        def unchanged(op):
            """the exposed table after the operation, by its data and by public access (row index, row name, column name)"""
            now = lst._table[tn]
            ok = now is Tb and list(now.row_name) == rows0 and _same_arr(now._data, data0)
            cell = None
            if ok and nr:
                for i in sorted(set([0, nr // 2, nr - 1])):
                    row = now[i]
                    vals = np.array([row[c] for c in now.column_name], dtype=float) if len(set(now.column_name)) == nc else data0[i]
                    if row['key'] != rows0[i] or not _same_arr(vals.reshape(1, -1), data0[i].reshape(1, -1)): ok = False; cell = [i, None]
                for j, c in enumerate(now.column_name):
                    if now.column_name.index(c) == j and not _same_arr(np.asarray(now[c], dtype=float).reshape(-1, 1), data0[:, j].reshape(-1, 1)):
                        ok = False; cell = [None, c]
            if ok: return True
            if cell is None and now._data.shape == data0.shape:
                d = _first_diff(now._data, data0)
                if d: cell = [rows0[d[0]] if d[0] < len(rows0) else d[0], now.column_name[d[1]], float(now._data[d[0], d[1]]), float(data0[d[0], d[1]])]
            fail('table-operations', 'listingtable:%s:exposed-table-modified' % op.split(':')[0], {'time': ti, 'table': tn, 'operation': op, 'cell': cell},
                 'after %s (no index / time / step change) the exposed %s table differs from the printed numbers at %s' % (op, tn, cell),
                 'a read-only public operation leaves the exposed table holding the printed numbers')
            Tb._data[...] = data0                          # so that the next operation is judged on its own
            return False
        # an independent second operand built through the public constructor and public writes
        B = T.listingtable(list(Tb.column_name), list(Tb.row_name), num_keys=Tb.num_keys, allow_reverse_keys=Tb.allow_reverse_keys)
        bdata = (np.arange(nr, dtype=float).reshape(-1, 1) * 1000.0 + np.arange(nc, dtype=float).reshape(1, -1) + 0.5) if nr and nc else np.zeros((nr, nc))
        for i in range(nr): B[i] = bdata[i]
        with np.errstate(all='ignore'):
            ariths = [('arithmetic:exposed - other', lambda: Tb - B, data0 - bdata, B, bdata),
                      ('arithmetic:exposed + other', lambda: Tb + B, data0 + bdata, B, bdata),
                      ('arithmetic:other - exposed', lambda: B - Tb, bdata - data0, B, bdata),
                      ('arithmetic:other + exposed', lambda: B + Tb, bdata + data0, B, bdata),
                      ('arithmetic:exposed - exposed', lambda: Tb - Tb, data0 - data0, None, None),
                      ('arithmetic:exposed + exposed', lambda: Tb + Tb, data0 + data0, None, None)]
            for op, f, want, other, odata in ariths:
                stats['table_ops'] = stats.get('table_ops', 0) + 1
                _STAGE[0] = '%s on table %s at index %d' % (op, tn, ti)
                try: r = f()
                except Exception as e:
                    fail('table-operations', 'listingtable:arithmetic:raises:' + type(e).__name__, {'time': ti, 'table': tn, 'operation': op}, repr(e)[:200],
                         'tables with the same rows and columns can be added and subtracted')
                    continue
                ok = unchanged(op)
                if other is not None and not _same_arr(other._data, odata):
                    fail('table-operations', 'listingtable:arithmetic:operand-modified', {'time': ti, 'table': tn, 'operation': op, 'cell': _first_diff(other._data, odata)},
                         'the other operand changed', 'table arithmetic does not modify its operands')
                    other._data[...] = odata
                if list(r.row_name) != rows0 or list(r.column_name) != list(Tb.column_name) or not _same_arr(np.asarray(r._data, dtype=float), want):
                    if ok:
                        fail('table-operations', 'listingtable:arithmetic:result-wrong', {'time': ti, 'table': tn, 'operation': op, 'cell': _first_diff(np.asarray(r._data, dtype=float), want)},
                             'result differs from the element-wise value', 'same rows and columns, each cell the sum / difference of the operands\' cells')
                elif nr and nc:
                    for c in set(r.column_name): r[c][:] = SENTINEL       # the result is the caller's: writing into it ...
                    unchanged(op + ', then writing into the result')     # ... must not reach the exposed table
                    if other is not None and not _same_arr(other._data, odata):
                        fail('table-operations', 'listingtable:arithmetic:result-shares-cells-with-operand', {'time': ti, 'table': tn, 'operation': op},
                             'writing into the result changed the other operand', 'the result is a table of its own')
                        other._data[...] = odata
        # access, iteration, matching, printing, export
        reads = [('access:rows by index, rows by name, columns by name', lambda: ([Tb[i] for i in range(0, nr, max(1, nr // 50))],
                                                                                   [Tb[k] for k in rows0[::max(1, nr // 50)]], [Tb[c] for c in Tb.column_name])),
                 ('access:iteration over the table', (lambda: [row for row in Tb]) if nr <= 20000 else None),
                 ('access:rows_matching', (lambda: (Tb.rows_matching('.'), Tb.rows_matching('.', match_any=True))) if nr <= 20000 else None),
                 ('access:repr, num_rows, num_columns', lambda: (repr(Tb), Tb.num_rows, Tb.num_columns)),
                 ('access:DataFrame', lambda: Tb.DataFrame)]
        for op, f in reads:
            if f is None: continue
            stats['table_ops'] = stats.get('table_ops', 0) + 1
            _STAGE[0] = '%s on table %s at index %d' % (op, tn, ti)
            try: f()
            except ImportError: continue                      # pandas not installed
            except Exception: pass                            # what these return or raise is not part of this statement
            unchanged(op)


def absent_at_first(job, ptabs, upto=None):
    """does this result time print a table (ahead of `upto`) that the first result time does not print?"""
    first_heads = [tuple(q.cols) for q in job['_times0']]
    for q in ptabs:
        if q is upto: break
        if tuple(q.cols) not in first_heads: return True
    return False


def check_table(lst, tn, ti, ptabs, lines, fail, stats, res, job):
    """the property statement for one exposed table at one result time"""
    T = lst._table[tn]
    want = ''.join(T.column_name).replace(' ', '')
    cands = [p for p in ptabs if ''.join(p.cols) == want]
    base = {'time': ti, 'table': tn}
    if len(cands) == 0:
        stats['table_not_printed_at_time'] = stats.get('table_not_printed_at_time', 0) + 1
        return
    if len(cands) > 1:
        stats['ambiguous_printed_table'] = stats.get('ambiguous_printed_table', 0) + 1
        return
    P = cands[0]
    stats['tables'] = stats.get('tables', 0) + 1
    if P.odd: stats['unclassified_numeric_lines'] = stats.get('unclassified_numeric_lines', 0) + len(P.odd)
    col0I = bool(P.cols) and P.cols[0] == 'I'
    ncols = T.num_columns
    printed = {}
    order = []
    for r in P.rows:
        k = norm_key(r[1])
        if k not in printed: order.append(k)
        printed.setdefault(k, []).append(r)
    # one row per printed row, keyed by the printed names
    rn = list(T.row_name)
    n_distinct = len({(norm_key(r[1]), r[2]) for r in P.rows})
    if len(rn) not in (len(P.rows), n_distinct) or set(rn) != set(order):
        # (TOUGH2-MP prints border rows once per processor: rows with the same names and index count once)
        extra = [k for k in rn if k not in printed][:3]
        missing = [k for k in order if k not in set(rn)][:3]
        fail('rows', NEG2 if first_row_fixed_then_signed(job['_times0']) else 'setup_table:row-set-differs', dict(base, row=(missing or extra or [None])[0]),
             '%d rows; not printed: %r; printed but absent: %r' % (len(rn), extra, missing),
             '%d printed rows (%d distinct) keyed by the printed names' % (len(P.rows), n_distinct))
    for i, k in enumerate(rn):
        if k not in printed: continue
        got = [float(x) for x in T._data[i]]
        ok_any = False
        first_bad = None
        for r in printed[k]:
            vals = [float(x) for x in r[3]] + [O.token_value(t[2]) for t in r[4]]
            forms = ['int'] * len(r[3]) + [token_form(t[2]) for t in r[4]]
            stats['rows'] = stats.get('rows', 0) + 1
            stats['cells'] = stats.get('cells', 0) + len(vals)
            if len(vals) > ncols:
                bad = (len(vals) - 1, 'more numbers printed than columns', forms[-1])
            else:
                vals = vals + [0.0] * (ncols - len(vals)); forms = forms + ['blank'] * (ncols - len(forms))
                bad = None
                for j in range(ncols):
                    if vals[j] is None or not same(vals[j], got[j]):
                        bad = (j, vals[j], forms[j]); break
            if bad is None: ok_any = True; break
            if first_bad is None: first_bad = (r, bad)
        if len(printed[k]) > 1: stats['rows_printed_more_than_once'] = stats.get('rows_printed_more_than_once', 0) + 1
        if not ok_any:
            r, (j, v, form) = first_bad
            key = 'read_table_line:cell-differs:' + form
            if absent_at_first(job, ptabs, P): key = ABSENT_FIRST
            elif first_row_fixed_then_signed(job['_times0']): key = NEG2
            fail('cells', key,
                 dict(base, row=k, column=T.column_name[j] if j < ncols else j, line_no=r[0], line=r[5]),
                 'cell = %r' % (got[j] if j < ncols else None), 'printed number %r' % (v,))
    # the Coq specification of the tokens is compared with the Python twin on the same rows
    if not res['variant'] and not str(lst.simulator).startswith('AUTOUGH'):
        # non-vacuity of cells_decode: printed rows whose numbers lie inside the inferred fields
        v = list(T.row_format['values'])
        for r in P.rows:
            offs = len(r[3])
            stats['rows_layout_checked'] = stats.get('rows_layout_checked', 0) + 1
            if len(r[4]) + offs <= len(v) - 1 and all(v[j + offs] <= a and b <= v[j + offs + 1] for j, (a, b, t) in enumerate(r[4])):
                stats['rows_in_layout'] = stats.get('rows_in_layout', 0) + 1
    if ti == 0 and not res['variant'] and not str(lst.simulator).startswith('AUTOUGH'):
        r = layout_row(P)
        if r is not None:
            stats['layout_lines'] = stats.get('layout_lines', 0) + 1
            tk = r[4]
            if all(tk[j][1] < tk[j + 1][0] or token_form(tk[j][2]) == 'E2' for j in range(len(tk) - 1)):
                stats['layout_sidecond_met'] = stats.get('layout_sidecond_met', 0) + 1
    for r in P.rows[:: job.get('tok_stride', 1)]:
        res['tok'].append(('tok\t%s\t%d' % (hx(r[5]), 1 if col0I else 0), 'T ' + ','.join(hx(x) for x in (list(r[3]) + [t[2] for t in r[4]]))))
    # addressing: row name / row index / column name agree; reversed connection keys negate.
    # Row-index and column-name addressing are exact whatever the names (every row index, repeated names included):
    # table[i] is the i-th row, table[i][c] == table[c][i], and when the exposed rows are the printed rows in printed order
    # (AUTOUGH2 assigns by position; elsewhere only when the names are distinct) table[i] holds the numbers of the i-th
    # printed row.  Row-name addressing is exact for a name carried by one row; for a repeated name it must give one of
    # the printed rows with that name.
    astride = job.get('addr_stride', 1)
    colnames = list(T.column_name)
    cols = {}
    for c in set(colnames): cols[c] = T[c]
    count = {}
    for k in rn: count[k] = count.get(k, 0) + 1
    dup_names = len(count) != len(rn)
    dup_idx = [i for i, k in enumerate(rn) if count[k] > 1]
    aligned = len(P.rows) == len(rn) and all(norm_key(r[1]) == k for r, k in zip(P.rows, rn)) \
        and (not dup_names or str(lst.simulator).startswith('AUTOUGH'))
    def printed_vals(r):
        v = [float(x) for x in r[3]] + [O.token_value(t[2]) for t in r[4]]
        return v + [0.0] * (ncols - len(v)) if len(v) <= ncols else None
    if dup_idx: stats['rows_with_repeated_names'] = stats.get('rows_with_repeated_names', 0) + len(dup_idx)
    for i in sorted(set(list(range(0, len(rn), astride)) + ([len(rn) - 1] if rn else []) + dup_idx)):
        k = rn[i]
        by_i = T[i]
        stats['addr_rows'] = stats.get('addr_rows', 0) + 1
        if by_i.get('key') != k:
            fail('addressing', 'listingtable:index-row-key', dict(base, row=k, row_index=i), by_i.get('key'), k)
        for c in cols:
            if not same(cols[c][i], by_i[c]):
                fail('addressing', 'listingtable:column-vs-index', dict(base, row=k, row_index=i, column=c),
                     'table[%d][%r] = %r' % (i, c, by_i[c]), 'table[%r][%d] = %r' % (c, i, cols[c][i]))
                break
        if aligned:
            pv = printed_vals(P.rows[i])
            if pv is not None and all(x is not None for x in pv):
                stats['addr_rows_vs_printed'] = stats.get('addr_rows_vs_printed', 0) + 1
                for j, c in enumerate(colnames):
                    if colnames.count(c) == 1 and not same(by_i[c], pv[j]):
                        key = 'listingtable:index-vs-printed-row'
                        if absent_at_first(job, ptabs, P): key = ABSENT_FIRST
                        elif first_row_fixed_then_signed(job['_times0']): key = NEG2
                        fail('addressing', key, dict(base, row=k, row_index=i, column=c, line_no=P.rows[i][0], line=P.rows[i][5]),
                             'table[%d][%r] = %r' % (i, c, by_i[c]), 'the number printed in row %d of the table: %r' % (i, pv[j]))
                        break
        if k in cols: continue
        if count[k] == 1:
            by_k = T[k]
            if by_k is None or by_k.get('key') != k or any(not same(by_k[c], by_i[c]) for c in cols):
                fail('addressing', 'listingtable:name-vs-index', dict(base, row=k), repr(by_k)[:300], repr(by_i)[:300])
            if T.allow_reverse_keys and isinstance(k, tuple) and len(k) > 1:
                rk = k[::-1]
                if rk not in T._row and rk not in cols:
                    stats['reverse_keys'] = stats.get('reverse_keys', 0) + 1
                    rv = T[rk]
                    if rv is None or rv.get('key') != rk or any(not same(rv[c], -by_i[c]) for c in cols):
                        fail('addressing', 'listingtable:reversed-key-negates', dict(base, row=rk), repr(rv)[:300], 'negated ' + repr(by_i)[:300])
        else:
            by_k = T[k]
            stats['repeated_name_lookups'] = stats.get('repeated_name_lookups', 0) + 1
            cands = [printed_vals(r) for r in printed.get(k, [])]
            ok_k = by_k is not None and by_k.get('key') == k and any(
                pv is not None and all(pv[j] is not None and same(by_k[c], pv[j]) for j, c in enumerate(colnames) if colnames.count(c) == 1)
                for pv in cands)
            if not ok_k:
                fail('addressing', 'listingtable:repeated-name-not-a-printed-row', dict(base, row=k), repr(by_k)[:300],
                     'one of the %d printed rows named %r' % (len(cands), k))


def skip_subsets(names, how):
    subs = [list(c) for k in range(1, len(names) + 1) for c in itertools.combinations(names, k)]
    if how == 'all': return subs
    if how == 'some':                      # every single table, the first pair, all but the first table
        out = [s for s in subs if len(s) == 1]
        if len(names) >= 3: out.append(list(names[:2]))
        if len(names) >= 2 and list(names[1:]) not in out: out.append(list(names[1:]))
        return out
    return []


def run_exe(exe, case_lines):
    import subprocess
    p = subprocess.run([exe], input='\n'.join(case_lines) + '\n', stdout=subprocess.PIPE, stderr=subprocess.PIPE, text=True, timeout=3000)
    if p.returncode != 0: return None, p.stderr[-500:]
    out = p.stdout.split('\n')
    if out and out[-1] == '': out.pop()
    return out, ''


def file_job(job):
    try: return file_job_(job)
    except Exception as e:
        import traceback
        return {'rel': job.get('rel'), 'subs': job.get('subs'), 'runs': [], 'fchk': None, 'cells': 0, 'visits': 0,
                'error': 'file_job raised %r: %s' % (e, traceback.format_exc()[-600:])}


def file_job_(job):
    """job: rel, src | lines (hex list), subs (explicit list or None), sim (fallback), skips ('none'|'some'|'all'), fchk (bool), exe"""
    import t2listing as T
    import c05_file as F
    _CAPTURE_ON[0] = False
    res = {'rel': job['rel'], 'subs': job.get('subs'), 'runs': [], 'fchk': None, 'cells': 0, 'visits': 0, 'error': None}
    tmpdir = tempfile.mkdtemp(prefix='c05f-')
    try:
        if job.get('lines') is not None:
            lines = [bytes.fromhex(h).decode('latin-1') for h in job['lines']]
            name = job['rel'].replace('/', '_')
        else:
            lines = F.file_lines(open(job['src'], 'rb').read())
            name = os.path.basename(job['src'])
        if job.get('subs'):
            split = [l[:-1] if l.endswith('\n') else l for l in lines]
            split = apply_substitutions(split + ([''] if lines and lines[-1].endswith('\n') else []), [tuple(x) for x in job['subs']])
            lines = F.file_lines('\n'.join(split).encode('latin-1'))
        path = os.path.join(tmpdir, name)
        with open(path, 'wb') as f: f.write(''.join(lines).encode('latin-1'))
        sim, n, names = job.get('sim'), 0, []
        try:
            lst = T.t2listing(path); sim = lst.simulator; n = lst.num_fulltimes; names = list(lst._tablenames); lst.close()
        except Exception: pass
        if sim is None:
            res['error'] = 'simulator unknown'; return res
        res['sim'] = sim
        idx_all = list(range(1, n)) + ([-1, -n] if n > 1 else [])
        runs = [([], idx_all)] + [(s, [-1] if n > 1 else []) for s in skip_subsets(names, job.get('skips', 'none'))]
        cases = [F.case_line(sim, s, ix, lines) for s, ix in runs]
        if job.get('fchk'):
            aut = str(sim).startswith('AUTOUGH')
            tags = F.tag_lines_AUT(lines) if aut else (F.tag_lines_TP(lines) if str(sim) == 'TOUGH+' else F.tag_lines(lines))
            if tags is None: res['fchk'] = 'OUT no-outline'
            else: cases.append(F.achk_line(tags, lines) if aut else F.fchk_line(sim, tags, lines))
        out, err = run_exe(job['exe'], cases)
        if out is None or len(out) != len(cases):
            res['error'] = 'driver failed: ' + err; return res
        if job.get('fchk') and res['fchk'] is None: res['fchk'] = out[-1][:200]
        for (s, ix), o in zip(runs, out):
            impl = F.impl_run(T, path, s, ix, lines)
            model = F.parse_model(o)
            diffs = F.compare(impl, model)
            nv = len(impl.get('visits', []))
            nc = sum(len(c) for v in impl.get('visits', []) if 'data' in v for (_, c, _) in v['data'])
            res['visits'] += nv; res['cells'] += nc
            res['runs'].append({'skip': s, 'idxs': ix, 'diffs': [[str(a)[:300], str(b)[:300], str(c)[:300]] for a, b, c in diffs[:4]], 'ndiffs': len(diffs),
                                'raises': impl.get('raise')})
        return res
    finally:
        shutil.rmtree(tmpdir, ignore_errors=True)
