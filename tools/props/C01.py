"""C01 -- TOUGH2 data file write/read round trip preserves the whole model.

tie: T (t2data_format_specification, the extra-precision table, t2data_sections, the
keyword -> read_X / write_X dispatch dictionaries, the presence expressions of
get_present_sections, the PARAM look-ahead keyword list and the per-line chunk constants of
the readers / writers, all regenerated from the AST of t2data.py on every run, fail closed)
+ H (coq/C01: hand model of the read_X / write_X methods and of t2data.read / write over
Base/FixedFormat.v, run extracted against the implementation on generated objects, on their
files and on the shipped data files) + oracle (the statement on the implementation alone)."""
import os, sys, json, tempfile, shutil, time, random, collections, traceback, struct
from concurrent.futures import ProcessPoolExecutor
import vf
from translate import tables
from props import c01_translate as tr, c01_model as mdl, c01_oracle as orc, c01_gen as gen

# section keywords the Coq model covers (the others are exercised by the oracle only)
MODELLED = {'SIMUL', 'ROCKS', 'PARAM', 'MOMOP', 'START', 'NOVER', 'RPCAP', 'LINEQ', 'SOLVR', 'MULTI', 'TIMES', 'SELEC', 'DIFFU',
            'ELEME', 'CONNE', 'MESHM', 'GENER', 'SHORT', 'FOFT', 'COFT', 'GOFT', 'INCON', 'INDOM'}
SHARDS = min(8, vf.NPROC)


# ------------------------------------------------------------------ translation
def translate(ctx):
    ok = True
    try:
        text, tabs = tables.gen_format_tables(ctx.repo)
        ctx.gen('GenTables', text)
    except tables.Refusal as e:
        ctx.refusal('tables(format specifications)', e); return None
    try:
        text, info = tr.gen_sections(ctx.repo)
        ctx.gen('GenSections', text)
    except tables.Refusal as e:
        ctx.refusal('c01_translate(sections, dispatch, chunk constants)', e); return None
    return dict(tabs), info


def validate_translation(ctx, tabs, info):
    """the AST evaluation equals what the imported module holds"""
    import t2data
    n = 0
    for name, real in (('t2data_format', t2data.t2data_format_specification), ('t2data_extra_format', t2data.t2data_extra_precision_format_specification)):
        n += 1
        if tabs[name] != real: ctx.disagreement('translator-vs-imported-module', {'table': name}, 'ast literal', 'imported value differs')
    for key, real in (('t2data_sections', t2data.t2data_sections), ('t2_extra_precision_sections', t2data.t2_extra_precision_sections)):
        n += 1
        if info[key] != real: ctx.disagreement('translator-vs-imported-module', {'list': key}, repr(info[key]), repr(real))
    d = t2data.t2data()
    for key, attr in (('read_fn_names', 'read_fn'), ('write_fn_names', 'write_fn')):
        n += 1
        real = [(k, getattr(d, attr)[k].__name__) for k in t2data.t2data_sections]
        if [tuple(x) for x in info[key]] != real: ctx.disagreement('translator-vs-imported-module', {'dict': attr}, repr(info[key]), repr(real))
    ctx.corr_cases('translator-vs-imported-module', n)


# ------------------------------------------------------------------ correspondence
def model_ok(spec):
    return all(k in MODELLED for k in spec['order'])


def read_text(path):
    with open(path, 'r', encoding='latin-1', newline=None) as f: return f.read()


def tree_of(tokens): return mdl.normalise(mdl.parse(tokens))


def xp_token(xp):
    import t2data
    if xp is None: return '-'
    if xp is False: return '='
    if xp is True: return '=' + ','.join(t2data.t2_extra_precision_sections)
    if isinstance(xp, str): return '=' + xp
    return '=' + ','.join(xp)


def cfg_tokens(cfg):
    mesh = {'infile': 0, 'ascii': 1, 'binary': 2}[cfg.get('mesh', 'infile')]
    echo = cfg.get('echo')
    return [str(mesh), xp_token(cfg.get('xp')), '-' if echo is None else str(int(echo))]


def hexopt(t): return '-' if t is None else '=' + vf.hexs(t)
def unhexopt(h): return None if h == '-' else bytes.fromhex(h[1:]).decode('latin-1')
FILE_KEYS = ('main', 'mesh', 'pdat')


def files_text(d):
    out = {'main': None, 'mesh': None, 'pdat': None}
    for f in os.listdir(d):
        if f in orc.BINARY_FILES: continue
        k = 'mesh' if f == 'MESH' else ('pdat' if f.lower().endswith('.pdat') else 'main')
        out[k] = read_text(os.path.join(d, f))
    return out


def impl_write_case(spec, tmp):
    """-> (W case tokens, files written {main, mesh, pdat: text} | ('RAISE', cls), directory)"""
    dat = orc.build(spec)
    cfg = spec['config']
    toks = cfg_tokens(cfg) + mdl.encode(dat)
    d = tempfile.mkdtemp(dir=tmp)
    kw = {}
    if cfg.get('xp') is not None: kw['extra_precision'] = cfg['xp']
    if cfg.get('echo') is not None: kw['echo_extra_precision'] = cfg['echo']
    try:
        with orc.quiet(): dat.write(os.path.join(d, 'model.dat'), orc.mesh_arg(cfg.get('mesh', 'infile'), d), **kw)
        res = files_text(d)
    except Exception as e:
        res = ('RAISE', type(e).__name__)
    return toks, res, d


def impl_read(main, mesh):
    from t2data import t2data
    try:
        with orc.quiet(): r = t2data(main, mesh)
        return ('OK', tree_of(mdl.encode(r)))
    except mdl.Unsupported: return None
    except Exception as e: return ('RAISE', type(e).__name__)


def fortran_records(path):
    """the records of a Fortran unformatted file (4-byte length before and after each)"""
    with open(path, 'rb') as f: data = f.read()
    out, i = [], 0
    while i < len(data):
        n, = struct.unpack('i', data[i:i + 4])
        rec = data[i + 4:i + 4 + n]
        m, = struct.unpack('i', data[i + 4 + n:i + 8 + n])
        if n != m or len(rec) != n: raise ValueError('broken record in %s' % path)
        out.append(rec); i += 8 + n
    return out


def binary_records(d):
    """MESHA / MESHB as written by the implementation, decoded by their known layout into the record tokens of the model"""
    I = lambda r: mdl.L(mdl.val('I'), mdl.L(*[mdl.val(int(x)) for x in struct.unpack('%di' % (len(r) // 4), r)]))
    D = lambda r: mdl.L(mdl.val('D'), mdl.L(*[mdl.val(float(x)) for x in struct.unpack('%dd' % (len(r) // 8), r)]))
    S = lambda r: mdl.L(mdl.val('S'), mdl.L(*[mdl.val(r[k:k + 8].decode('latin-1')) for k in range(0, len(r), 8)]))
    a, b = fortran_records(os.path.join(d, 'MESHA')), fortran_records(os.path.join(d, 'MESHB'))
    ka, kb = [I] + [D] * 11 + [I, S, S], [I, S, I, I, I]
    if len(a) != len(ka) or len(b) != len(kb): raise ValueError('MESHA / MESHB: %d / %d records' % (len(a), len(b)))
    return mdl.L(mdl.L(*[k(r) for k, r in zip(ka, a)]), mdl.L(*[k(r) for k, r in zip(kb, b)]))


def correspond(ctx, exe, n_specs, files=True):
    tmp = tempfile.mkdtemp(prefix='c01c_')
    rng = random.Random(ctx.rng.random())
    dist = collections.Counter()
    try:
        wlines, wexp, rlines, rexp, hlines, blines, bexp, clines, cexp = [], [], [], [], [], [], [], [], []
        for i in range(n_specs):
            spec = gen.gen_spec(rng)
            cfg = spec['config']
            if not model_ok(spec): dist['skipped-unmodelled-section'] += 1; continue
            try: toks, res, d = impl_write_case(spec, tmp)
            except mdl.Unsupported: dist['skipped-unsupported-value'] += 1; continue
            wlines.append('W\t' + '\t'.join(toks)); wexp.append((spec, res))
            dist['write:' + orc.cfg_class(cfg, bool(spec['simulator']))] += 1
            if cfg.get('mesh', 'infile') == 'infile' and not cfg.get('xp') and isinstance(res, dict):
                hlines.append((spec, '\t'.join(toks[3:])))
            if isinstance(res, dict):
                # the files read back by the implementation and by the model (a binary mesh pair is left out on both sides)
                got = impl_read(os.path.join(d, 'model.dat'), orc.mesh_arg('ascii', d) if cfg.get('mesh') == 'ascii' else '')
                if got is not None:
                    rlines.append('R\t%s\t%s\t%s' % (vf.hexs(res['main']), hexopt(res['mesh']), hexopt(res['pdat']))); rexp.append((spec, got))
                    dist['read'] += 1
                if cfg.get('mesh') == 'binary':
                    # the binary pair: the records the implementation wrote against the model's, and both readers on them
                    recs = binary_records(d)
                    blines.append('B\t' + '\t'.join(toks[3:])); bexp.append((spec, recs))
                    got = impl_read(os.path.join(d, 'model.dat'), orc.mesh_arg('binary', d))
                    if got is not None and res['pdat'] is None:
                        clines.append('C\t%s\t%s' % (vf.hexs(res['main']), '\t'.join(recs))); cexp.append((spec, got))
            shutil.rmtree(d, ignore_errors=True)
        if files:
            for path, mesh in orc.shipped_files(ctx.repo):
                if isinstance(mesh, tuple): mesh = ''
                if not ctx.thorough and os.path.getsize(path) > 1000000:
                    dist['shipped-file-left-to-thorough-tier'] += 1; continue      # ~50 s each through the extracted reader
                got = impl_read(path, mesh)
                if got is None: continue
                pd = os.path.splitext(path)[0] + '.pdat'
                rlines.append('R\t%s\t%s\t%s' % (vf.hexs(read_text(path)), hexopt(read_text(mesh) if mesh else None),
                                                  hexopt(read_text(pd) if os.path.exists(pd) else None)))
                rexp.append(({'file': os.path.relpath(path, ctx.repo)}, got))
                dist['read-shipped-file'] += 1
        ctx.log('correspondence: implementation side done')
        wout = run_drv(exe, wlines)
        ctx.log('correspondence: model writes done')
        for (spec, res), mo in zip(wexp, wout):
            if mo.startswith('OK '):
                parts = mo[3:].split('\t')
                m = {'main': bytes.fromhex(parts[0]).decode('latin-1'), 'mesh': unhexopt(parts[1]), 'pdat': unhexopt(parts[2])}
            else: m = ('RAISE', mo[6:] if mo.startswith('RAISE ') else mo)
            if isinstance(res, tuple) and isinstance(m, tuple): continue       # both raise (classes are not compared)
            if isinstance(res, tuple) or isinstance(m, tuple):
                ctx.disagreement('model-write-vs-t2data.write', {'spec': spec}, repr(m)[:200], repr(res)[:200]); continue
            for k in FILE_KEYS:
                if m[k] != res[k] and not (k == 'pdat' and not m[k] and not res[k]):
                    ctx.disagreement('model-write-vs-t2data.write', {'spec': spec, 'file': k}, first_line_diff(m[k], res[k]), 'implementation'); break
        ctx.corr_cases('model-write-vs-t2data.write', len(wlines))
        rout = run_drv(exe, rlines)
        for (spec, got), mo in zip(rexp, rout):
            if mo.startswith('OK\t'): m = ('OK', tree_of(mo.split('\t')[1:]))
            else: m = ('RAISE', mo)
            if got[0] == 'RAISE' and m[0] == 'RAISE': continue
            if m[0] != got[0]: ctx.disagreement('model-read-vs-t2data.read', {'spec': spec}, repr(m)[:300], repr(got)[:300]); continue
            d = mdl.diff(m[1][0], got[1][0])
            if d: ctx.disagreement('model-read-vs-t2data.read', {'spec': spec}, d, 'model vs implementation')
        ctx.corr_cases('model-read-vs-t2data.read', len(rlines), **dict(dist))
        for (spec, recs), mo in zip(bexp, run_drv(exe, blines)):
            if not mo.startswith('OK\t') or mdl.parse(mo.split('\t')[1:]) != mdl.parse(recs):
                ctx.disagreement('model-write_bin-vs-write_binary_meshfiles', {'spec': spec}, mo[:300], ' '.join(recs)[:300])
        ctx.corr_cases('model-write_bin-vs-write_binary_meshfiles', len(blines))
        for (spec, got), mo in zip(cexp, run_drv(exe, clines)):
            if mo.startswith('OK\t'): m = ('OK', tree_of(mo.split('\t')[1:]))
            else: m = ('RAISE', mo)
            if got[0] == 'RAISE' and m[0] == 'RAISE': continue
            if m[0] != got[0]: ctx.disagreement('model-read_bin-vs-read_binary_meshfiles', {'spec': spec}, repr(m)[:300], repr(got)[:300]); continue
            d = mdl.diff(m[1][0], got[1][0])
            if d: ctx.disagreement('model-read_bin-vs-read_binary_meshfiles', {'spec': spec}, d, 'model vs implementation')
        ctx.corr_cases('model-read_bin-vs-read_binary_meshfiles', len(clines))
        # the model alone: hypotheses of t2data_read_write_partial met by generated objects; write/read/write/read/write
        hout = run_drv(exe, ['H\t' + t for _, t in hlines])
        iout = run_drv(exe, ['I\t' + t for _, t in hlines])
        names = ['only-covered-sections', 'writes', 'no-extra-precision', 'end-keyword', 'title', 'chain_ok', 'all',
                 'idem-covered-sections', 'write_idem-hypotheses', 'write_fixpoint-hypotheses', 'value-conditions-only']
        met = collections.Counter()
        for (spec, _), h, i in zip(hlines, hout, iout):
            for nm, b in zip(names, h): met[nm] += (b == '1')
            if len(h) == 11 and h[0] == '1' and h[6] == '0': met['covered-but-not-met'] += 1
            if len(h) == 11 and h[6] == '1' and h[7] == '1' and h[9] == '0': met['idem-covered-but-not-met'] += 1
            if i != '11':
                ctx.disagreement('model-write-read-cycles', {'spec': spec}, 'second file = first up to trailing blanks, third = second: %s' % i, 'expected 11')
        ctx.corr_cases('model-write-read-cycles', len(hlines))
        ctx.hyp_met['t2data_read_write'] = dict(objects=len(hlines), **{k: met[k] for k in names[:7] + ['covered-but-not-met']})
        ctx.hyp_met['t2data_write_idem'] = dict(objects=len(hlines), **{k: met[k] for k in names[7:] + ['idem-covered-but-not-met']})
    finally:
        shutil.rmtree(tmp, ignore_errors=True)


def _drv_one(args):
    import subprocess
    exe, lines = args
    p = subprocess.run(['bash', '-c', 'ulimit -s unlimited 2>/dev/null || ulimit -s $(ulimit -H -s) 2>/dev/null; exec "$0"', exe],
                       input='\n'.join(lines) + '\n', stdout=subprocess.PIPE, stderr=subprocess.PIPE, text=True, timeout=3000)
    if p.returncode != 0: raise RuntimeError('model driver failed: ' + p.stderr[-2000:])
    out = p.stdout.split('\n')
    if out and out[-1] == '': out.pop()
    if len(out) != len(lines): raise RuntimeError('model driver returned %d lines for %d cases' % (len(out), len(lines)))
    return out


def run_drv(exe, lines):
    """the extracted model on the case lines (big files need a big stack: stdlib map / app are not tail recursive)"""
    if not lines: return []
    n = len(lines)
    shards = min(SHARDS, n)
    # round-robin so that the few multi-MB cases spread over the shards
    idx = [list(range(i, n, shards)) for i in range(shards)]
    from concurrent.futures import ThreadPoolExecutor
    with ThreadPoolExecutor(max_workers=shards) as ex:
        outs = list(ex.map(_drv_one, [(exe, [lines[j] for j in ix]) for ix in idx]))
    res = [None] * n
    for ix, o in zip(idx, outs):
        for j, l in zip(ix, o): res[j] = l
    return res


def first_line_diff(m, impl):
    if m is None or impl is None: return 'model %s, implementation %s' % ('no file' if m is None else 'file', 'no file' if impl is None else 'file')
    a, b = m.split('\n'), impl.split('\n')
    for i, (x, y) in enumerate(zip(a, b)):
        if x != y: return 'line %d: model %r, implementation %r' % (i + 1, x, y)
    return 'model wrote %d lines, implementation %d' % (len(a), len(b))


# ------------------------------------------------------------------ oracle
def classify(fail, cfg, auto):
    """finding key `callsite:input-class` of a failure (DESIGN.md App. D)"""
    stage, section, detail = fail
    c = orc.cfg_class(cfg, auto)
    if stage == 'content' and section == 'PARAM' and 'parameter.print_block' in detail: return 'read_parameters:print_block-not-fixed'
    if stage == 'rewrite' and c.endswith('xp-echo') and section in ('dat', 'DAT') and 'ECHO-LOST' in detail: return 'read:extra-precision-echo-lost'
    return '%s:%s:%s' % (stage, section, c)


def oracle_witnesses(ctx):
    """the minimal inputs of the recorded findings (and of the repaired defects): deterministic, run first"""
    n = 0
    for name, spec in gen.witness_specs():
        try: fails = orc.run_spec(spec)
        except orc.OutOfDomain: continue
        n += 1
        ctx.count(('witness', name))
        auto = bool(spec['simulator'])
        for f in fails:
            key = classify(f, spec['config'], auto)
            if name == 'echo-double-rounding' and f[0] == 'rewrite' and f[1] == 'dat' and 'ECHO-LOST' not in f[2]:
                key = 'write:echoed-copy-double-rounding'
            ctx.failure('oracle-witnesses', key, {'spec': spec}, '%s %s: %s' % f, 'the round trip statement of C01')
    ctx.oracle_cases('oracle-witnesses', n)


def oracle_shard(args):
    seed, n, repo = args
    sys.path.insert(0, repo)
    rng = random.Random(seed)
    out = {'n': 0, 'ood': 0, 'fails': [], 'dist': collections.Counter(), 'samples': []}
    for i in range(n):
        spec = gen.gen_spec(rng)
        try: fails = orc.run_spec(spec)
        except orc.OutOfDomain: out['ood'] += 1; continue
        out['n'] += 1
        sh = gen.shape(spec)
        out.setdefault('keys', []).append(json.dumps(sh, sort_keys=True))
        for k, v in sh.items(): out['dist']['%s=%s' % (k, v)] += 1
        if i < 2: out['samples'].append(sh)
        for f in fails: out['fails'].append((spec, f))
    out['dist'] = dict(out['dist'])
    return out


def fortran_shard(args):
    seed, n, repo = args
    sys.path.insert(0, repo)
    rng = random.Random(seed)
    out = {'n': 0, 'ood': 0, 'fails': []}
    for i in range(n):
        spec = gen.fortran_spec(rng)
        try: fails, text = orc.run_fortran(spec)
        except orc.OutOfDomain: out['ood'] += 1; continue
        out['n'] += 1
        for f in fails: out['fails'].append((spec, f))
    return out


def oracle_fortran(ctx, n):
    shards = SHARDS
    per = (n + shards - 1) // shards
    base = ctx.rng.randrange(1 << 30)
    with ProcessPoolExecutor(max_workers=shards) as ex:
        outs = list(ex.map(fortran_shard, [(base + i, per, ctx.repo) for i in range(shards)]))
    total = sum(o['n'] for o in outs)
    for o in outs:
        for spec, f in o['fails']:
            ctx.failure('oracle-fortran-style-files', classify(f, spec['config'], bool(spec['simulator'])), {'fortran_spec': spec},
                        '%s %s: %s' % f, 'a file from an independent Fortran-style writer reads as what it says, then obeys the round trip statement')
    ctx.evaluations += total
    ctx.oracle_cases('oracle-fortran-style-files', total, out_of_domain=sum(o['ood'] for o in outs))


def oracle(ctx, n, name='oracle-generated-objects'):
    shards = SHARDS
    per = (n + shards - 1) // shards
    base = ctx.rng.randrange(1 << 30)
    with ProcessPoolExecutor(max_workers=shards) as ex:
        outs = list(ex.map(oracle_shard, [(base + i, per, ctx.repo) for i in range(shards)]))
    dist = collections.Counter()
    total = 0
    for o in outs:
        total += o['n']
        for k, v in o['dist'].items(): dist[k] += v
        for s in o['samples']: ctx.sample(json.dumps(s))
        for spec, f in o['fails']:
            auto = bool(spec['simulator'])
            ctx.failure(name, classify(f, spec['config'], auto), {'spec': spec}, '%s %s: %s' % f, 'the round trip statement of C01')
    ctx.evaluations += total
    for o in outs:
        for k in o.get('keys', []): ctx.distinct.add(k)
    ctx.oracle_cases(name, total, **{k: v for k, v in sorted(dist.items())})
    ctx.extra.setdefault('input_distribution', {}).update({name: dict(sorted(dist.items()))})
    return total


def oracle_files(ctx):
    n = 0
    for path, mesh in orc.shipped_files(ctx.repo):
        try: fails, cfg, auto = orc.run_file(path, mesh)
        except Exception as e:
            fails, cfg, auto = [('read-raises', type(e).__name__, repr(e)[:300])], {}, False
        n += 1
        ctx.count(('file', path))
        for f in fails:
            ctx.failure('oracle-shipped-files', classify(f, cfg, auto), {'file': os.path.relpath(path, ctx.repo),
                        'mesh': None if not mesh else ([os.path.relpath(m, ctx.repo) for m in mesh] if isinstance(mesh, tuple) else os.path.relpath(mesh, ctx.repo))},
                        '%s %s: %s' % f, 'the round trip statement of C01')
    ctx.oracle_cases('oracle-shipped-files', n)


# ------------------------------------------------------------------ run
def run(ctx):
    ctx.rule = ('a data object drawn over the quantifier of C01 (both flavours; mesh in-file / MESH / MESHA+MESHB; extra precision off / on / echoed; '
                'legal permutations of the present sections; list lengths at the 4- and 8-per-line edges; 0..12 default incons; table generators with '
                '1..12 times with / without enthalpy; None in optional fields), written, re-read, compared section by section, re-written three times; '
                'distinct by its shape (flavour, mesh, extra precision, number of sections / blocks / generators, order)')
    ctx.trusted += ['Coq 8.16.1 kernel (coqc)', 'translators tools/translate/tables.py and tools/props/c01_translate.py (AST walkers, fail-closed, compared with the imported module on every run)',
                    'Base/Fmt.v, Base/FixedFormat.v, Base/PyNum.v (models of %-formatting, fixed_format_file, float()/int(): validated by C02/C16 and by the correspondence here)',
                    'coq/C01 hand model of the read_X/write_X methods (validated by correspondence on every run, not verified against the Python source)',
                    'extraction: ExtrOcamlBasic + ExtrOcamlString, OCaml 4.13.1, ocaml/main.ml', "CPython's float formatting / strtod as ground truth of the correspondence",
                    'the oracle tools/props/c01_oracle.py (its own decimal rendering of what a field carries)']
    ctx.assumptions += ['values are str / int / finite float / None and fit their fields; names are 5 characters in (A3,I2) form as the library holds them',
                        'a section is only read after the sections whose objects it looks up (ROCKS < ELEME < CONNE; SHORT/FOFT/COFT/GOFT after the mesh and GENER; DIFFU after MULTI; SIMUL first)']
    ctx.stage()
    t = translate(ctx)
    exe = None
    if t is not None:
        tabs, info = t
        validate_translation(ctx, tabs, info)
        ctx.coq_build(props=('Props.v', 'PropsWhole.v', 'PropsIdem.v'), timeout=1200)
        exe = vf.build_driver(ctx)
    ctx.log('build done')
    if exe:
        try: correspond(ctx, exe, 3000 if ctx.thorough else 300)
        except Exception as e:
            traceback.print_exc()
            ctx.proof_failures.append({'kind': 'harness', 'name': 'correspondence-crashed', 'detail': traceback.format_exc()[-2000:]})
    ctx.log('correspondence done')
    oracle_witnesses(ctx)
    oracle(ctx, 30000 if ctx.thorough else 2400)
    ctx.log('oracle (generated) done')
    oracle_fortran(ctx, 4000 if ctx.thorough else 400)
    ctx.log('oracle (fortran-style files) done')
    oracle_files(ctx)
    ctx.log('oracle (files) done')

    def deep(broken):
        if not ctx.thorough: oracle(ctx, 12000, 'oracle-deep-search')
    return ctx.finish(deep_search=deep)


def replay(ctx, data):
    inp = data.get('input') or {}
    if 'spec' in inp:
        try: fails = orc.run_spec(inp['spec'])
        except orc.OutOfDomain: return False
        for f in fails: print('replay:', f)
        return bool(fails)
    if 'fortran_spec' in inp:
        try: fails, _ = orc.run_fortran(inp['fortran_spec'])
        except orc.OutOfDomain: return False
        for f in fails: print('replay:', f)
        return bool(fails)
    if 'file' in inp:
        mesh = inp.get('mesh')
        if isinstance(mesh, list): mesh = tuple(os.path.join(ctx.repo, m) for m in mesh)
        elif mesh: mesh = os.path.join(ctx.repo, mesh)
        fails, _, _ = orc.run_file(os.path.join(ctx.repo, inp['file']), mesh or '')
        for f in fails: print('replay:', f)
        return bool(fails)
    return True
