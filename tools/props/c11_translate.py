"""C11 translator (T): mulgrids.py -> Gen/*.v, via `ast` only (mulgrids is never imported here).

What is read from the *current* source on every run:

  refine():
    * the literal `transition_column` dict        -> Definition transition_column : ttable
    * the nested function `transition_type`        -> Definition gen_transition_type (AST walk,
      a tiny expression language over Z / list Z in the option monad, see coq/C11/Comb.v)
  decompose_column():
    * the five special-case `subdivide_column(column_name, <start>, [tuples], ...)` calls with
      their guards `(nn, ns) == (a, b)` / `d == k`  -> Definition decompose_table : dtable
    * the glue statements around them are compared with the text the hand model
      (coq/C11/Decomp.v) was written against; any difference is a refusal
  triangulate_column():
    * the fan `(i, col.index_plus(i, 1), 'c')`      -> Definition gen_fan_child

plus the generated obligations, one lemma per table entry, stated about the Coq data itself:
    entry_area_ok nn entry   (children's signed areas add up to the parent's, all reals)
    entry_pos_ok nn entry    (children positively oriented for a strictly convex parent)
Fail closed: anything unexpected raises Refusal."""
import ast, itertools


class Refusal(Exception):
    pass


def _find(body, cls, name):
    for n in body:
        if isinstance(n, cls) and getattr(n, 'name', None) == name: return n
    raise Refusal('%s %s not found' % (cls.__name__, name))


def _where(node):
    return 'line %s' % getattr(node, 'lineno', '?')


# ---------------------------------------------------------------- vertices
def vtx_of(v, allow_mid=True):
    if isinstance(v, bool): raise Refusal('boolean vertex %r' % (v,))
    if isinstance(v, int):
        if v < 0: raise Refusal('negative corner index %r' % v)
        return ('C', v)
    if v == 'c': return ('c',)
    if allow_mid and isinstance(v, tuple) and len(v) == 2 and all(isinstance(x, int) and not isinstance(x, bool) and x >= 0 for x in v):
        return ('M', v[0], v[1])
    raise Refusal('unsupported vertex %r' % (v,))


def coq_vtx(v):
    if v[0] == 'C': return 'Corner %d' % v[1]
    if v[0] == 'M': return 'Mid %d %d' % (v[1], v[2])
    return 'Centre'


def coq_entry(e):
    return '[' + '; '.join('[' + '; '.join(coq_vtx(v) for v in ch) + ']' for ch in e) + ']'


# ---------------------------------------------------------------- transition_column
def read_transition_column(refine):
    node = None
    for n in ast.walk(refine):
        if isinstance(n, ast.Assign) and len(n.targets) == 1 and isinstance(n.targets[0], ast.Name) \
                and n.targets[0].id == 'transition_column':
            if node is not None: raise Refusal('transition_column assigned twice')
            node = n
    if node is None: raise Refusal('transition_column not found in refine()')
    try: val = ast.literal_eval(node.value)
    except Exception as e: raise Refusal('transition_column is not a closed literal (%s): %r' % (_where(node), e))
    if not isinstance(val, dict): raise Refusal('transition_column is not a dict')
    table = {}
    for nn, ents in val.items():
        if not (isinstance(nn, int) and not isinstance(nn, bool) and 3 <= nn <= 8) or not isinstance(ents, dict):
            raise Refusal('transition_column[%r]: unexpected shape' % (nn,))
        table[nn] = {}
        for key, chs in ents.items():
            if not (isinstance(key, tuple) and len(key) == 2 and all(isinstance(k, int) and not isinstance(k, bool) and k >= 0 for k in key)):
                raise Refusal('transition_column[%r] key %r' % (nn, key))
            if not isinstance(chs, (tuple, list)) or not chs: raise Refusal('transition_column[%r][%r] is empty' % (nn, key))
            entry = []
            for ch in chs:
                if not isinstance(ch, (tuple, list)): raise Refusal('child %r of transition_column[%r][%r]' % (ch, nn, key))
                entry.append([vtx_of(v) for v in ch])
            table[nn][key] = entry
    # how refine() uses the table (checked textually, the hand model Main.refine_children mirrors it)
    return table


# ---------------------------------------------------------------- transition_type
class TT:
    """nested def transition_type(nn, sides) -> Gallina in the option monad."""
    CMP = {ast.Eq: 'Z.eqb', ast.Lt: 'Z.ltb', ast.LtE: 'Z.leb'}
    FLIP = {ast.Gt: 'Z.ltb', ast.GtE: 'Z.leb'}
    ARITH = {ast.Add: 'Z.add', ast.Sub: 'Z.sub', ast.Mult: 'Z.mul'}

    def __init__(self, fn):
        self.fn = fn
        a = fn.args
        if a.vararg or a.kwarg or a.kwonlyargs or a.defaults or a.posonlyargs or [x.arg for x in a.args] != ['nn', 'sides']:
            raise Refusal('transition_type: signature is not (nn, sides)')
        self.z = {'nn'}; self.l = {'sides'}

    def zexpr(self, e):
        if isinstance(e, ast.Constant) and isinstance(e.value, int) and not isinstance(e.value, bool):
            return 'Some (%d)%%Z' % e.value
        if isinstance(e, ast.Name) and e.id in self.z: return 'Some %s' % e.id
        if isinstance(e, ast.BinOp) and type(e.op) in self.ARITH:
            return '(olift2 %s (%s) (%s))' % (self.ARITH[type(e.op)], self.zexpr(e.left), self.zexpr(e.right))
        if isinstance(e, ast.BinOp) and isinstance(e.op, ast.Mod):
            return '(omod (%s) (%s))' % (self.zexpr(e.left), self.zexpr(e.right))
        if isinstance(e, ast.Subscript) and isinstance(e.value, ast.Name) and e.value.id in self.l:
            i = e.slice
            if isinstance(i, ast.UnaryOp) and isinstance(i.op, ast.USub) and isinstance(i.operand, ast.Constant): k = -i.operand.value
            elif isinstance(i, ast.Constant): k = i.value
            else: raise Refusal('transition_type %s: non-constant subscript' % _where(e))
            if not isinstance(k, int) or isinstance(k, bool): raise Refusal('transition_type %s: subscript %r' % (_where(e), k))
            return '(py_index %s (%d)%%Z)' % (e.value.id, k)
        if isinstance(e, ast.Call) and isinstance(e.func, ast.Name) and e.func.id == 'len' and len(e.args) == 1 and not e.keywords \
                and isinstance(e.args[0], ast.Name) and e.args[0].id in self.l:
            return 'Some (py_len %s)' % e.args[0].id
        raise Refusal('transition_type %s: unsupported integer expression %s' % (_where(e), ast.unparse(e)))

    def lexpr(self, e):
        """list(set(range(<zvar>)) - set(<lvar>)) only."""
        def call(x, name):
            return isinstance(x, ast.Call) and isinstance(x.func, ast.Name) and x.func.id == name and len(x.args) == 1 and not x.keywords
        if call(e, 'list') and isinstance(e.args[0], ast.BinOp) and isinstance(e.args[0].op, ast.Sub):
            a, b = e.args[0].left, e.args[0].right
            if call(a, 'set') and call(a.args[0], 'range') and isinstance(a.args[0].args[0], ast.Name) and a.args[0].args[0].id in self.z \
                    and call(b, 'set') and isinstance(b.args[0], ast.Name) and b.args[0].id in self.l:
                return '(py_setdiff_list (py_range %s) %s)' % (a.args[0].args[0].id, b.args[0].id)
        return None

    def cond(self, e):
        if isinstance(e, ast.Compare) and len(e.ops) == 1:
            op = type(e.ops[0]); a, b = self.zexpr(e.left), self.zexpr(e.comparators[0])
            if op in self.CMP: return '(olift2 %s (%s) (%s))' % (self.CMP[op], a, b)
            if op in self.FLIP: return '(olift2 %s (%s) (%s))' % (self.FLIP[op], b, a)
            if op is ast.NotEq: return '(olift2 (fun x y => negb (Z.eqb x y)) (%s) (%s))' % (a, b)
        if isinstance(e, ast.BoolOp):
            f = 'oand' if isinstance(e.op, ast.And) else 'oor'
            t = self.cond(e.values[-1])
            for v in reversed(e.values[:-1]): t = '(%s %s %s)' % (f, self.cond(v), t)
            return t
        raise Refusal('transition_type %s: unsupported condition %s' % (_where(e), ast.unparse(e)))

    def block(self, stmts, ind):
        pad = '  ' * ind
        if not stmts: return pad + 'None'
        s, rest = stmts[0], stmts[1:]
        if isinstance(s, ast.Expr) and isinstance(s.value, ast.Constant) and isinstance(s.value.value, str):
            return self.block(rest, ind)       # docstring
        if isinstance(s, ast.Assign) and len(s.targets) == 1 and isinstance(s.targets[0], ast.Name):
            v = s.targets[0].id
            if v in ('nn', 'sides') or not v.isidentifier() or v in ('Some', 'None', 'fun', 'let', 'in', 'match', 'end', 'if', 'then', 'else'):
                raise Refusal('transition_type %s: assignment to %s' % (_where(s), v))
            le = self.lexpr(s.value)
            if le is not None:
                self.l.add(v); self.z.discard(v)
                return pad + 'let %s := %s in\n' % (v, le) + self.block(rest, ind)
            ze = self.zexpr(s.value)
            self.z.add(v); self.l.discard(v)
            return pad + 'obind (%s) (fun %s =>\n' % (ze, v) + self.block(rest, ind) + ')'
        if isinstance(s, ast.Return):
            if rest: raise Refusal('transition_type %s: code after return' % _where(s))
            if isinstance(s.value, ast.Tuple) and len(s.value.elts) == 3:
                return pad + 'otuple3 (%s) (%s) (%s)' % tuple(self.zexpr(x) for x in s.value.elts)
            raise Refusal('transition_type %s: return value is not a 3-tuple' % _where(s))
        if isinstance(s, ast.If):
            if rest: raise Refusal('transition_type %s: code after if' % _where(s))
            z0, l0 = set(self.z), set(self.l)
            t = self.block(s.body, ind + 1)
            self.z, self.l = set(z0), set(l0)
            e = self.block(s.orelse, ind + 1)
            self.z, self.l = z0, l0
            return pad + 'ocond %s\n%s%s(\n%s)\n%s(\n%s)' % (self.cond(s.test), pad, '', t, pad, e)
        if isinstance(s, ast.Expr) and isinstance(s.value, ast.Call) and isinstance(s.value.func, ast.Name) and s.value.func.id == 'print':
            if rest: raise Refusal('transition_type %s: code after print' % _where(s))
            return pad + 'None'      # falls off the end: returns None, the tuple assignment in refine() raises
        raise Refusal('transition_type %s: unsupported statement %s' % (_where(s), ast.unparse(s)[:80]))

    def text(self):
        return ('Definition gen_transition_type (nn : Z) (sides : list Z) : option (Z * Z * Z) :=\n'
                + self.block(self.fn.body, 1) + '.\n')


def exec_nested(fn):
    """The nested pure function, compiled from its own AST node (not from an import of
    mulgrids) -- used to validate the translation on the whole finite domain."""
    mod = ast.Module(body=[fn], type_ignores=[])
    ast.fix_missing_locations(mod)
    env = {'__builtins__': {'len': len, 'list': list, 'set': set, 'range': range, 'print': lambda *a, **k: None,
                            'abs': abs, 'min': min, 'max': max, 'sorted': sorted, 'tuple': tuple}}
    exec(compile(mod, '<transition_type>', 'exec'), env)
    return env[fn.name]


# usage of the table in refine(): these lines are what coq/C11 (resolve, refine_children) model
REFINE_USES = [
    'nrefined, istart, irange = transition_type(nn, refined_sides)',
    'for subcol in transition_column[nn][nrefined, irange]:',
    'n = col.node[(istart + vert) % nn]',
    'n = sidenodes[frozenset([col.node[(istart + i) % nn].name for i in vert])]',
    'n = centrenodes[col.name]',
    'if col.num_nodes == 4 and (nrefined == 4 or (nrefined == 2 and irange == 1)):',
    'if frozenset((corner.name, col.node[(i + 1) % nn].name)) in sidenodes:',
    'refined_sides.append(i)',
    # the dict of mid-side nodes is keyed by the UNORDERED pair of corner names (Conform.v: smap / upair)
    'nodenames = frozenset((node1.name, node2.name))',
    'sidenodes[nodenames] = self.nodelist[-1]',
    'midpos = 0.5 * (node1.pos + node2.pos)',
    'self.add_node(node(name, midpos))',
    'self.add_node(node(name, col.centre))',
    'centrenodes[col.name] = self.nodelist[-1]',
    # new columns inherit the surface (Model.subdivide_cols)
    'self.add_column(column(name, nodes, surface=col.surface))',
    'self.columnlist[-1].num_layers = col.num_layers',
]


def check_uses(fn, uses, what):
    lines = set(l.strip() for l in ast.unparse(fn).splitlines())
    for u in uses:
        if u not in lines:
            raise Refusal('%s: the statement `%s` the hand model was written against is no longer there' % (what, u))


# ---------------------------------------------------------------- decompose_column
import re
GUARD_RE = re.compile(r'^all\(\[col\.index_plus\(start, d\) in straight for d in \(([0-9, ]+)\)\]\)$')
DECOMP_GLUE = {
    'col = self.column[column_name]', 'nn = col.num_nodes', 'angles = col.interior_angles', 'tol = 0.001',
    'straight = [i for i, angle in enumerate(angles) if angle > np.pi - tol]', 'ns = len(straight)',
    'd = col.index_dist(straight[0], straight[1])',
    'last2 = [col.index_minus(i, 2) for i in straight]',
    'start = [s for s, l in zip(straight, last2) if l not in straight][0]',
}
SUBDIV_USES = [
    'nodes = [centrenode if i == \'c\' else col.node[col.index_plus(i0, i)] for i in colnodes]',
    'self.add_column(column(name, nodes, surface=col.surface))',
    'centrenode = node(newnodename, col.centre)',
    'self.columnlist[-1].num_layers = col.num_layers',
    'col = self.column[column_name]',
    'self.delete_column(column_name)',
]


def read_decompose(fn):
    entries = []        # (nn, ns, d or None, rule, entry)
    thresholds = []
    fallbacks = []
    guarded = []

    def ret(s, cond):
        v = s.value
        if isinstance(v, ast.List) and len(v.elts) == 1 and isinstance(v.elts[0], ast.Name) and v.elts[0].id == 'column_name':
            fallbacks.append(('identity', dict(cond))); return
        if isinstance(v, ast.Call) and isinstance(v.func, ast.Attribute) and isinstance(v.func.value, ast.Name) and v.func.value.id == 'self':
            args = [ast.unparse(a) for a in v.args]
            if v.func.attr == 'triangulate_column' and args == ['column_name', 'chars', 'spaces'] and not v.keywords:
                fallbacks.append(('fan', dict(cond))); return
            if v.func.attr == 'subdivide_column' and len(args) == 5 and args[0] == 'column_name' and args[3:] == ['chars', 'spaces'] and not v.keywords:
                if 'nn' not in cond or 'ns' not in cond: raise Refusal('decompose_column %s: subdivision outside an (nn, ns) guard' % _where(s))
                if cond.get('guard') and args[1] != 'start': raise Refusal('decompose_column %s: guarded subdivision with start %s' % (_where(s), args[1]))
                if args[1] == 'straight[0]': rule = 'StraightFirst'
                elif args[1] == 'start' and cond.get('guard'): rule = '(StartAfterGapIf [%s])' % '; '.join(map(str, cond['guard']))
                elif args[1] == 'start': rule = 'StartAfterGap'
                else: raise Refusal('decompose_column %s: unknown start expression %s' % (_where(s), args[1]))
                try: lit = ast.literal_eval(v.args[2])
                except Exception: raise Refusal('decompose_column %s: subdivision list is not a literal' % _where(s))
                entry = [[vtx_of(x, allow_mid=False) for x in ch] for ch in lit]
                for ch in entry:
                    for x in ch:
                        if x[0] == 'C' and x[1] >= cond['nn']: raise Refusal('decompose_column %s: corner %d >= %d' % (_where(s), x[1], cond['nn']))
                entries.append((cond['nn'], cond['ns'], cond.get('d'), rule, entry)); return
        raise Refusal('decompose_column %s: unsupported return %s' % (_where(s), ast.unparse(s)[:80]))

    def walk(stmts, cond):
        for s in stmts:
            if isinstance(s, ast.Expr) and isinstance(s.value, ast.Constant) and isinstance(s.value.value, str): continue
            if isinstance(s, ast.Assign):
                if ast.unparse(s) not in DECOMP_GLUE:
                    raise Refusal('decompose_column %s: statement `%s` is not the one the hand model was written against' % (_where(s), ast.unparse(s)))
                continue
            if isinstance(s, ast.Return): ret(s, cond); continue
            if isinstance(s, ast.If):
                t = s.test; c2 = dict(cond)
                txt = ast.unparse(t)
                if isinstance(t, ast.Compare) and len(t.ops) == 1 and isinstance(t.ops[0], ast.Eq) and ast.unparse(t.left) == '(nn, ns)':
                    try: a, b = ast.literal_eval(t.comparators[0])
                    except Exception: raise Refusal('decompose_column %s: guard %s' % (_where(s), txt))
                    if not all(isinstance(x, int) for x in (a, b)): raise Refusal('decompose_column %s: guard %s' % (_where(s), txt))
                    c2['nn'], c2['ns'] = a, b
                elif isinstance(t, ast.Compare) and len(t.ops) == 1 and isinstance(t.ops[0], ast.Eq) and ast.unparse(t.left) == 'd' \
                        and isinstance(t.comparators[0], ast.Constant) and isinstance(t.comparators[0].value, int):
                    c2['d'] = t.comparators[0].value
                elif GUARD_RE.match(txt):
                    # the subdivision is used only if the straight nodes alternate from `start`; otherwise the fan
                    if 'nn' not in cond or 'guard' in cond: raise Refusal('decompose_column %s: guard %s outside an (nn, ns) case' % (_where(s), txt))
                    c2['guard'] = [int(x) for x in GUARD_RE.match(txt).group(1).split(',') if x.strip()]
                    if not c2['guard'] or any(not 0 < d < cond['nn'] for d in c2['guard']): raise Refusal('decompose_column %s: guard %s' % (_where(s), txt))
                    if len(s.orelse) != 1 or not isinstance(s.orelse[0], ast.Return) or \
                            ast.unparse(s.orelse[0]) != 'return self.triangulate_column(column_name, chars, spaces)':
                        raise Refusal('decompose_column %s: the alternative of %s is not triangulate_column' % (_where(s), txt))
                    walk(s.body, c2)
                    guarded.append(dict(cond))
                    continue
                elif txt in ('nn <= 4', 'nn <= 8'):
                    thresholds.append(txt)
                else:
                    raise Refusal('decompose_column %s: unknown guard %s' % (_where(s), txt))
                walk(s.body, c2)
                walk(s.orelse, cond)
                continue
            raise Refusal('decompose_column %s: unsupported statement %s' % (_where(s), ast.unparse(s)[:80]))

    walk(fn.body, {})
    if thresholds != ['nn <= 4', 'nn <= 8']: raise Refusal('decompose_column: thresholds %r' % thresholds)
    if [f[0] for f in fallbacks] != ['identity', 'fan', 'fan', 'fan'] :
        raise Refusal('decompose_column: fall-back structure changed: %r' % fallbacks)
    keys = [(e[0], e[1], e[2]) for e in entries]
    if len(set(keys)) != len(keys): raise Refusal('decompose_column: duplicate guard %r' % keys)
    return entries


# ---------------------------------------------------------------- triangulate_column
def read_fan(fn):
    loop = [s for s in fn.body if isinstance(s, ast.For)]
    if len(loop) != 1: raise Refusal('triangulate_column: expected exactly one loop')
    loop = loop[0]
    if ast.unparse(loop.target) != '(i, node)' or ast.unparse(loop.iter) != 'enumerate(col.node)' or loop.orelse:
        raise Refusal('triangulate_column: loop header `for %s in %s`' % (ast.unparse(loop.target), ast.unparse(loop.iter)))
    env = {'i': 'i'}
    child = None
    for s in loop.body:
        if isinstance(s, ast.Assign) and len(s.targets) == 1 and isinstance(s.targets[0], ast.Name) and isinstance(s.value, ast.Call) \
                and ast.unparse(s.value.func) == 'col.index_plus' and len(s.value.args) == 2 and ast.unparse(s.value.args[0]) == 'i' \
                and isinstance(s.value.args[1], ast.Constant) and isinstance(s.value.args[1].value, int) and s.value.args[1].value >= 0:
            env[s.targets[0].id] = '((i + %d) mod n)' % s.value.args[1].value
        elif isinstance(s, ast.Expr) and isinstance(s.value, ast.Call) and ast.unparse(s.value.func) == 'colnodelist.append' \
                and len(s.value.args) == 1 and isinstance(s.value.args[0], ast.Tuple) and child is None:
            child = []
            for x in s.value.args[0].elts:
                if isinstance(x, ast.Name) and x.id in env: child.append('Corner %s' % env[x.id])
                elif isinstance(x, ast.Constant) and x.value == 'c': child.append('Centre')
                else: raise Refusal('triangulate_column %s: vertex %s' % (_where(x), ast.unparse(x)))
        else:
            raise Refusal('triangulate_column %s: unsupported statement %s' % (_where(s), ast.unparse(s)))
    if child is None: raise Refusal('triangulate_column: no child tuple')
    calls = [ast.unparse(s) for s in fn.body if isinstance(s, ast.Assign) and 'subdivide_column' in ast.unparse(s)]
    if calls != ['colnames = self.subdivide_column(column_name, 0, colnodelist, chars, spaces)']:
        raise Refusal('triangulate_column: subdivide_column call %r' % calls)
    return child


# ---------------------------------------------------------------- split_column
SPLIT_USES = [
    'if nn == 4:',
    'nodenames = [node.name for node in col.node]',
    'i0 = nodenames.index(nodename)',
    'i = [(i0 + j) % nn for j in range(nn)]',
]
# statements that must stand, unconditionally, in the same block as `del col.node[i[k]]` and after it
SPLIT_AFTER_DEL = [
    'col.get_area()',
    'self.add_column(col2)',
    'self.set_column_num_layers(col2)',
    'self.add_connection(connection([col, col2]))',
]


def _block_with(fn, pred):
    """the statement list (and index) that directly contains the first statement satisfying pred"""
    for n in ast.walk(fn):
        for fld in ('body', 'orelse', 'finalbody'):
            stmts = getattr(n, fld, None)
            if isinstance(stmts, list):
                for k, st in enumerate(stmts):
                    if isinstance(st, ast.stmt) and pred(st): return stmts, k
    return None, None


def read_split_centre(fn):
    """is the shrunk column's centre recomputed UNCONDITIONALLY after its node is deleted
    (`col.centre = col.centroid` in the block of the `del`, after it)?  -> gen_split_recentre"""
    isdel = lambda st: isinstance(st, ast.Delete) and any(ast.unparse(t).startswith('col.node') for t in st.targets)
    stmts, k = _block_with(fn, isdel)
    if stmts is None: raise Refusal('split_column: no `del col.node[...]`')
    after = [ast.unparse(st) for st in stmts[k + 1:]]
    for u in SPLIT_AFTER_DEL:
        if u not in after:
            raise Refusal('split_column: `%s` is no longer an unconditional statement after `del col.node[...]`' % u)
    if 'col.centre = col.centroid' in after:
        if after.index('col.centre = col.centroid') > after.index('self.add_column(col2)'):
            raise Refusal('split_column: the centre is recomputed only after the new column is added')
        return True
    assigns = [n for n in ast.walk(fn) if isinstance(n, ast.Assign) and ast.unparse(n.targets[0]) == 'col.centre']
    for n in ast.walk(fn):
        if isinstance(n, ast.AugAssign) and ast.unparse(n.target) == 'col.centre': raise Refusal('split_column: col.centre updated in place')
    if len(assigns) > 1 or any(ast.unparse(a.value) != 'col.centroid' for a in assigns):
        raise Refusal('split_column: unexpected assignment(s) to col.centre: %s' % [ast.unparse(a) for a in assigns])
    return False        # absent or conditional: the old quadrilateral's centre may survive


def read_split(fn):
    """split_column: the node list of the new column  [col.node[i[a]], col.node[i[b]], col.node[i[c]]]
    and the node deleted from the old one  del col.node[i[k]]  ->  (kept, new) local indices"""
    def local(e):
        if isinstance(e, ast.Subscript) and ast.unparse(e.value) == 'col.node' and isinstance(e.slice, ast.Subscript) \
                and ast.unparse(e.slice.value) == 'i' and isinstance(e.slice.slice, ast.Constant) \
                and isinstance(e.slice.slice.value, int) and not isinstance(e.slice.slice.value, bool) and 0 <= e.slice.slice.value < 4:
            return e.slice.slice.value
        raise Refusal('split_column %s: node expression %s' % (_where(e), ast.unparse(e)))
    new = None; deleted = []
    for n in ast.walk(fn):
        if isinstance(n, ast.Assign) and len(n.targets) == 1 and isinstance(n.targets[0], ast.Name) and n.targets[0].id == 'col2':
            if new is not None: raise Refusal('split_column: col2 assigned twice')
            v = n.value
            if not (isinstance(v, ast.Call) and ast.unparse(v.func) == 'column' and len(v.args) == 1 and ast.unparse(v.args[0]) == 'colname2'):
                raise Refusal('split_column %s: col2 = %s' % (_where(n), ast.unparse(v)))
            kw = {k.arg: k.value for k in v.keywords}
            if set(kw) != {'node', 'surface'} or ast.unparse(kw['surface']) != 'col.surface' or not isinstance(kw['node'], ast.List):
                raise Refusal('split_column %s: col2 = %s (expected node=[...], surface=col.surface)' % (_where(n), ast.unparse(v)))
            new = [local(x) for x in kw['node'].elts]
        if isinstance(n, ast.Delete):
            for t in n.targets:
                if ast.unparse(t).startswith('col.node'): deleted.append(local(t))
                elif ast.unparse(t) != 'self.column[colname]': raise Refusal('split_column %s: del %s' % (_where(n), ast.unparse(t)))
    if new is None or len(deleted) != 1: raise Refusal('split_column: new column %r, deleted nodes %r' % (new, deleted))
    kept = [k for k in range(4) if k != deleted[0]]
    if len(new) < 3: raise Refusal('split_column: new column has %d nodes' % len(new))
    return kept, new


# ---------------------------------------------------------------- emission
HEADER = '''(* GENERATED on every run from %s by tools/props/c11_translate.py -- do not edit *)
From Coq Require Import List Arith ZArith Reals Lra Lia.
From P Require Import Geom Comb.
Import ListNotations.
Open Scope nat_scope.
'''


def key_name(nn, key): return 'tc_%d_%d_%d' % (nn, key[0], key[1])
def dkey_name(nn, ns, d): return 'dc_%d_%d_%s' % (nn, ns, 'x' if d is None else d)


class Result:
    pass


def translate(repo_file):
    src = open(repo_file).read()
    tree = ast.parse(src, repo_file)
    cls = _find(tree.body, ast.ClassDef, 'mulgrid')
    refine = _find(cls.body, ast.FunctionDef, 'refine')
    tt_fn = _find(refine.body, ast.FunctionDef, 'transition_type') if any(
        isinstance(n, ast.FunctionDef) and n.name == 'transition_type' for n in refine.body) else None
    if tt_fn is None:
        # nested deeper (inside the `if all(...)` block)
        cands = [n for n in ast.walk(refine) if isinstance(n, ast.FunctionDef) and n.name == 'transition_type']
        if len(cands) != 1: raise Refusal('transition_type: %d definitions inside refine()' % len(cands))
        tt_fn = cands[0]
    r = Result()
    r.table = read_transition_column(refine)
    check_uses(refine, REFINE_USES, 'refine()')
    r.tt = TT(tt_fn)
    tt_text = r.tt.text()
    r.tt_py = exec_nested(tt_fn)
    dec = _find(cls.body, ast.FunctionDef, 'decompose_column')
    r.decomp = read_decompose(dec)
    sub = _find(cls.body, ast.FunctionDef, 'subdivide_column')
    check_uses(sub, SUBDIV_USES, 'subdivide_column()')
    tri = _find(cls.body, ast.FunctionDef, 'triangulate_column')
    r.fan = read_fan(tri)
    spl = _find(cls.body, ast.FunctionDef, 'split_column')
    check_uses(spl, SPLIT_USES, 'split_column()')
    r.split = read_split(spl)
    r.split_recentre = read_split_centre(spl)
    split_entry = [[('C', k) for k in r.split[0]], [('C', k) for k in r.split[1]]]

    hdr = HEADER % repo_file
    g = [hdr, 'Definition transition_column : ttable :=\n  [']
    rows = []
    for nn in r.table:
        ents = ';\n       '.join('((%d, %d), %s)' % (k[0], k[1], coq_entry(e)) for k, e in r.table[nn].items())
        rows.append('(%d, [%s])' % (nn, ents))
    g.append(';\n   '.join(rows) + '].\n\n')
    g.append('Definition decompose_table : dtable :=\n  [')
    g.append(';\n   '.join('((%d, %d, %s), %s, %s)' % (nn, ns, 'None' if d is None else 'Some %d' % d, rule, coq_entry(e))
                           for nn, ns, d, rule, e in r.decomp) + '].\n\n')
    g.append('Definition gen_fan_child (n i : nat) : child := [%s].\n\n' % '; '.join(r.fan))
    g.append('Definition gen_split_entry : entry := %s.\n' % coq_entry(split_entry))
    g.append('(* split_column: is `col.centre = col.centroid` executed unconditionally after the node is deleted? *)\n'
             'Definition gen_split_recentre : bool := %s.\n\n' % ('true' if r.split_recentre else 'false'))
    g.append('Open Scope Z_scope.\n' + tt_text)
    r.files = {'GenRefine': ''.join(g)}

    imp = hdr + 'From Gen Require Import GenRefine.\nOpen Scope R_scope.\n\n'
    a = [imp]; names = []
    for nn in r.table:
        for k, e in r.table[nn].items():
            nm = key_name(nn, k) + '_area'; names.append(nm)
            a.append('Lemma %s : entry_area_ok %d %s.\nProof. entry_area_tac. Qed.\n' % (nm, nn, coq_entry(e)))
    a.append('\nLemma transition_table_area_gen : table_area_ok transition_column.\nProof.\n'
             '  intros nn ents key e H1 H2. unfold transition_column in H1. split_ins; split_ins.\n'
             '  all: first [%s].\nQed.\n' % ' | '.join('exact %s' % n for n in names))
    a.append('\nLemma split_area_gen : entry_area_ok 4 gen_split_entry.\nProof. entry_area_tac. Qed.\n')
    r.files['GenArea'] = ''.join(a)

    p = [imp]; pn = []
    for nn in r.table:
        for k, e in r.table[nn].items():
            nm = key_name(nn, k) + '_pos'; pn.append(nm)
            p.append('Lemma %s : entry_pos_ok %d %s.\nProof. entry_pos_tac. Qed.\n' % (nm, nn, coq_entry(e)))
    p.append('\nLemma transition_table_pos_gen : table_pos_ok transition_column.\nProof.\n'
             '  intros nn ents key e H1 H2. unfold transition_column in H1. split_ins; split_ins.\n'
             '  all: first [%s].\nQed.\n' % ' | '.join('exact %s' % n for n in pn))
    r.files['GenPos'] = ''.join(p)

    gimp = hdr + 'From P Require Import Cross.\nFrom Gen Require Import GenRefine.\nOpen Scope R_scope.\n\n'
    gd = [gimp]; gn = []
    for nn in r.table:
        for k, e in r.table[nn].items():
            nm = key_name(nn, k) + '_good'; gn.append(nm)
            gd.append('Lemma %s : entry_good_ok %d %s.\nProof. entry_good_tac. Qed.\n' % (nm, nn, coq_entry(e)))
    gd.append('\nLemma transition_table_good_gen : table_good_ok transition_column.\nProof.\n'
              '  intros nn ents key e H1 H2. unfold transition_column in H1. split_ins; split_ins.\n'
              '  all: first [%s].\nQed.\n' % ' | '.join('exact %s' % n for n in gn))
    gd.append('\nLemma split_good_gen : forall cs c istart, length cs = 4%nat -> (istart < 4)%nat -> convex_ccw cs ->\n'
              '  children_good cs c istart gen_split_entry.\nProof. split_good_tac. Qed.\n')
    r.files['GenGood'] = ''.join(gd)

    d = [imp]; dn = []
    for nn, ns, dd, rule, e in r.decomp:
        nm = dkey_name(nn, ns, dd) + '_area'; dn.append(nm)
        d.append('Lemma %s : entry_area_ok %d %s.\nProof. entry_area_tac. Qed.\n' % (nm, nn, coq_entry(e)))
    d.append('\nLemma decompose_table_area_gen : dtable_area_ok decompose_table.\nProof.\n'
             '  intros nn ns d rule e H1. unfold decompose_table in H1. split_ins.\n'
             '  all: first [%s].\nQed.\n' % ' | '.join('exact %s' % n for n in dn))
    # entries all of whose children contain the centre node: simple polygons for ANY position of the straight nodes
    d.insert(1, 'From P Require Import Cross.\n')
    sn = []
    for nn, ns, dd, rule, e in r.decomp:
        if all(any(v == ('c',) for v in ch) for ch in e):
            nm = dkey_name(nn, ns, dd) + '_simple'; sn.append(nm)
            d.append('Lemma %s : entry_simple_ok %d %s.\nProof. entry_simple_tac. Qed.\n' % (nm, nn, coq_entry(e)))
    d.append('\nLemma decompose_table_simple_gen : forall nn ns d rule e, In ((nn, ns, d), rule, e) decompose_table ->\n'
             '  all_centre e = true -> entry_simple_ok nn e.\nProof.\n'
             '  intros nn ns d rule e H1 Hc. unfold decompose_table in H1. split_ins.\n'
             '  all: first [discriminate Hc%s].\nQed.\n' % ''.join(' | exact %s' % n for n in sn))
    r.files['GenDecomp'] = ''.join(d)
    r.lemma_to_entry = {}
    for nn in r.table:
        for k in r.table[nn]:
            r.lemma_to_entry[key_name(nn, k)] = ('transition', nn, k)
    for nn, ns, dd, rule, e in r.decomp:
        r.lemma_to_entry[dkey_name(nn, ns, dd)] = ('decompose', nn, (ns, dd))
    r.lemma_to_entry['split_'] = ('split', 4, None)
    return r


if __name__ == '__main__':
    import sys
    r = translate(sys.argv[1] if len(sys.argv) > 1 else '/repo/mulgrids.py')
    for k, v in r.files.items():
        print('(* ==== %s ==== *)' % k); print(v)
