"""C20 -- flavour conversion and Waiwera export keep the model, drop only what they say.

tie:  T  tools/props/c20_tables.py regenerates Gen/GenConvert.v from t2data.py (ast only) on every run:
         generator type tables, the MOP rewriting statement lists as programs of coq/C20/Lang.v, the LINEQ <-> MOP(21)
         constants, section / key literals, the EOS dictionaries of eos_json, the generator tables of generators_json;
         the hand-modelled methods are compared statement by statement (as ASTs) with the text the model follows.
      H  coq/C20/Convert.v + WaiweraJson.v extracted (Drv.v) and run against the real convert_to_TOUGH2 /
         convert_to_AUTOUGH2 / type setter / update_sections / json() on generated models (whole abstract object compared).
oracle: the property statement evaluated on the implementation alone (Python below), including write() + read()
      of the converted model.
"""
import os, sys, json, time, random, tempfile, shutil, traceback, multiprocessing
from collections import Counter
import vf
from props import c20_tables, c20_models as M

NSHARD = max(1, min(8, vf.NPROC))
T2_TYPES = {'HEAT', 'WATE', 'AIR ', 'MASS', 'DELV'}            # + anything starting with COM (TOUGH2 user guide, GENER)
CONVERTS = {'CO2 ': 'COM2'}
EOS_MAP = {'W': 'w', 'EW': 'we', 'EWC': 'wce', 'EWAV': 'wae', 'EWT': 'we', 'EWTD': 'we'}
GEN_FIELDS = ('block', 'name', 'nseq', 'nadd', 'nads', 'ltab', 'itab', 'gx', 'ex', 'hg', 'fg')


def t2_has(t):
    return t in T2_TYPES or t.startswith('COM')


# ---------------------------------------------------------------------------------------------- snapshots
def grid_sig(dat):
    g = dat.grid
    return ([(b.name, float(b.volume), b.rocktype.name, None if b.centre is None else tuple(float(x) for x in b.centre)) for b in g.blocklist],
            [(c.block[0].name, c.block[1].name, c.direction, tuple(float(x) for x in c.distance), float(c.area), c.dircos) for c in g.connectionlist],
            sorted(g.block.keys()), sorted(g.connection.keys()))


def rock_sig(rt):
    return (rt.name, rt.nad, rt.density, rt.porosity, tuple(float(x) for x in rt.permeability), rt.specific_heat, rt.compressibility,
            rt.expansivity, rt.dry_conductivity, rt.tortuosity, repr(sorted(rt.relative_permeability.items(), key=str)),
            repr(sorted(rt.capillarity.items(), key=str)))


def gen_sig(g):
    return tuple(getattr(g, k) for k in GEN_FIELDS) + (tuple(g.time), tuple(g.rate), tuple(g.enthalpy))


def item_name(x):
    return x if isinstance(x, str) else x.name


def con_name(x):
    return tuple(x) if isinstance(x, tuple) else tuple(b.name for b in x.block)


def file_sections(path):
    out = []
    for line in open(path):
        k = line[:5].rstrip()
        if k in M.SECTIONS or k in ('ENDCY', 'ENDFI'): out.append(k)
    return out


def close(a, b, tol=2e-4):
    if a is None or b is None: return a is None and b is None or (a in (None, 0, 0.0) and b in (None, 0, 0.0))
    return abs(a - b) <= tol * max(abs(a), abs(b), 1e-300) or a == b


# ---------------------------------------------------------------------------------------------- conversion case (worker side)
def run_op(dat, op):
    with M.quiet():
        if op['kind'] == 't2': dat.convert_to_TOUGH2(warn=True, MP=op['MP'])
        elif op['kind'] == 'au': dat.convert_to_AUTOUGH2(warn=True, MP=op['MP'], simulator=op['simulator'], eos=op['eos'])
        else: dat.type = op['value']


def op_wire(op):
    hx = M.hx
    if op['kind'] == 't2': return ['t2', '1' if op['MP'] else '0', hx(''), hx('')]
    if op['kind'] == 'au': return ['au', '1' if op['MP'] else '0', hx(op['simulator']), hx(op['eos'])]
    return ['st', '0', hx(op['value']), hx('')]


def direction(spec, type_before):
    op = spec['op']
    if op['kind'] == 't2': return 'to_tough2'
    if op['kind'] == 'au': return 'to_autough2'
    if op['value'] not in ('TOUGH2', 'AUTOUGH2'): return 'reject'
    if op['value'] == type_before: return 'same'
    return 'to_tough2' if op['value'] == 'TOUGH2' else 'to_autough2'


def conv_case(spec, tmpdir):
    """-> dict(lines=[(corr name, case line, impl line)], fails=[(key, observed, required)], info=Counter keys)"""
    res = {'lines': [], 'fails': [], 'info': []}
    dat, geo = M.build_conv(spec, tmpdir)
    conv_step(dat, spec, tmpdir, res)
    return res


def seq_case(spec, tmpdir):
    """several conversions, one after the other, on ONE object (each followed by write + read back): every clause is
    evaluated again on an object that reached its state through earlier conversions and writes"""
    res = {'lines': [], 'fails': [], 'info': []}
    dat, geo = M.build_conv(spec, tmpdir)
    for k, op in enumerate(spec['ops']):
        ok = conv_step(dat, dict(spec, op=op, prep=spec['prep'] if k == 0 else 'used'), tmpdir, res)
        res['info'].append('seq-step:%d' % k)
        if not ok: break
    return res


MUTABLE_ATTRS = ('lineq', 'multi', 'solver', 'short_output', 'history_block', 'history_connection', 'history_generator', 'generatorlist',
                 'generator', 'parameter', '_sections', 'incon', 'indom', 'selection', 'output_times', 'meshmaker')


def raw_state(dat):
    """the containers conversions write to, by value"""
    so = dat.short_output
    return repr((dat.simulator, dat.filename, list(dat._sections), sorted(dat.multi.items(), key=str), sorted(dat.lineq.items(), key=str),
                 sorted(dat.solver.items(), key=str), [int(x) for x in dat.parameter['option']],
                 [(k, [id(x) if not isinstance(x, (str, tuple)) else x for x in v] if isinstance(v, list) else v) for k, v in sorted(so.items())],
                 [item_name(x) for x in dat.history_block], [con_name(x) for x in dat.history_connection], [item_name(x) for x in dat.history_generator],
                 [(g.block, g.name, g.type) for g in dat.generatorlist], sorted(dat.generator),
                 [(rt.name, rt.conductivity) for rt in dat.grid.rocktypelist]))


def shared_state(models):
    """mutable containers (or their list members) that two distinct live models hold in common"""
    out = []
    for i in range(len(models)):
        for j in range(i + 1, len(models)):
            x, y = models[i][1], models[j][1]
            for a in MUTABLE_ATTRS:
                u, v = getattr(x, a, None), getattr(y, a, None)
                if u is v and isinstance(u, (dict, list)): out.append('%s.%s is %s.%s' % (models[i][0], a, models[j][0], a))
            if x.parameter['option'] is y.parameter['option']: out.append("%s.parameter['option'] is %s's" % (models[i][0], models[j][0]))
            for k in ('block', 'connection', 'generator'):
                u, v = x.short_output.get(k), y.short_output.get(k)
                if u is v and isinstance(u, list): out.append('%s.short_output[%r] is %s\'s' % (models[i][0], k, models[j][0]))
            if {id(r) for r in x.grid.rocktypelist} & {id(r) for r in y.grid.rocktypelist}: out.append('%s and %s share a rock type object' % (models[i][0], models[j][0]))
            if {id(g) for g in x.generatorlist} & {id(g) for g in y.generatorlist}: out.append('%s and %s share a generator object' % (models[i][0], models[j][0]))
    return out


def pair_case(spec, tmpdir):
    """two models in one process: B0 (a twin of B) is converted first, then A, then A's containers are edited, then B.
    Converting a model must not change another model, must not depend on what was converted (or edited) before, and
    distinct models must not end up sharing mutable state."""
    res = {'lines': [], 'fails': [], 'info': []}
    fail = lambda key, obs, req: res['fails'].append((key, obs, req))
    sa, sb = spec['a'], spec['b']
    mods = {}
    try:
        b0, _ = M.build_conv(sb, tmpdir); ab0 = M.Abstractor(b0); ab0.fields(b0)
        a, _ = M.build_conv(sa, tmpdir); aa = M.Abstractor(a); aa.fields(a)
        b, _ = M.build_conv(sb, tmpdir); abb = M.Abstractor(b); abb.fields(b)
    except ValueError as e:
        res['info'].append('skipped:' + str(e)[:40]); return res
    def convert(dat, op):
        try: run_op(dat, op); return None
        except Exception as e: return type(e).__name__
    r0 = convert(b0, sb['op'])
    f0, s0 = (ab0.fields(b0), raw_state(b0)) if r0 is None else (None, None)
    ra = convert(a, sa['op'])
    if ra is None:                                   # the caller goes on editing the converted model A
        for d in (a.lineq, a.multi, a.solver):
            if d: d[next(iter(d))] = 7
        if 'frequency' in a.short_output or a.short_output: a.short_output['frequency'] = 9
        a.parameter['option'][21] = 3
    fa, sa_state = (aa.fields(a), raw_state(a)) if ra is None else (None, None)
    rb = convert(b, sb['op'])
    res['info'] += ['pair:%s-then-%s' % (sa['op']['kind'], sb['op']['kind']), 'pair-raised:%s/%s/%s' % (r0, ra, rb)]
    if r0 != rb: fail('conversion:result-depends-on-earlier-calls', 'twin models: first conversion %s, later conversion %s' % (r0 or 'completed', rb or 'completed'), 'the same outcome')
    if r0 is None and rb is None:
        fb = abb.fields(b)
        if fb != f0:
            fail('conversion:result-depends-on-earlier-calls', M.explain('\t'.join(['OK'] + f0), '\t'.join(['OK'] + fb))[:600],
                 'a model converted after other models were converted and edited equals its twin converted before them')
        if raw_state(b0) != s0 or ab0.fields(b0) != f0:
            fail('conversion:changes-another-model', 'the twin converted first differs after the later conversions: %s' % M.explain('\t'.join(['OK'] + f0), '\t'.join(['OK'] + ab0.fields(b0)))[:500],
                 'converting a model leaves every other model as it was')
    if ra is None and (raw_state(a) != sa_state or aa.fields(a) != fa):
        fail('conversion:changes-another-model', 'model A differs after model B was converted: %s' % M.explain('\t'.join(['OK'] + fa), '\t'.join(['OK'] + aa.fields(a)))[:500],
             'converting a model leaves every other model as it was')
    sh = shared_state([('B0', b0), ('A', a), ('B', b)])
    if sh: fail('conversion:shared-mutable-state', '; '.join(sh[:6]), 'converted models do not share mutable containers')
    return res


def conv_step(dat, spec, tmpdir, res):
    """one conversion of [dat] (spec['op']) with every clause of the statement and the file round trip; False when the
    object cannot be used further"""
    import t2data as T, t2grids as G
    fail = lambda key, obs, req: res['fails'].append((key, obs, req))
    try:
        ab = M.Abstractor(dat)
        before = ab.fields(dat)
    except ValueError as e:
        res['info'].append('skipped:' + str(e)[:40]); return False
    op = spec['op']
    # hypothesis of the section-order theorems: the keywords up to SHORT are in reference order in the section list
    rank = {k: i for i, k in enumerate(M.SECTIONS)}
    low = [rank[k] for k in dat._sections if k in rank and rank[k] <= rank['SHORT']]
    res['info'].append('sections-sorted-upto-SHORT:%s' % (low == sorted(set(low))))
    type_before = dat.type
    dirn = direction(spec, type_before)
    res['info'] += ['dir:' + dirn, 'prep:' + spec['prep'], 'op:' + op['kind']]
    site = {'t2': 'convert_to_TOUGH2', 'au': 'convert_to_AUTOUGH2', 'st': 'type-setter'}[op['kind']]
    # ---- snapshot for the oracle
    gsig = grid_sig(dat)
    rocks0 = [(rt, rt.conductivity, rock_sig(rt)) for rt in dat.grid.rocktypelist]
    gens0 = list(dat.generatorlist)
    gsig0 = {id(g): gen_sig(g) for g in gens0}
    gtype0 = {id(g): g.type for g in gens0}
    dict0 = dict(dat.generator)
    opts0 = [int(x) for x in dat.parameter['option']]
    so0 = {k: (list(v) if isinstance(v, list) else v) for k, v in dat.short_output.items()}
    hist0 = (list(dat.history_block), list(dat.history_connection), list(dat.history_generator))
    multi0, lineq0, solver0, sim0 = dict(dat.multi), dict(dat.lineq), dict(dat.solver), dat.simulator
    # ---- the operation
    try:
        run_op(dat, op); raised = None
    except Exception as e:
        raised = e
    case = '\t'.join(op_wire(op) + before)
    if raised is not None:
        res['lines'].append(('convert', case, 'RAISE ' + M.exn_name(raised)))
        if dirn != 'reject':
            fail('%s:raises-%s' % (site, type(raised).__name__), '%s: %s' % (type(raised).__name__, str(raised)[:200]),
                 'the conversion completes for every MOP digit / section combination')
        res['info'].append('raised:' + type(raised).__name__)
        return False
    if dirn == 'reject':
        fail('type-setter:accepts-unknown-type', 'no exception for type %r' % op['value'], 'an unsupported type name is refused')
    try:
        after = ab.fields(dat)
    except ValueError as e:
        fail('%s:object-outside-abstraction' % site, str(e)[:200], 'lists hold blocks / connections / generators / names only'); return False
    res['lines'].append(('convert', case, 'OK\t' + '\t'.join(after)))
    blocks = dat.grid.block
    # ---- the statement, on the implementation
    if grid_sig(dat) != gsig: fail(site + ':grid-changed', 'grid differs after the conversion', 'grid unchanged')
    if dirn == 'same':
        if after != before: fail('type-setter:same-type-changes-model', M.explain('\t'.join(['OK'] + before), '\t'.join(['OK'] + after)), 'no change')
        return True
    gl = dat.generatorlist
    if dirn == 'to_tough2':
        if dat.type != 'TOUGH2' or dat.simulator: fail(site + ':still-declares-AUTOUGH2', 'type %s simulator %r' % (dat.type, dat.simulator), 'type TOUGH2')
        if dat.lineq: fail(site + ':lineq-left', repr(dat.lineq), 'no linear solver section data')
        if dat.short_output: fail(site + ':short-output-left', repr(list(dat.short_output)), 'no short output')
        if 'eos' in dat.multi: fail(site + ':eos-name-left', repr(dat.multi.get('eos')), 'no EOS name in MULTI')
        bad = [(g.block, g.name, g.type) for g in gl if not t2_has(g.type)]
        if bad: fail(site + ':unsupported-generator-in-list', repr(bad[:4]), 'no generator of a type TOUGH2 lacks in generatorlist')
        bad = [(k, g.type) for k, g in dat.generator.items() if not t2_has(g.type)]
        if bad: fail(site + ':unsupported-generator-in-lookup', repr(bad[:4]), 'no generator of a type TOUGH2 lacks in the generator lookup')
        keep = [g for g in gens0 if t2_has(gtype0[id(g)]) or gtype0[id(g)] in CONVERTS]
        if [id(g) for g in gl] != [id(g) for g in keep]:
            fail(site + ':remaining-generators-differ', 'list %r' % [(g.block, g.name, g.type) for g in gl],
                 'the generators of supported / convertible types, same objects, same order: %r' % [(g.block, g.name, gtype0[id(g)]) for g in keep])
        else:
            for g in gl:
                want = CONVERTS.get(gtype0[id(g)], gtype0[id(g)])
                if g.type != want: fail(site + ':generator-type', '%r -> %r' % (gtype0[id(g)], g.type), 'type %r' % want)
                if gen_sig(g) != gsig0[id(g)]: fail(site + ':generator-data-changed', repr(gen_sig(g))[:200], repr(gsig0[id(g)])[:200])
            want = {}
            for g in gl: want[(g.block, g.name)] = id(g)
            if {k: id(v) for k, v in dat.generator.items()} != want:
                fail(site + ':lookup-not-over-list', repr(sorted(dat.generator))[:200], 'lookup = {(block, name): last such generator of the list}')
        # rocks: only the documented conductivity rescaling
        trig = opts0[10] == 2 or opts0[23] > 0
        for rt, c0, sig0 in rocks0:
            ks = [k for k in range(3) if close(rt.conductivity, c0 * (1. - rt.porosity) ** k, 1e-12)]
            if rock_sig(rt) != sig0 or not ks: fail(site + ':rocktype-changed', '%s conductivity %r -> %r' % (rt.name, c0, rt.conductivity), 'only conductivity *= (1 - porosity)')
            elif 0 not in ks and not trig: fail(site + ':conductivity-rescaled-unasked', '%s %r -> %r with MOP(10)=%d MOP(23)=%d' % (rt.name, c0, rt.conductivity, opts0[10], opts0[23]), 'unchanged')
            elif opts0[10] == 2 and rt.porosity and 0 in ks and len(ks) == 1:
                fail(site + ':mulkom-conductivity-not-rescaled', '%s %r' % (rt.name, rt.conductivity), 'MOP(10)=2: conductivity *= (1 - porosity)')
        # the documented MULKOM compatibility rescaling: MOP(23) = 1 on an AUTOUGH2 (not 2.x) or MULKOM model
        mulkom = opts0[23] == 1 and ((sim0.startswith('AUTOUGH2') and not sim0.startswith('AUTOUGH2.2')) or sim0.startswith('MULKOM'))
        if mulkom and opts0[10] != 2 and any(rt.porosity and rt.conductivity == c0 for rt, c0, _ in rocks0):
            fail('to_tough2:mulkom-compat-conductivity-not-rescaled', 'simulator %r MOP(23)=1: conductivities unchanged %r' % (sim0, [rt.conductivity for rt, _, _ in rocks0]),
                 'the documented rescaling conductivity *= (1 - porosity) (convert_AUTOUGH2_parameters_to_TOUGH2 applies it when called on the same model)')
        if mulkom: res['info'].append('mulkom-compat')
        if [id(rt) for rt in dat.grid.rocktypelist] != [id(r[0]) for r in rocks0]: fail(site + ':rocktype-list-changed', '', 'same rock types')
        # history requests
        hb = so0['block'] if 'block' in so0 else hist0[0]
        hc = so0['connection'] if 'connection' in so0 else hist0[1]
        if [id(x) if not isinstance(x, str) else x for x in dat.history_block] != [id(x) if not isinstance(x, str) else x for x in hb]:
            fail(site + ':history-blocks', repr([item_name(x) for x in dat.history_block]), repr([item_name(x) for x in hb]))
        if [con_name(x) for x in dat.history_connection] != [con_name(x) for x in hc]:
            fail(site + ':history-connections', repr([con_name(x) for x in dat.history_connection]), repr([con_name(x) for x in hc]))
        if 'generator' in so0:
            kept = {id(g) for g in keep}
            want, seen = [], set()
            for g in so0['generator']:
                if id(g) in kept and g.block not in seen: seen.add(g.block); want.append(g.block)
            got = [item_name(x) for x in dat.history_generator]
            wrongkind = [x for x in dat.history_generator if not isinstance(x, (str, G.t2block))]
            if got != want or wrongkind:
                fail(site + ':history-generators', '%r%s' % (got, ' (items that are neither blocks nor names)' if wrongkind else ''),
                     'GOFT lists the blocks of the requested remaining generators, each once: %r' % want)
            elif any(isinstance(x, str) and x in blocks for x in dat.history_generator):
                fail(site + ':history-generators', 'bare name of a grid block', 'block objects for grid blocks')
        elif [item_name(x) for x in dat.history_generator] != [item_name(x) for x in hist0[2]]:
            fail(site + ':history-generators', repr([item_name(x) for x in dat.history_generator]), 'unchanged')
        if dict(dat.solver) != solver0: fail(site + ':solver-changed', repr(dat.solver), repr(solver0))
    else:
        simstr = (op['simulator'].ljust(10) + op['eos']) if op['kind'] == 'au' else None
        if dat.type != 'AUTOUGH2' or not dat.simulator: fail(site + ':still-declares-TOUGH2', 'type %s' % dat.type, 'type AUTOUGH2')
        if simstr is not None and dat.simulator != simstr: fail(site + ':simulator-string', repr(dat.simulator), repr(simstr))
        if dat.solver: fail(site + ':solver-left', repr(dat.solver), 'no SOLVR data')
        if dat.history_block or dat.history_connection or dat.history_generator: fail(site + ':history-left', 'history lists not empty', 'no FOFT/COFT/GOFT')
        if not dat.lineq or dat.lineq.get('type') not in (1, 2): fail(site + ':lineq-type', repr(dat.lineq), "a LINEQ section with an AUTOUGH2 solver type")
        if multi0 and op['kind'] == 'au' and dat.multi.get('eos') != op['eos']: fail(site + ':multi-eos', repr(dat.multi.get('eos')), repr(op['eos']))
        if not multi0 and dat.multi: fail(site + ':multi-created', repr(dat.multi), 'no MULTI data')
        if [id(g) for g in gl] != [id(g) for g in gens0] or any(gen_sig(g) != gsig0[id(g)] or g.type != gtype0[id(g)] for g in gl):
            fail(site + ':generators-changed', repr([(g.block, g.name, g.type) for g in gl])[:300], 'generators unchanged')
        if {k: id(v) for k, v in dat.generator.items()} != {k: id(v) for k, v in dict0.items()}: fail(site + ':lookup-changed', '', 'generator lookup unchanged')
        for rt, c0, sig0 in rocks0:
            if rt.conductivity != c0 or rock_sig(rt) != sig0: fail(site + ':rocktype-changed', '%s %r -> %r' % (rt.name, c0, rt.conductivity), 'rock types unchanged')
        so = dat.short_output
        extra = set(so) - {'block', 'connection', 'generator', 'frequency'}
        if extra: fail(site + ':short-output-keys', repr(extra), 'block / connection / generator')
        wantb = [blocks[item_name(x)] for x in hist0[0] if item_name(x) in blocks]
        if [id(x) for x in so.get('block', [])] != [id(x) for x in wantb]:
            fail(site + ':short-blocks', repr([getattr(x, 'name', x) for x in so.get('block', [])]), 'the history blocks that are in the grid, as block objects: %r' % [b.name for b in wantb])
        cons = dat.grid.connection
        must = [con_name(x) for x in hist0[1] if con_name(x) in cons]
        may = [con_name(x) for x in hist0[1] if con_name(x) in cons or con_name(x)[::-1] in cons]
        got = [con_name(x) if isinstance(x, G.t2connection) else ('?', repr(x)) for x in so.get('connection', [])]
        if [c for c in got if c in must] != must or any(c not in may and c[::-1] not in may for c in got):
            fail(site + ':short-connections', repr(got), 'the history connections that are in the grid: %r' % must)
        names = [item_name(x) for x in hist0[2]]
        wantg = [g for g in gl if g.block in names]
        if [id(x) for x in so.get('generator', [])] != [id(x) for x in wantg]:
            fail(site + ':short-generators', repr([(getattr(x, 'block', x), getattr(x, 'name', '')) for x in so.get('generator', [])]),
                 'the generators in the GOFT blocks: %r' % [(g.block, g.name) for g in wantg])
    # ---- file round trip of the converted model
    path = os.path.join(tmpdir, 'conv.dat')
    for f in os.listdir(tmpdir):
        if f.startswith('conv.'): os.remove(os.path.join(tmpdir, f))
    after_ws = None
    try:
        with M.quiet(): dat.write(path)
        after_ws = ','.join(M.hx(s) for s in dat._sections)
        secs = file_sections(path)
        with M.quiet(): d2 = T.t2data(path)
    except Exception as e:
        fail(site + ':roundtrip-raises-' + type(e).__name__, '%s: %s' % (type(e).__name__, str(e)[:200]), 'the converted model can be written and read back')
        res['info'].append('roundtrip-raised'); return False
    res['lines'].append(('written-sections', '\t'.join(['ws', '0', M.hx(''), M.hx('')] + after), after_ws))
    banned = ['SIMUL', 'LINEQ', 'SHORT'] if dirn == 'to_tough2' else ['SOLVR', 'FOFT', 'COFT', 'GOFT']
    left = [k for k in banned if k in secs]
    if left: fail(site + ':section-written', repr(left), 'no %s section in the written file' % '/'.join(banned))
    if dirn == 'to_autough2' and ('SIMUL' not in secs or 'LINEQ' not in secs): fail(site + ':section-missing', repr(secs), 'SIMUL and LINEQ sections written')
    # (the reader strips the SIMUL line: a simulator string that is blank, as after convert_to_AUTOUGH2(simulator='', eos=''),
    #  is a caller error outside the statement; leading blanks are a matter of the file format, property C01)
    if d2.type != dat.type and (dat.simulator.strip() or not dat.simulator): fail(site + ':roundtrip-type', d2.type, dat.type)
    if d2.simulator.strip() != dat.simulator.strip(): fail(site + ':roundtrip-simulator', repr(d2.simulator), repr(dat.simulator))
    if [(b.name, b.rocktype.name) for b in d2.grid.blocklist] != [(b.name, b.rocktype.name) for b in dat.grid.blocklist] or \
            sorted(d2.grid.connection) != sorted(dat.grid.connection):
        fail(site + ':roundtrip-grid', 'grid differs after write + read', 'same blocks, rock assignment, connections')
    # (types shorter than the 4-character field come back right-justified: file format, not conversion)
    a = [(g.block, g.name, g.type.strip()) for g in d2.generatorlist]
    b = [(g.block, g.name, g.type.strip()) for g in dat.generatorlist]
    if a != b: fail(site + ':roundtrip-generators', repr(a)[:300], repr(b)[:300])
    elif any(not (close(x.gx, y.gx) and close(x.ex, y.ex) and close(x.hg, y.hg)) for x, y in zip(d2.generatorlist, dat.generatorlist)):
        fail(site + ':roundtrip-generator-values', '', 'rates / enthalpies re-read')
    if [int(x) for x in d2.parameter['option']][1:] != [int(x) for x in dat.parameter['option']][1:]:
        fail(site + ':roundtrip-options', repr(list(d2.parameter['option'])), repr(list(dat.parameter['option'])))
    for r2, r1 in zip(d2.grid.rocktypelist, dat.grid.rocktypelist):
        if r2.name != r1.name or not close(r2.conductivity, r1.conductivity): fail(site + ':roundtrip-rocks', '%s %r' % (r2.name, r2.conductivity), '%s %r' % (r1.name, r1.conductivity))
    ingrid = lambda l: [item_name(x) for x in l if item_name(x) in blocks]
    for attr in ('history_block', 'history_generator'):
        if ingrid(getattr(d2, attr)) != ingrid(getattr(dat, attr)):
            fail(site + ':roundtrip-' + attr, repr(ingrid(getattr(d2, attr))), repr(ingrid(getattr(dat, attr))))
    cg = lambda l: [con_name(x) for x in l if con_name(x) in dat.grid.connection]
    if cg(d2.history_connection) != cg(dat.history_connection): fail(site + ':roundtrip-history_connection', repr(cg(d2.history_connection)), repr(cg(dat.history_connection)))
    s1, s2 = dat.short_output, d2.short_output
    if [x.name for x in s2.get('block', [])] != [x.name for x in s1.get('block', [])] or \
            [con_name(x) for x in s2.get('connection', [])] != [con_name(x) for x in s1.get('connection', [])]:
        fail(site + ':roundtrip-short-output', repr(s2)[:200], repr(s1)[:200])
    g1 = [(g.block, g.name) for g in s1.get('generator', [])]
    g2 = [(g.block, g.name) for g in s2.get('generator', [])]
    if g1 != g2 and len(set(g1)) == len(g1) and all(k in dat.generator for k in g1):
        fail(site + ':roundtrip-short-generators', repr(g2), repr(g1))
    if (d2.lineq.get('type') if d2.lineq else None) != (dat.lineq.get('type') if dat.lineq else None): fail(site + ':roundtrip-lineq', repr(d2.lineq), repr(dat.lineq))
    if ('eos' in d2.multi and d2.multi['eos'] or None) != ('eos' in dat.multi and dat.multi['eos'] or None) and dat.multi.get('eos', '').strip() != (d2.multi.get('eos') or '').strip():
        fail(site + ':roundtrip-multi-eos', repr(d2.multi.get('eos')), repr(dat.multi.get('eos')))
    return True


# ---------------------------------------------------------------------------------------------- export case (worker side)
def expected_eos(spec, dat):
    """the AUTOUGH2 EOS name the statement expects to be recognised ('' when none), and the route"""
    e = spec['eos_arg']
    if e is not None:
        if isinstance(e, int): return None, 'index'
        return e, 'explicit'
    m = dat.multi.get('eos') if dat.multi else None
    if isinstance(m, str) and m.strip(): return m.strip(), 'multi'
    s = dat.simulator.strip()
    hits = [k for k in EOS_MAP if s.endswith(k)]
    if hits: return max(hits, key=len), 'simulator'
    return '', 'none'


def export_case(spec):
    res = {'lines': [], 'fails': [], 'info': []}
    fail = lambda key, obs, req: res['fails'].append((key, obs, req))
    dat, geo, kw = M.build_export(spec)
    try:
        ab = M.Abstractor(dat)
        base = ab.fields(dat) + M.export_fields(dat, geo, spec)
    except ValueError as e:
        res['info'].append('skipped:' + str(e)[:40]); return res
    out = M.run_export(dat, geo, kw)
    res['lines'].append(('export', '\t'.join(['exp', '0', M.hx(''), M.hx('')] + base),
                         {'eos': out['eos'], 'rocks': out['rocks'], 'srcs': out['srcs'], 'init': out['init'], 'bdy': out['bdy']}))
    if 'src_ctx' in out:
        res['lines'].append(('export-source-values', '\t'.join(['src', '0', M.hx(''), M.hx('')] + base + M.source_fields(ab, out['src_ctx'])), {'src_full': out['src_full']}))
    res['lines'].append(('block-order', '\t'.join(M.geom_wire(geo)), 'OK\t' + ','.join(M.hx(n) for n in geo.block_name_list)))
    res['info'] += ['route:' + spec['route'], 'json:' + ('ok' if out['full'] else 'raised'), 'atm:%d' % spec['geo']['atmos_type'],
                    'order:%s' % spec['geo']['block_order']]
    # ---- mesh file name, rock type properties copied, cell lists in geometry order
    if out['full']:
        j = out['json']
        if j['mesh'].get('filename') != 'mesh.exo': fail('mesh_json:filename', repr(j['mesh'].get('filename')), "'mesh.exo'")
        for rt, e in zip(dat.grid.rocktypelist, j['rock']['types']):
            dry = rt.dry_conductivity if (rt.dry_conductivity is not None and rt.dry_conductivity > 0.0) else rt.conductivity
            want = {'name': rt.name, 'density': rt.density, 'porosity': rt.porosity, 'permeability': list(rt.permeability[:3]),
                    'wet_conductivity': rt.conductivity, 'specific_heat': rt.specific_heat, 'dry_conductivity': dry}
            got = {k: (list(e[k]) if k == 'permeability' else e[k]) for k in want if k in e}
            if got != want: fail('rocks_json:rock-properties', repr(got)[:300], repr(want)[:300]); break
            if any(a >= b for a, b in zip(e['cells'], e['cells'][1:])): fail('rocks_json:cells-not-increasing', repr(e['cells'][:20]), 'cell indices in geometry order, each once'); break
        if len(j['rock']['types']) != len(dat.grid.rocktypelist): fail('rocks_json:rock-properties', '%d entries' % len(j['rock']['types']), 'one entry per rock type, in order')
    # ---- the export does not depend on earlier calls and hands out nothing it keeps: wreck the first result, call again
    if out['full']:
        import copy
        canon = lambda j: json.dumps(j, sort_keys=True, default=lambda v: v.tolist() if hasattr(v, 'tolist') else str(v))
        first = canon(out['json'])
        state0 = raw_state(dat)
        def wreck(v):
            if isinstance(v, dict):
                for x in list(v.values()): wreck(x)
                v.clear()
            elif isinstance(v, list):
                for x in v: wreck(x)
                del v[:]
        wreck(out['json'])
        try:
            with M.quiet(): again = canon(dat.json(geo, 'mesh.exo', **kw))
        except Exception as e: again = 'RAISE %s: %s' % (type(e).__name__, str(e)[:100])
        if again != first:
            k = next((i for i in range(min(len(first), len(again))) if first[i] != again[i]), 0)
            fail('json:result-depends-on-earlier-calls', 'second call differs near ...%s' % again[max(0, k - 60):k + 60], 'the same export: ...%s' % first[max(0, k - 60):k + 60])
        if raw_state(dat) != state0: fail('json:changes-the-model', 'the model differs after json()', 'the export leaves the model as it was')
        res['info'].append('json-twice')
    # ---- source values: every numeric leaf of a source is one of its own generator's values (or a constant of the export)
    if isinstance(out.get('src_full'), list):
        from fractions import Fraction
        gens = [g for g in dat.generatorlist if g.type != 'TMAK']
        consts = {Fraction(550000), Fraction(1450000)}
        def leaves(v):
            if isinstance(v, dict):
                for x in v.values(): yield from leaves(x)
            elif isinstance(v, list):
                for x in v: yield from leaves(x)
            elif isinstance(v, Fraction): yield v
        for src, g in zip(out['src_full'], gens):
            own = {Fraction(float(x)) for x in [g.gx, g.ex, g.fg] + ([g.hg] if g.hg is not None else []) + list(g.time) + list(g.rate) + list(g.enthalpy)}
            own |= {abs(x) for x in own} | consts | {Fraction(k) for k in range(0, 6)}
            body = {k: v for k, v in src.items() if k != 'cell'}
            bad = [x for x in leaves(body) if x not in own]
            if bad:
                fail('generators_json:source-value-not-own', 'source %r of generator (%r, %r, %s): %r' % (src.get('name'), g.block, g.name, g.type, [float(x) for x in bad[:4]]),
                     "a source carries its own generator's rate / enthalpy / table values"); break
            F = lambda x: Fraction(float(x))
            tracer_src = out['src_ctx'][0] and g.type in ('COM2', 'TRAC')
            if g.type in ('MASS', 'MASD', 'HEAT', 'COM1', 'COM2', 'COM3', 'COM4', 'COM5', 'WATE', 'AIR ', 'TRAC', 'NACL') and not tracer_src:
                inj = g.type != 'MASD' and (g.gx > 0 or (bool(g.time) and any(r > 0 for r in g.rate)))
                if not (g.time and g.rate) and src.get('rate') != F(g.gx):
                    fail('generators_json:rate-not-GX', 'source %r (%s): rate %r' % (src.get('name'), g.type, src.get('rate')), 'rate = GX = %r' % g.gx); break
                if inj and g.type != 'HEAT' and not (g.time and g.enthalpy) and src.get('enthalpy') != F(g.ex):
                    fail('generators_json:enthalpy-not-EX', 'source %r (%s): enthalpy %r' % (src.get('name'), g.type, src.get('enthalpy')), 'injection enthalpy = EX = %r' % g.ex); break
                comp = {'MASS': 1, 'MASD': 1, 'HEAT': out['src_ctx'][1], 'COM1': 1, 'COM2': 2, 'COM3': 3, 'COM4': 4, 'COM5': 5, 'WATE': 1, 'AIR ': 2, 'TRAC': 2, 'NACL': 3}[g.type]
                if inj and src.get('component') != Fraction(comp):
                    fail('generators_json:component', 'source %r (%s): component %r' % (src.get('name'), g.type, src.get('component')), 'component %d' % comp); break
                if not inj and 'enthalpy' in src and not g.enthalpy:
                    fail('generators_json:production-with-enthalpy', 'source %r (%s, GX %r)' % (src.get('name'), g.type, g.gx), 'a producing source has no injection enthalpy'); break
            if g.type == 'DELV' and (src.get('deliverability', {}).get('productivity') != F(g.gx) or src.get('direction') != ('production' if g.gx >= 0 else 'injection')):
                fail('generators_json:delv', repr(src)[:200], 'productivity GX, production for GX >= 0, injection otherwise'); break
            if g.type == 'RECH' and src.get('enthalpy') != F(g.ex) and not g.enthalpy:
                fail('generators_json:enthalpy-not-EX', 'recharge source %r: enthalpy %r' % (src.get('name'), src.get('enthalpy')), 'EX = %r' % g.ex); break
            if g.time and g.type not in ('DELG', 'DMAK', 'DMAT', 'DELT', 'DELW') and g.rate and not (out['src_ctx'][0] and g.type in ('COM2', 'TRAC')):
                want = [[Fraction(float(a)), Fraction(float(b))] for a, b in zip(g.time, g.rate)]
                if src.get('rate') != want: fail('generators_json:rate-table', repr(src.get('rate'))[:200], 'the generator\'s own (time, rate) table'); break
        res['info'].append('source-values:%d' % min(9, len(gens)))
    # ---- the export as a whole: a boundary block none of whose neighbours is an interior block has no faces
    #      (an IndexError elsewhere in boundaries_json, e.g. default_incons shorter than the EOS needs, is the caller's)
    if not out['full'] and out.get('json_where') == 'boundaries_json' and out.get('json_exc') == 'IndexError' and 'normals' in out.get('json_line', ''):
        inner = lambda b: 0. < b.volume < spec['atmos_volume']
        lone = [b.name for b in dat.grid.blocklist if not inner(b) and
                not any(inner(dat.grid.block[n]) for c in b.connection_name for n in c if n != b.name)]
        if lone:
            fail('json:boundary-block-without-interior-neighbour', '%s; boundary block(s) %r have no interior neighbour' % (out['json_error'], lone[:4]),
                 'the export completes (such a block contributes no boundary faces)')
    # ---- EOS
    name, route = expected_eos(spec, dat)
    res['info'].append('eos-route:' + route)
    if name is not None:
        guard = (EOS_MAP.get(name) == 'w' and spec['ninc'] < 2) or (name == 'EWTD' and spec['diffusion'] != 'uniform')
        if name in EOS_MAP and not guard:
            want = 'OK\t%s\t%d' % (M.hx(EOS_MAP[name]), 1 if name in ('EWT', 'EWTD') else 0)
            if out['eos'] != want:
                fail('eos_json:%s-not-recognised-from-%s' % ('eos', route), '%s (json: %s)' % (out['eos'], out.get('json_error', 'ok')),
                     'EOS %s recognised as %s' % (name, EOS_MAP[name]))
            else: res['info'].append('eos-detected:' + route)
        elif name not in EOS_MAP and out['eos'].startswith('OK'):
            fail('eos_json:recognises-unsupported-name', out['eos'], 'no EOS for %r' % name)
    # ---- rock cell lists
    natm = geo.num_atmosphere_blocks
    if out['rocks'].startswith('OK'):
        lists = [[int(c) for c in l.split(',')] if l else [] for l in out['rocks'][3:].split(';')] if dat.grid.rocktypelist else []
        rnames = [rt.name for rt in dat.grid.rocktypelist]
        where = {}
        for r, l in enumerate(lists):
            for c in l: where.setdefault(c, []).append(r)
        nb = 0
        for i, nm in enumerate(geo.block_name_list):
            blk = dat.grid.block[nm]
            c = i - natm
            if 0. < blk.volume < spec['atmos_volume']:
                nb += 1
                if len(where.get(c, [])) != 1 or rnames[where[c][0]] != blk.rocktype.name:
                    fail('rocks_json:non-boundary-block-not-in-exactly-one-list', 'block %r (cell %d, rock %s) is in lists %r' % (nm, c, blk.rocktype.name, where.get(c, [])),
                         'in the cell list of its rock type and no other')
                    break
            elif c in where:
                fail('rocks_json:boundary-block-in-a-list', 'block %r volume %r cell %d in lists %r' % (nm, blk.volume, c, where[c]), 'boundary blocks in no cell list'); break
        known = set(range(-natm, len(geo.block_name_list) - natm))
        if set(where) - known: fail('rocks_json:unknown-cell', repr(sorted(set(where) - known)[:5]), 'cell lists hold block indices of the geometry')
        res['info'].append('nonboundary:%d' % min(nb, 9))
    # ---- block order: atmosphere blocks first, then the underground blocks by layer and column (dmplex: 8-node blocks, then 6-node blocks)
    names = geo.block_name_list
    top = geo.layerlist[0].name
    und = [(geo.block_name(l.name, c.name), c.num_nodes) for l in geo.layerlist[1:] for c in geo.columnlist if c.surface > l.bottom]
    want_und = [n for n, k in und] if geo.block_order != 'dmplex' else [n for n, k in und if k == 4] + [n for n, k in und if k == 3]
    if any(geo.layer_name(n) != top for n in names[:natm]) or names[natm:] != want_und or any(geo.block_name_index[n] != i for i, n in enumerate(names)):
        fail('json:block-order', 'block_name_list %r' % names[:12], '%d atmosphere blocks, then %r' % (natm, want_und[:12]))
    res['info'].append('order-6node:%d' % min(3, sum(1 for n, k in und if k == 3)))
    # ---- initial conditions: one entry per underground block, in geometry order
    def want_value(nm):
        if nm in dat.incon: return M.value_id(dat.incon[nm][1][0])
        rk = dat.grid.block[nm].rocktype.name
        return M.value_id(dat.indom[rk][0]) if rk in dat.indom else 0
    if isinstance(out['init'], str) and out['init'].startswith('OK') and all(n in dat.grid.block for n in names):
        got = [int(v) for v in out['init'][3:].split(',')] if out['init'][3:] else []
        want = [want_value(n) for n in names[natm:]]
        if got != want: fail('initial_json:value-per-cell', repr(got[:20]), 'by cell index: INCON entry, else INDOM entry of the rock type, else default: %r' % want[:20])
        res['info'].append('initial:%s' % ('uniform' if len(set(want)) <= 1 else 'varied'))
    # ---- boundaries: each boundary block has one face per connection to an interior block, with that block's cell index
    if isinstance(out['bdy'], list):
        inner = lambda b: 0. < b.volume < spec['atmos_volume']
        index = {n: i for i, n in enumerate(names)}
        want, ok = [], True
        for b in dat.grid.blocklist:
            if inner(b): continue
            for cn in b.connection_name:
                o = [n for n in cn]; o.remove(b.name)
                ob = dat.grid.block[o[0]]
                if inner(ob):
                    if ob.name not in index: ok = False; break
                    want.append((want_value(b.name) if (dat.incon or dat.indom) else 0, index[ob.name] - natm))
        if ok and sorted(want) != out['bdy']:
            fail('boundaries_json:faces', 'faces (boundary value, interior cell) %r' % out['bdy'][:12], 'one face per connection boundary block - interior block: %r' % sorted(want)[:12])
        res['info'].append('boundary-faces:%d' % min(9, len(want)))
    # ---- sources
    if out['srcs'].startswith('OK'):
        body = out['srcs'][3:]
        srcs = [s.rsplit(':', 1) for s in body.split(',')] if body else []
        gens = [g for g in dat.generatorlist if g.type != 'TMAK']
        if len(srcs) != len(gens): fail('generators_json:source-count', '%d sources for %d non-group generators' % (len(srcs), len(gens)), 'one source per non-group generator')
        else:
            index = {n: i for i, n in enumerate(geo.block_name_list)}
            for (nm, cell), g in zip(srcs, gens):
                want = index[g.block] - natm if g.block in index and index[g.block] - natm >= 0 else None
                got = None if cell == 'N' else int(cell)
                if got != want:
                    fail('generators_json:source-cell', 'generator (%r, %r): cell %r' % (g.block, g.name, got), 'cell %r' % want); break
            res['info'].append('sources:%d' % min(len(srcs), 9))
    return res


# ---------------------------------------------------------------------------------------------- sharded execution
def run_one(spec, tmp):
    k = spec['kind']
    return conv_case(spec, tmp) if k == 'conv' else seq_case(spec, tmp) if k == 'seq' else pair_case(spec, tmp) if k == 'pair' else export_case(spec)


def _worker(args):
    kind, specs, repo = args
    if sys.path[0] != repo: sys.path.insert(0, repo)
    out = []
    tmp = tempfile.mkdtemp(prefix='c20-')
    try:
        for spec in specs:
            try:
                r = run_one(spec, tmp)
            except Exception as e:
                r = {'lines': [], 'fails': [], 'info': ['harness-error'], 'crash': '%s\n%s' % (repr(e), traceback.format_exc()[-1500:])}
            out.append(r)
    finally:
        shutil.rmtree(tmp, ignore_errors=True)
    return out


def run_cases(ctx, kind, specs):
    if not specs: return []
    n = min(NSHARD, max(1, len(specs) // 40))
    chunks = [specs[i::n] for i in range(n)]
    if n == 1: outs = [_worker((kind, chunks[0], ctx.repo))]
    else:
        with multiprocessing.get_context('fork').Pool(n) as pool:
            outs = pool.map(_worker, [(kind, c, ctx.repo) for c in chunks])
    res = [None] * len(specs)
    for j, o in enumerate(outs):
        for k, r in enumerate(o): res[j + k * n] = r
    return res


def absorb(ctx, exe, kind, specs, results, label=''):
    """model runs, diff, oracle bookkeeping"""
    info = Counter()
    lines, meta = [], []
    crashes = 0
    for spec, r in zip(specs, results):
        for t in r['info']: info[t] += 1
        if 'crash' in r:
            crashes += 1
            if crashes <= 3: ctx.log('harness error on a case:', r['crash'][-600:])
            continue
        ctx.count(json.dumps(spec, sort_keys=True, default=str), nontrivial=not any(t.startswith('skipped') for t in r['info']))
        for key, obs, req in r['fails']:
            ctx.failure('c20-statement-on-implementation' + label, key, spec, obs, req)
        for name, case, impl in r['lines']:
            lines.append(case); meta.append((name, spec, impl))
    if crashes:
        ctx.proof_failures.append({'kind': 'harness', 'name': 'case-runner-crashed', 'detail': '%d %s case(s) crashed in the harness' % (crashes, kind)})
    ctx.oracle_cases('c20-statement-on-implementation' + label, len(specs) - crashes, **{kind: dict(info)})
    if exe and lines:
        out = vf.run_driver(exe, lines, shards=NSHARD if len(lines) > 400 else 1)
        per = Counter()
        for (name, spec, impl), case, model in zip(meta, lines, out):
            if name == 'export-source-values':
                per[name] += 1
                b = impl['src_full']
                try: a = M.parse_model_json(model[3:]) if model.startswith('OK') else model
                except Exception as e: a = 'unparsable model line: %r' % e
                if a != b:
                    diff = next(('source %d: model %r | implementation %r' % (i, x, y) for i, (x, y) in enumerate(zip(a, b)) if x != y), 'model %r | implementation %r' % (a, b)) \
                        if isinstance(a, list) and isinstance(b, list) else 'model %r | implementation %r' % (a, b)
                    ctx.disagreement(name, {'spec': spec, 'difference': str(diff)[:1500]}, str(a)[:2000], str(b)[:2000])
                continue
            if name == 'export':        # one driver line, five compared pieces
                mp = model.split(' | ')
                if len(mp) != 5: mp = [model] * 5
                for k, key in enumerate(('eos', 'rocks', 'srcs', 'init', 'bdy')):
                    a, b = mp[k], impl[key]
                    if b is None: continue                       # the implementation raised for a reason outside the bookkeeping
                    if key == 'bdy':                             # canonical: sorted (boundary value, interior cell) pairs
                        if a.startswith('OK'):
                            pairs = []
                            for e in (a[3:].split(';') if a[3:] else []):
                                nm, v, cells = e.split(':')
                                pairs += [(int(v), int(c)) for c in cells.split(',')]
                            a = repr(sorted(pairs))
                        b = repr(b) if isinstance(b, list) else b
                    per['export-' + key] += 1
                    if a != b: ctx.disagreement('export-' + key, {'spec': spec, 'difference': 'model %s | implementation %s' % (a[:600], b[:600])}, a[:2000], b[:2000])
                continue
            per[name] += 1
            if model != impl:
                ctx.disagreement(name, {'spec': spec, 'difference': M.explain(model, impl)[:1500]}, model[:2000], impl[:2000])
        for name, k in per.items(): ctx.corr_cases(name, k)
    return info


def conv_specs(ctx, n, offset=0):
    return [M.gen_conv_spec(ctx.rng, i + offset) for i in range(n)]


REVERSE = {'t2': lambda rng: {'kind': 'au', 'MP': rng.random() < 0.3, 'simulator': rng.choice(['AUTOUGH2.2', 'AUTOUGH2', 'MULKOM']), 'eos': rng.choice(['EW', 'EWC'])},
           'au': lambda rng: {'kind': 't2', 'MP': rng.random() < 0.3}}


def seq_specs(ctx, n, offset=0):
    """a model, then 2..3 conversions in alternating directions (or through the type setter) on the same object"""
    out, i = [], 0
    while len(out) < n:
        s = M.gen_conv_spec(ctx.rng, i + offset); i += 1
        op = s['op']
        if op['kind'] == 'st':
            if op['value'] not in ('TOUGH2', 'AUTOUGH2'): continue
            ops = [op, {'kind': 'st', 'value': 'TOUGH2' if op['value'] == 'AUTOUGH2' else 'AUTOUGH2'}, dict(op)]
        else:
            second = REVERSE[op['kind']](ctx.rng)
            ops = [op, second] + ([REVERSE[second['kind']](ctx.rng)] if ctx.rng.random() < 0.5 else [])
        s['kind'], s['ops'] = 'seq', ops
        out.append(s)
    return out


def pair_specs(ctx, n, offset=0):
    """two models converted in one process (B has a twin converted first); biased to conversions to AUTOUGH2 whose solver
    choices map to different LINEQ types, incl. MOP(21) in 7..9, and to pairs of the same direction"""
    out = []
    for i in range(n):
        a, b = M.gen_conv_spec(ctx.rng, 2 * i + offset), M.gen_conv_spec(ctx.rng, 2 * i + 1 + offset)
        if ctx.rng.random() < 0.6:
            for s, d in ((a, ctx.rng.choice([3, 4, 6])), (b, ctx.rng.choice([5, 7, 8, 9, 2]))):
                s.update({'flavour': 'TOUGH2', 'simulator': '', 'solver': None if ctx.rng.random() < 0.7 else {'type': d, 'z_precond': 'Z1', 'o_precond': 'O0', 'relative_max_iterations': 0.1, 'closure': 1e-6}})
                s['options'][20] = d
                s['op'] = {'kind': 'au', 'MP': False, 'simulator': 'AUTOUGH2.2', 'eos': 'EW'} if ctx.rng.random() < 0.7 else {'kind': 'st', 'value': 'AUTOUGH2'}
        out.append({'kind': 'pair', 'a': a, 'b': b})
    return out


def export_specs(ctx, n, offset=0):
    return [M.gen_export_spec(ctx.rng, i + offset) for i in range(n)]


def translate(ctx):
    try:
        text, consts = c20_tables.generate(ctx.repo)
    except c20_tables.Refusal as e:
        ctx.refusal('c20_tables(t2data.py: conversion tables, MOP programs, export tables, hand-modelled statement lists)', e)
        return False
    ctx.gen('GenConvert', text)
    ctx.extra['translated'] = {'mop_statements_to_tough2': len(consts['t2_prog']), 'mop_statements_to_autough2': len(consts['au_prog']),
                               'generator_types_tough2': consts['gen']['allowed'], 'generator_types_converted': consts['gen']['convert'],
                               'supported_eos': consts['eos']['supported_eos'], 'hand_modelled_methods_compared': sorted(c20_tables.HAND_MODELLED)}
    return True


def run(ctx):
    ctx.rule = ('(1) conversion cases: a t2data built through the public API on a fromgeo grid of a rectangular geometry (1..18 blocks, all atmosphere types, '
                'block orders), flavour AUTOUGH2 (13 simulator strings) or TOUGH2, every subset of the optional sections, 0..6 generators over every AUTOUGH2 and '
                'TOUGH2 type (supported, convertible, unsupported; the same object twice; duplicated (block, name) keys; blocks outside the grid), 24 MOP digits with a '
                'systematic sweep (case i puts digit (i div 24) mod 10 into position i mod 24), LINEQ/SOLVR/MULTI dicts, SHORT with each key present or absent, '
                'history lists holding objects, bare names, names outside the grid and reversed pairs; optionally written or written + re-read first; operation = '
                'convert_to_TOUGH2(MP), convert_to_AUTOUGH2(MP, simulator, eos) or the type setter, then write() + read(). (2) export cases: atmosphere type x block '
                'order x EOS route (explicit, MULTI, simulator string, index, none) x EOS name (6 supported, 2 unsupported), boundary blocks of volume 0 / 1e25 / 1e30 / '
                '1e50 inside and outside the geometry, 0..6 generators over the exported types incl. TMAK groups and atmosphere / unknown blocks. '
                '(3) sequences: 2..3 conversions in alternating directions (or through the type setter) on ONE object, each with all clauses and write() + read(). '
                '(4) pairs: two models in one process - a twin of B is converted first, then A, then the caller edits A, then B: B equals its twin, neither A nor the twin '
                'changed, no mutable container shared. (5) every completed json() is called a second time after its first result was emptied in place. '
                'A case is distinct by its full JSON spec; non-trivial: it was representable in the abstract object and ran')
    ctx.trusted += ['Coq 8.16.1 kernel (coqc); vm_compute for the finite obligations over the regenerated tables and for the MOP digit sweep',
                    'translator tools/props/c20_tables.py (ast walk of t2data.py; program language coq/C20/Lang.v with interpreter Convert.run_prog)',
                    'hand-written models coq/C20/Convert.v and WaiweraJson.v: the statement lists they follow are compared with the source as ASTs on every run, and their '
                    'agreement with the running code is TESTED on this run (whole abstract object compared), not proved',
                    'the abstraction of a t2data into the model object (tools/props/c20_models.py Abstractor: generator objects by identity, digests for fields no conversion touches)',
                    'extraction: ExtrOcamlBasic + ExtrOcamlString, ocaml/main.ml, PTBase.Wire',
                    'the Python statement of the property in tools/props/C20.py (conv_case / export_case) with its own tables of TOUGH2 generator types and EOS names']
    ctx.assumptions += ["LINEQ['type'] and SOLVR['type'] are integers when present (else the conversions raise KeyError/TypeError: to_tough2_total / to_autough2_total name exactly this)",
                        'history / short-output lists hold t2block, t2connection, t2generator objects, block names or name pairs',
                        'round trip: values are compared at the precision of the file formats; history items naming blocks outside the grid are not required to survive a re-read '
                        '(the reader drops them with a message whatever produced them)',
                        'export: json() is evaluated piecewise (eos_json, rocks_json, generators_json) when the whole call raises for a reason outside the statement',
                        'a reversed name pair in history_connection may be dropped by convert_to_AUTOUGH2 (documented: items not in the grid are discarded)']
    ctx.stage()
    ok = translate(ctx)
    if ok: ok = ctx.coq_build(timeout=600)
    exe = vf.build_driver(ctx) if ok else None
    nconv, nexp = (14400, 7776) if ctx.thorough else (1920, 1296)
    t0 = time.time()
    specs = conv_specs(ctx, nconv)
    info_c = absorb(ctx, exe, 'conv', specs, run_cases(ctx, 'conv', specs))
    ctx.log('conversion cases: %d in %.1fs' % (nconv, time.time() - t0))
    t0 = time.time()
    nseq, npair = (2400, 2400) if ctx.thorough else (300, 360)
    qspecs, pspecs = seq_specs(ctx, nseq), pair_specs(ctx, npair)
    info_q = absorb(ctx, exe, 'seq', qspecs, run_cases(ctx, 'seq', qspecs))
    info_p = absorb(ctx, exe, 'pair', pspecs, run_cases(ctx, 'pair', pspecs))
    ctx.log('sequences on one object: %d, pairs of models in one process: %d in %.1fs' % (nseq, npair, time.time() - t0))
    t0 = time.time()
    xspecs = export_specs(ctx, nexp)
    info_x = absorb(ctx, exe, 'export', xspecs, run_cases(ctx, 'export', xspecs))
    ctx.log('export cases: %d in %.1fs' % (nexp, time.time() - t0))
    for s in specs[:3] + xspecs[:3]: ctx.sample(json.dumps(s, sort_keys=True, default=str)[:600])
    ctx.extra['input_distribution'] = {'conversion': dict(info_c), 'sequences': dict(info_q), 'pairs': dict(info_p), 'export': dict(info_x)}
    ctx.hyp_met['conversion completed (Ok) on the implementation'] = sum(v for k, v in info_c.items() if k.startswith('dir:')) - sum(v for k, v in info_c.items() if k.startswith('raised:'))
    ctx.hyp_met['EOS recognised, by route'] = {k[13:]: v for k, v in info_x.items() if k.startswith('eos-detected:')}

    def deep(broken):
        ctx.log('deep search: statement-on-implementation sweep with fresh seeds')
        ctx.rng = random.Random(ctx.seed + 2020)
        sp = conv_specs(ctx, 2400, offset=7)
        absorb(ctx, None, 'conv', sp, run_cases(ctx, 'conv', sp), label='(deep)')
        xp = export_specs(ctx, 1296, offset=5)
        absorb(ctx, None, 'export', xp, run_cases(ctx, 'export', xp), label='(deep)')
        qp, pp = seq_specs(ctx, 600, offset=11), pair_specs(ctx, 900, offset=13)
        absorb(ctx, None, 'seq', qp, run_cases(ctx, 'seq', qp), label='(deep)')
        absorb(ctx, None, 'pair', pp, run_cases(ctx, 'pair', pp), label='(deep)')
    return ctx.finish(deep_search=deep)


def replay(ctx, data):
    spec = data.get('input')
    if not isinstance(spec, dict) or 'kind' not in spec: return True
    key = data.get('finding_key')
    tmp = tempfile.mkdtemp(prefix='c20-replay-')
    try:
        r = run_one(spec, tmp)
    finally:
        shutil.rmtree(tmp, ignore_errors=True)
    for k, obs, req in r['fails']:
        print('replay: %s\n  observed: %s\n  required: %s' % (k, obs, req))
    return any(k == key for k, _, _ in r['fails']) if key else bool(r['fails'])
