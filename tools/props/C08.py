"""C08 -- TOUGH2 grid stays internally consistent under any sequence of edits.

tie: H (hand-written executable Gallina model coq/C08/GridEdit.v of the t2grid edit state machine).
  * correspondence: op-sequence differential testing of the extracted model against the REAL
    t2grid through its public methods; the canonical dump of the whole grid is compared after
    every step (exhaustive short sequences from several start grids + random long sequences on
    grids built by t2grid().fromgeo(mulgrid().rectangular(...))).  minc / __add__ / embed are part of
    the alphabet: a case may hold a second grid (`x` edits build it) that is added to / embedded
    in the main one; then both grids are dumped after every step (they share objects).
  * oracle: the property statement (`Inv`, written here in Python against the public attributes
    block/blocklist/connection/connectionlist/rocktype/rocktypelist/block.connection_name/
    block.rocktype) is evaluated on the real object after every step, independently of the model.
"""
import os, sys, io, json, itertools, random, re, zlib, time, traceback, contextlib
from collections import Counter
import vf

# ----------------------------------------------------------------------------------------------
# universe of the exhaustive sweep: 4 block names, 2 rock types (5-character names on which
# mulgrids.fix_blockname is the identity; the universe UF below is the one on which it is not)
U = ['  a 1', '  b 1', '  c 1', '  d 1']
RK = ['rock1', 'rock2']
VOL = 1000.0
NAME_OK = re.compile(r'^[A-Za-z0-9 ]+$')

Q = ['Q a 1', 'Q b 1']          # block names of the second grid of the two-grid start grids
JOBS = max(1, min(vf.NPROC, 8))

SEEDS = {
    'empty': [],
    'pair': [('ar', RK[0]), ('ar', RK[1]), ('ab', U[0], RK[0]), ('ab', U[1], RK[1]), ('ac', U[0], U[1])],
    'chain': [('ar', RK[0]), ('ar', RK[1]), ('ab', U[0], RK[0]), ('ab', U[1], RK[0]), ('ab', U[2], RK[1]),
              ('ac', U[0], U[1]), ('ac', U[1], U[2])],
    'ring': [('ar', RK[0]), ('ar', RK[1]), ('ab', U[0], RK[0]), ('ab', U[1], RK[1]), ('ab', U[2], RK[0]), ('ab', U[3], RK[1]),
             ('ac', U[0], U[1]), ('ac', U[1], U[2]), ('ac', U[2], U[3]), ('ac', U[3], U[0])],
}
# two-grid start grids: the main grid and a second one (built by `x` edits) with disjoint / overlapping block names
SEEDS['pair+disjoint'] = SEEDS['pair'] + [('x', ('ar', RK[0])), ('x', ('ab', Q[0], RK[0], 1.0)), ('x', ('ab', Q[1], RK[0], 1.0)),
                                          ('x', ('ac', Q[0], Q[1]))]
# (chain+overlap: block b has atmosphere volume and block c volume 0, so minc's volume test fails on both sides; the second grid
#  is too big for the ordinary block a: embed refuses on volume, or on the common name b)
SEEDS['chain+overlap'] = [('ar', RK[0]), ('ar', RK[1]), ('ab', U[0], RK[0]), ('ab', U[1], RK[0], 1.e25), ('ab', U[2], RK[1], 0.0),
                          ('ac', U[0], U[1]), ('ac', U[1], U[2])] + [('x', ('ar', RK[1])), ('x', ('ab', U[1], RK[1], 600.0)), ('x', ('ab', Q[0], RK[1], 600.0)),
                                           ('x', ('ac', U[1], Q[0]))]
# names on which mulgrids.fix_blockname is NOT the identity: 'ab1 1' is the TOUGH2 (a3, i2) spelling of 'ab101'.  rename_blocks with
# its default fix_blocknames=True rewrites the map first; the start grid 'fixpair' draws block names and rename maps from this universe
UF = ['ab101', 'ab102', 'ab1 1', 'ab1 2']
SEEDS['fixpair'] = [('ar', RK[0]), ('ar', RK[1]), ('ab', UF[0], RK[0]), ('ab', UF[1], RK[1]), ('ac', UF[0], UF[1])]
SEED_UNIVERSE = {'fixpair': UF}
TWO_GRID = ('x', 'ad', 'em')
VARIANTS = {}        # method variants of the tree under test (method_variants), set before the workers are forked


def py_fix_name(n):
    """mulgrids.fix_blockname, written again here (the classifier of inputs must not depend on the code under test)"""
    return n[:3] + '0' + n[4:5] if (len(n) > 4 and n[2].isdigit() and n[4].isdigit() and n[3] == ' ') else n


def py_unfix_name(n):
    """the (a3, i2) spelling of a fixed name ('ab101' -> 'ab1 1'); other names as they are"""
    return n[:3] + ' ' + n[4:] if (len(n) == 5 and n[2].isdigit() and n[4].isdigit() and n[3] == '0') else n


def py_fix_map(m):
    """the name map as rename_blocks(fix_blocknames=True) uses it: values fixed, then the entries with an unfixed key moved"""
    vals = dict((k, py_fix_name(v)) for k, v in m.items())
    res = dict((k, v) for k, v in vals.items() if py_fix_name(k) == k)
    for k, v in vals.items():
        if py_fix_name(k) != k: res[py_fix_name(k)] = v
    return res


def _impl():
    import t2grids
    return t2grids


class St(object):
    """the grid under edit, and (two-grid cases) a second grid; `shared`: they hold common objects"""
    __slots__ = ('main', 'other', 'shared', 'universe')

    def __init__(self, main, other=None, universe=None):
        self.main, self.other, self.shared, self.universe = main, other, False, universe or U

    def second(self):
        if self.other is None: self.other = _impl().t2grid()
        return self.other


# ----------------------------------------------------------------------------------------------
# minc: naming functions (exactly the ones coq/C08/Drv.v knows) and geometry presets
def _mb_z(name, level): return ('%dzz%s' % (level, name[3:]))[:5]
def _mb_k(name, level): return str(level + 4) + name[1:]
def _mr_i(name, level): return name
def _mr_m(name, level): return 'M%d' % level + name[2:]
MB = {'d': None, 'z': _mb_z, 'k': _mb_k}
MR = {'d': None, 'i': _mr_i, 'm': _mr_m}
FRACS = {0: [1.0], 1: [0.1, 0.9], 2: [0.05, 0.15, 0.8], 3: [0.02, 0.08, 0.2, 0.7], 4: [0.1, 0.2, 0.3, 0.2, 0.2]}
ATMOS = 1.e25


def inel_names(g):
    """names of the blocks that fail minc's volume test 0 < volume < atmos_volume (evaluated HERE, from the
    real volumes: the model takes the outcome of the test as an input)"""
    # through the dict, like minc itself (self.block[blkname]): on a grid with a repeated name this is the object tested
    return tuple(n for n, b in g.block.items() if not (0. < b.volume < ATMOS))


def subgrid_fits(st, op):
    """embed's first test, evaluated here from the real volumes (an input of the model)"""
    try:
        sub = sum(b.volume for b in st.second().blocklist)
        host = st.main.block[op[2]].volume if op[2] in st.main.block else VOL
        return int(sub < host)
    except Exception: return 0


# ----------------------------------------------------------------------------------------------
# operations: python tuples; applied to the implementation through public methods only
def apply_edit(g, op):
    """one of the eleven single-grid edits, or minc, on grid `g`"""
    T = _impl()
    k = op[0]
    if k == 'ar': g.add_rocktype(T.rocktype(op[1]))
    elif k == 'dr': g.delete_rocktype(op[1])
    elif k == 'cr': g.clean_rocktypes()
    elif k == 'rr': g.rename_rocktype(op[1], op[2])
    elif k == 'ab': g.add_block(T.t2block(op[1], op[3] if len(op) > 3 else VOL, g.rocktype[op[2]]))
    elif k == 'db': g.delete_block(op[1])
    elif k == 'dm':
        names = list(op[1])
        g.demote_block(names[0] if (len(names) == 1 and op[2]) else names)
    elif k == 'ac': g.add_connection(T.t2connection([g.block[op[1]], g.block[op[2]]]))
    elif k == 'dc': g.delete_connection((op[1], op[2]))
    elif k == 'rn': g.rename_blocks(dict(op[1]), fix_blocknames=bool(op[2]))
    elif k == 'ro':
        bns = list(op[1]) or None
        cns = [tuple(c) for c in op[2]] or None
        g.reorder(block_names=bns, connection_names=cns)
    elif k == 'mi':
        # ('mi', naming, levels, selection, names failing the volume test (for the model), call form)
        naming, levels, sel, form = op[1], op[2], list(op[3]), op[5]
        if not sel: blocks = None if form % 2 else []
        elif form == 2 and all(n in g.block for n in sel): blocks = [g.block[n] for n in sel]
        else: blocks = sel
        kw = {}
        if MB[naming[0]] is not None: kw['matrix_blockname'] = MB[naming[0]]
        if MR[naming[1]] is not None: kw['minc_rockname'] = MR[naming[1]]
        planes = 1 + levels % 3
        g.minc(FRACS[levels], [50., 30., 40.][:planes], planes, blocks, **kw)
    else: raise RuntimeError('unknown op %r' % (op,))


def apply_op(st, op):
    """Apply one edit to the real grid(s) of `st`."""
    T = _impl()
    k = op[0]
    if k == 'x': apply_edit(st.second(), op[1])
    elif k == 'ad':
        o = st.second()
        st.main = (o + st.main) if op[1] else (st.main + o)
        st.shared = True
    elif k == 'em':
        # ('em', mode, host name, sub-grid block name, fits (for the model))
        o = st.second()
        if op[1] == 'o': blks = [st.main.block[op[2]], o.block[op[3]]]
        else:
            hv = st.main.block[op[2]].volume if op[2] in st.main.block else VOL
            blks = [T.t2block(op[2], hv, None), T.t2block(op[3], 1.0, None)]
        con = T.t2connection(blks, 1, [1.0, 2.0], 3.0, 0.0)
        with contextlib.redirect_stdout(io.StringIO()):
            res = st.main.embed(o, con)
        if res is not None:
            st.main = res; st.shared = True
    else: apply_edit(st.main, op)
    return st


def hx(s): return s.encode('latin-1').hex()


def encode_op(op):
    k = op[0]
    if k in ('ar', 'dr', 'db'): return k + ',' + hx(op[1])
    if k == 'cr': return 'cr'
    if k in ('rr', 'ab', 'ac', 'dc'): return k + ',' + hx(op[1]) + ',' + hx(op[2])
    if k == 'x': return 'x:' + encode_op(op[1])
    if k == 'mi': return ','.join(['mi', op[1], str(op[2])] + [hx(n) for n in op[3]]) + ';' + ','.join(hx(n) for n in op[4])
    if k == 'ad': return 'ad,%d' % op[1]
    if k == 'em': return 'em,%s,%s,%s,%d' % ('o' if op[1] == 'o' else 'f', hx(op[2]), hx(op[3]), op[4])
    if k == 'dm': return ','.join(['dm'] + [hx(n) for n in op[1]])
    if k == 'rn': return ','.join(['rf' if op[2] else 'rn'] + [hx(x) for kv in op[1] for x in kv])
    if k == 'ro': return ','.join(['ro'] + [hx(n) for n in op[1]]) + ';' + ','.join(hx(x) for c in op[2] for x in c)
    raise RuntimeError('unknown op %r' % (op,))


def op_names(op):
    k = op[0]
    if k in ('ar', 'dr', 'db'): return [op[1]]
    if k in ('rr', 'ab', 'ac', 'dc'): return [op[1], op[2]]
    if k == 'x': return op_names(op[1])
    if k == 'mi': return list(op[3]) + list(op[4])
    if k == 'em': return [op[2], op[3]]
    if k == 'dm': return list(op[1])
    if k == 'rn': return [x for kv in op[1] for x in kv]
    if k == 'ro': return list(op[1]) + [x for c in op[2] for x in c]
    return []


def exn_name(e):
    return 'Exception' if type(e) is Exception else type(e).__name__


# ----------------------------------------------------------------------------------------------
# canonical dump (must print exactly what coq/C08/Drv.v `observe` prints)
def _first_pos(lst):
    m = {}
    for i, o in enumerate(lst): m.setdefault(id(o), i)
    return m


def _idx(m, o):
    i = m.get(id(o))
    return '-' if i is None else str(i)


def dump(g):
    rpos, bpos, cpos = _first_pos(g.rocktypelist), _first_pos(g.blocklist), _first_pos(g.connectionlist)
    R = ','.join(rt.name for rt in g.rocktypelist)
    RD = ','.join('%s=%s=%s' % (k, _idx(rpos, v), v.name) for k, v in g.rocktype.items())
    B = ','.join('%s/%s/%s/%s' % (b.name, b.rocktype.name, _idx(rpos, b.rocktype),
                                  '+'.join('%s~%s' % k for k in sorted(b.connection_name))) for b in g.blocklist)
    BD = ','.join('%s=%s=%s' % (k, _idx(bpos, v), v.name) for k, v in g.block.items())
    C = ','.join('%s~%s/%s/%s' % (c.block[0].name, c.block[1].name, _idx(bpos, c.block[0]), _idx(bpos, c.block[1]))
                 for c in g.connectionlist)
    CD = ','.join('%s~%s=%s=%s~%s' % (k[0], k[1], _idx(cpos, v), v.block[0].name, v.block[1].name)
                  for k, v in g.connection.items())
    return 'R:%s;RD:%s;B:%s;BD:%s;C:%s;CD:%s' % (R, RD, B, BD, C, CD)


def dump_st(st, dual):
    if not dual: return dump(st.main)
    return dump(st.main) + '#' + dump(st.second())


def adler(s):
    v = zlib.adler32(s.encode('latin-1'))
    return '%d.%d' % (v & 0xffff, v >> 16)


# ----------------------------------------------------------------------------------------------
# the property statement, evaluated on the real object (the oracle; independent of the model)
def inv_violations(g, limit=3):
    """Clauses of the C08 statement that the grid breaks (empty list: consistent)."""
    bad = []

    def pair(kind, lst, dct, keyof):
        ids = [id(o) for o in lst]
        if len(set(ids)) != len(ids): bad.append('%slist holds the same object twice' % kind)
        if set(ids) != set(id(o) for o in dct.values()) or len(dct) != len(set(ids)):
            bad.append('%s dict and %slist do not hold the same set of objects (dict %d, list %d)' % (kind, kind, len(dct), len(lst)))
        names = [keyof(o) for o in lst]
        if len(set(names)) != len(names): bad.append('%s names are not unique' % kind)
        for k, o in dct.items():
            if keyof(o) != k:
                bad.append('%s filed under %r is named %r' % (kind, k, keyof(o))); break
    pair('rocktype', g.rocktypelist, g.rocktype, lambda r: r.name)
    pair('block', g.blocklist, g.block, lambda b: b.name)
    pair('connection', g.connectionlist, g.connection, lambda c: tuple(b.name for b in c.block))
    inlist = set(id(b) for b in g.blocklist)
    mentions = {}
    for con in g.connectionlist:
        key = tuple(b.name for b in con.block)
        for b in con.block:
            if id(b) not in inlist or g.block.get(b.name) is not b:
                bad.append('connection %r joins a block object that is not in the grid' % (key,)); break
        if g.connection.get(key) is not con:
            bad.append('connection %r is not found under the pair of its blocks\' current names' % (key,))
        for b in con.block: mentions.setdefault(id(b), set()).add(key)
        if len(bad) >= limit: return bad
    for b in g.blocklist:
        if b.connection_name != mentions.get(id(b), set()):
            bad.append('block %r records connections %r but is mentioned by %r' % (
                b.name, sorted(b.connection_name), sorted(mentions.get(id(b), set()))))
        if b.rocktype.name not in g.rocktype:
            bad.append('block %r has rock type %r, which is not registered in the grid' % (b.name, b.rocktype.name))
        if len(bad) >= limit: break
    return bad[:limit]


def rock_identity_ok(g):
    """the stronger reading (informational only): each block's rocktype object IS the registered one"""
    return all(g.rocktype.get(b.rocktype.name) is b.rocktype for b in g.blocklist)


# ----------------------------------------------------------------------------------------------
# classification of an edit relative to the pre-state: domain of the quantifier and finding keys
def classify(st, op, other_consistent=True):
    """(in_domain, key): `in_domain` False when the edit's arguments are outside what the property
    quantifies over (a name map that is not one-to-one on the grid's blocks or collides with an
    unrenamed block; a reorder list that is not a reordering; a second grid that is itself not
    consistent; an edit of the second grid after it was added to / embedded in the main one, which
    edits the main grid's objects behind its back).  `key` is the finding key a failure of the
    statement right after this edit gets (call-site:input-class, DESIGN.md App. D)."""
    k = op[0]
    if k == 'x':
        if st.shared: return False, 'operand-edited-after-sum'
        return classify(St(st.second()), op[1])
    g = st.main
    if k == 'mi':
        return True, ('minc:matrix-names-collide' if op[1][0] == 'z' else 'minc:any')
    if k in ('ad', 'em'): other_consistent = not inv_violations(st.second(), limit=1)     # the second grid as it is NOW
    if k == 'ad':
        o = st.second()
        if not other_consistent: return False, '__add__:operand-not-consistent'
        first, second = (o, g) if op[1] else (g, o)
        for b in first.blocklist:
            b2 = second.block.get(b.name)
            if b2 is not None and b2 is not b and (b.connection_name or any(any(x is b for x in c.block) for c in first.connectionlist)):
                return True, 'add_block:replaces-connected-block'
        return True, '__add__:no-connected-block-replaced'
    if k == 'em':
        if not other_consistent: return False, 'embed:operand-not-consistent'
        return True, ('embed:own-block-objects' if op[1] == 'o' else 'embed:foreign-block-objects')
    if k == 'rn':
        m = dict(op[1])
        if op[2]: m = py_fix_map(m)           # fix_blocknames=True: the map that is applied
        present = [b.name for b in g.blocklist]
        new = [m.get(n, n) for n in present]
        if len(set(new)) != len(new):
            renamed = [m[n] for n in present if n in m]
            if len(set(renamed)) != len(renamed): return False, 'rename_blocks:map-not-injective'
            return False, 'rename_blocks:map-collides-with-unrenamed'
        if set(m.values()) & set(m.keys()): return True, 'rename_blocks:map-targets-overlap-sources'
        return True, 'rename_blocks:non-overlapping-map'
    if k == 'ro':
        bns, cns = list(op[1]), [tuple(c) for c in op[2]]
        if bns and sorted(bns) != sorted(b.name for b in g.blocklist): return False, 'reorder:block-names-not-a-permutation'
        if cns:
            un = lambda c: tuple(sorted(c))
            if len(set(cns)) != len(cns) or Counter(un(c) for c in cns) != Counter(un(c) for c in g.connection):
                return False, 'reorder:connection-names-not-a-permutation'
        return True, 'reorder:permutation'
    if k == 'ab':
        old = g.block.get(op[1])
        if old is not None:
            if old.connection_name or any(any(b is old for b in c.block) for c in g.connectionlist):
                return True, 'add_block:replaces-connected-block'
            return True, 'add_block:replaces-unconnected-block'
        return True, 'add_block:new-name'
    if k == 'dr':
        if any(b.rocktype.name == op[1] for b in g.blocklist): return True, 'delete_rocktype:rocktype-in-use'
        return True, 'delete_rocktype:unused'
    if k == 'rr':
        reg = g.rocktype.get(op[1])
        if any(b.rocktype.name == op[1] and b.rocktype is not reg for b in g.blocklist):
            return True, 'rename_rocktype:stale-rocktype-object'
        return True, 'rename_rocktype:registered-object'
    names = {'ar': 'add_rocktype', 'cr': 'clean_rocktypes', 'db': 'delete_block', 'dm': 'demote_block',
             'ac': 'add_connection', 'dc': 'delete_connection'}
    return True, names.get(k, k) + ':any'


# ----------------------------------------------------------------------------------------------
# running one sequence on the implementation
class Outcome(object):
    __slots__ = ('obs', 'error', 'fail', 'steps', 'domain_exits', 'strong_rock_breaks', 'refused')

    def __init__(self):
        self.obs, self.error, self.fail, self.steps = [], None, None, 0
        self.domain_exits, self.strong_rock_breaks = [], 0
        self.refused = []         # exception classes of the refused edits after which the sequence went on


class Watch(object):
    """the statement evaluated after every step of one sequence: only the FIRST break is reported
    (later ones are consequences); breaks caused by an edit outside the quantifier are counted apart"""
    __slots__ = ('consistent', 'other_ok', 'strong', 'fail', 'domain_exits', 'strong_breaks', 'now_ok')

    def __init__(self, st):
        self.consistent = not inv_violations(st.main)          # no break so far
        self.now_ok = self.consistent                          # the main grid is consistent at this moment
        self.other_ok = st.other is None or not inv_violations(st.other)
        self.strong, self.fail, self.domain_exits, self.strong_breaks = True, None, [], 0

    def copy(self):
        w = Watch.__new__(Watch)
        w.consistent, w.other_ok, w.strong, w.fail = self.consistent, self.other_ok, self.strong, self.fail
        w.domain_exits, w.strong_breaks = list(self.domain_exits), self.strong_breaks
        w.now_ok = self.now_ok
        return w

    def catches(self, st, op):
        """asked BEFORE the call: if this edit is refused (raises), does the sequence go on?  Yes when the grid(s) it is
        applied to are consistent now: then the statement must hold of what the refused edit leaves behind.  (After a
        break of the statement a raising edit ends the sequence: the model does not describe half-done edits of an
        inconsistent grid.)  The extracted driver decides the same with inv_b."""
        k = op[0]
        if k == 'ad': return False
        if k == 'x': return not inv_violations(st.second(), limit=1)
        if k == 'em': return not VARIANTS.get('add_rocktype_relinks') and self.now_ok and not inv_violations(st.second(), limit=1)
        return self.now_ok

    def before(self, st, op):
        return classify(st, op, self.other_ok) if self.consistent else (True, None)

    def after(self, st, op, t, dom, key, mark=True):
        """returns the verdict of the statement on the main grid after this step"""
        if op[0] == 'x' and self.other_ok and not st.shared:
            # the second grid is a t2grid under edit like any other until it is added / embedded
            v = inv_violations(st.other)
            if v:
                self.other_ok = False
                if self.consistent and dom and self.fail is None: self.fail = (t, key, v)
        if self.consistent:
            v = inv_violations(st.main)
            if v:
                self.consistent = False
                if dom:
                    if self.fail is None: self.fail = (t, key, v)
                else: self.domain_exits.append(key)
            elif self.strong and not rock_identity_ok(st.main):
                self.strong = False; self.strong_breaks += 1
            self.now_ok = not v
            return self.now_ok
        # after the first break: only the verdict, for the comparison with the model's and for `catches`
        self.now_ok = not inv_violations(st.main, limit=1)
        return self.now_ok


def is_dual(ops):
    return any(o[0] in TWO_GRID for o in ops)


def do_step(w, st, op, t, dual, hash_mode, cls=None):
    """one edit on the real grid(s): (observation, exception class or None, whether the sequence ends here).
    A refused edit (exception) of a consistent grid does not end the sequence: the grid is dumped and the statement is
    evaluated on what the refused edit left behind (finding key <method>:refused-call), and the caller goes on."""
    dom, key = cls if cls is not None else w.before(st, op)
    caught = w.catches(st, op)
    try:
        apply_op(st, op)
    except Exception as e:
        name = exn_name(e)
        if not caught: return 'E:' + name, name, True
        if key: key = key.split(':')[0] + ':refused-call'
        ok = w.after(st, op, t, dom, key)
        d = dump_st(st, dual)
        return 'E:%s@%s' % (name, adler(d) if hash_mode else d if ok else d + '!'), name, False
    ok = w.after(st, op, t, dom, key)
    d = dump_st(st, dual)
    return (adler(d) if hash_mode else d if ok else d + '!'), None, False


def run_impl_sequence(st, ops, hash_mode=False, dual=None):
    """Apply `ops` to the real grid(s) `st`; after each step record the canonical dump and evaluate the
    statement (also after a refused edit, see do_step)."""
    out = Outcome()
    if dual is None: dual = is_dual(ops) or st.other is not None
    w = Watch(st)
    for t, op in enumerate(ops):
        o, err, stop = do_step(w, st, op, t, dual, hash_mode)
        out.obs.append(o)
        if stop:
            out.error = (t, err); break
        out.steps += 1
        if err: out.refused.append(err)
    out.fail, out.domain_exits, out.strong_rock_breaks = w.fail, w.domain_exits, w.strong_breaks
    return out


def build_seed(ops, universe=None):
    T = _impl()
    st = St(T.t2grid(), universe=universe)
    for op in ops: apply_op(st, op)
    return st


def seed_state(name):
    return build_seed(SEEDS[name], SEED_UNIVERSE.get(name))


# ----------------------------------------------------------------------------------------------
# exhaustive sweep: state-dependent alphabet
def injective_maps(present, universe):
    """all maps from a non-empty subset of `present` to `universe`, without identity entries, one-to-one,
    and not colliding with an unrenamed present name"""
    res = []
    for r in range(1, len(present) + 1):
        for keys in itertools.combinations(present, r):
            unren = set(present) - set(keys)
            targets = [u for u in universe if u not in unren]
            for vals in itertools.permutations(targets, r):
                if any(k == v for k, v in zip(keys, vals)): continue
                res.append(tuple(zip(keys, vals)))
    return res


def alphabet(st, n):
    """the edits tried at a node of the exhaustive tree whose current state is `st` (n: a running
    number used to alternate the equivalent call forms)"""
    g = st.main
    U = st.universe
    ops = []
    present = list(dict.fromkeys(b.name for b in g.blocklist))
    absent = [u for u in U if u not in g.block]
    for r in RK: ops.append(('ar', r))
    for r in RK: ops.append(('dr', r))
    ops.append(('cr',))
    ops.append(('rr', RK[0], RK[1])); ops.append(('rr', RK[1], RK[0])); ops.append(('rr', RK[0], 'rock3'))
    for u in U:
        for r in RK: ops.append(('ab', u, r))
    for u in present + absent[:1]: ops.append(('db', u))
    for u in present + absent[:1]: ops.append(('dm', (u,), (n + len(ops)) % 2))
    if len(present) >= 2: ops.append(('dm', (present[1], present[0]), 0))
    for a in present:
        for b in present:
            if a != b or a == present[0]: ops.append(('ac', a, b))
    if absent and present: ops.append(('ac', present[0], absent[0]))
    if not present: ops.append(('ac', U[0], U[1]))
    keys = list(g.connection.keys())
    for c in keys:
        ops.append(('dc', c[0], c[1]))
        if (c[1], c[0]) not in g.connection: ops.append(('dc', c[1], c[0]))
    if not keys: ops.append(('dc', U[0], U[1]))
    # renames: every one-to-one map on the universe that does not collide with an unrenamed block
    k = 0
    fixu = any(py_fix_name(u) != u for u in U)
    for m in injective_maps(present, U):
        k += 1
        if fixu:
            # names that fix_blockname rewrites: both call forms, and the map written in the (a3, i2) spelling of the names
            ops.append(('rn', m, 0)); ops.append(('rn', m, 1))
            um = tuple((py_unfix_name(a), py_unfix_name(b)) for a, b in m)
            if um != m: ops.append(('rn', um, 1))
        else: ops.append(('rn', m, (n + k) % 2))
    ops.append(('rn', (), 0))
    if absent: ops.append(('rn', ((absent[0], U[0]),), 1))
    if len(present) >= 2:        # outside the quantifier (kept for the model/implementation comparison)
        ops.append(('rn', ((present[0], present[1]),), 0))
        ops.append(('rn', ((present[0], U[3]), (present[1], U[3])), 0))
    # reorders: permutations of the blocks; permutations of the connections with reversals
    if 2 <= len(present) <= 3: perms = list(itertools.permutations(present))[1:]
    elif len(present) > 3: perms = [tuple(present[1:] + present[:1]), tuple(reversed(present)), tuple([present[1], present[0]] + present[2:])]
    else: perms = []
    for p in perms: ops.append(('ro', p, ()))
    if keys:
        rev = lambda c: (c[1], c[0])
        cperms = list(itertools.permutations(keys)) if len(keys) <= 3 else [tuple(keys), tuple(reversed(keys)), tuple(keys[1:] + keys[:1])]
        for cp in cperms:
            ops.append(('ro', (), cp))
            ops.append(('ro', (), (rev(cp[0]),) + cp[1:]))
        ops.append(('ro', (), tuple(rev(c) for c in keys)))
        if perms: ops.append(('ro', perms[0], tuple(rev(c) for c in reversed(keys))))
        if len(keys) >= 2: ops.append(('ro', (), tuple(keys[:-1])))                   # drops one (outside)
    if len(present) >= 2: ops.append(('ro', tuple(present[:-1]), ()))                 # drops one (outside)
    if present: ops.append(('ro', (present[0], 'zzzzz'), ()))                         # unknown name
    # calls that are refused half way: the caller catches the exception and goes on with the grid
    if keys and present: ops.append(('ro', (), ((keys[0][1], keys[0][0]), ('zzzzz', present[0]))))   # one reversal, then an unknown pair
    if len(present) >= 2: ops.append(('dm', (present[-1], 'zzzzz', present[0]), 0))                    # one demotion, then an unknown name
    if st.other is not None:
        # grid-combining edits (two-grid start grids only): minc in its call forms, both sums, embed with the grids'
        # own block objects / with foreign objects of the same names / refused (too big, unknown block)
        inel = inel_names(g)
        ops.append(('mi', 'dd', 1, (), inel, n % 2))
        if present:
            ops.append(('mi', 'dd', 2, (present[0],), inel, 2 * (n % 2)))
            ops.append(('mi', 'zi', 1, tuple(present[:2]), inel, 0))        # custom naming: both blocks get matrix block '1zz 1'
            ops.append(('mi', 'km', 1, (present[-1], 'zzzzz'), inel, 0))    # unknown block after a good one
        ops.append(('mi', 'dd', 0, (), inel, 0))                            # one volume fraction: refused
        if present: ops.append(('mi', 'dm', 2, (present[0], present[0]), inel, 0))   # refused in the second pass, after a full first one
        ops.append(('ad', 0)); ops.append(('ad', 1))
        onames = [b.name for b in st.other.blocklist]
        if present and onames:
            for mode in ('o', 'f'):
                op = ('em', mode, present[0], onames[0])
                ops.append(op + (subgrid_fits(st, op),))
            op = ('em', 'o', present[-1], onames[-1])
            ops.append(op + (subgrid_fits(st, op),))
            if len(present) >= 3:
                op = ('em', 'f', present[1], onames[-1])
                ops.append(op + (subgrid_fits(st, op),))
            op = ('em', 'f', present[0], 'zzzzz')                           # the connection names a block of neither grid
            ops.append(op + (subgrid_fits(st, op),))
    return ops


class Stats(object):
    def __init__(self):
        self.seq = 0; self.steps = 0
        self.opk = Counter(); self.errk = Counter(); self.endk = Counter(); self.lens = Counter()
        self.keys = Counter(); self.domain_exits = Counter(); self.strong_rock = 0
        self.fail = {}            # key -> (case, step, violations)
        self.failn = Counter()
        self.disagree = []; self.ndis = 0
        self.distinct = []        # line digests
        self.samples = []
        self.inv_held = 0
        self.lines_compared = 0

    def merge(self, o):
        self.lines_compared += o.lines_compared
        self.seq += o.seq; self.steps += o.steps; self.strong_rock += o.strong_rock; self.ndis += o.ndis; self.inv_held += o.inv_held
        for a in ('opk', 'errk', 'endk', 'lens', 'keys', 'domain_exits', 'failn'): getattr(self, a).update(getattr(o, a))
        for k, v in o.fail.items():
            if k not in self.fail or len(v[0]['ops']) < len(self.fail[k][0]['ops']): self.fail[k] = v
        self.disagree += o.disagree[:max(0, 20 - len(self.disagree))]
        self.distinct += o.distinct
        self.samples += o.samples[:max(0, 6 - len(self.samples))]


def record(stats, case, ops_run, out, line):
    """bookkeeping for one sequence run on the implementation"""
    stats.seq += 1; stats.steps += out.steps
    stats.lens[len(ops_run)] += 1
    for op in ops_run[:out.steps + (1 if out.error else 0)]: stats.opk[op[0]] += 1
    for e in out.refused: stats.errk[e] += 1
    if out.refused: stats.endk['sequences-with-a-refused-edit-that-went-on'] += 1
    if out.error:
        stats.errk[out.error[1]] += 1; stats.endk['ends-in-' + out.error[1]] += 1
    else: stats.endk['completes'] += 1
    for k in out.domain_exits: stats.domain_exits[k] += 1
    stats.strong_rock += out.strong_rock_breaks
    if out.fail:
        t, key, v = out.fail
        stats.failn[key] += 1
        c = dict(case); c['ops'] = [list(o) for o in case['ops'][:t + 1]]
        if key not in stats.fail or len(c['ops']) < len(stats.fail[key][0]['ops']): stats.fail[key] = (c, t, v)
    else: stats.inv_held += 1
    stats.distinct.append(zlib.crc32(line.encode()) ^ (len(line) << 32))


def wait_driver(exe):
    """the sweeps start while Coq is still compiling: `exe` is then (path, flag file); the flag file appears with
    'ok' or 'fail' in it when the extracted driver has been built (or could not be: recorded by the builder)"""
    if not exe or isinstance(exe, str): return exe
    path, flag = exe
    t0 = time.time()
    while not os.path.exists(flag):
        if time.time() - t0 > 2400: raise RuntimeError('the extracted model driver did not appear')
        time.sleep(0.25)
    with open(flag) as f: return path if f.read().strip() == 'ok' else None


def compare(stats, cname, exe, lines, cases, expects):
    if not lines or not exe: return          # exe None: oracle-only sweep (deep search)
    exe = wait_driver(exe)
    if not exe: return                       # the model did not build: a proof failure is on record, the oracle goes on
    outs = vf.run_driver(exe, lines, shards=1)
    stats.lines_compared += len(lines)
    for l, c, e, o in zip(lines, cases, expects, outs):
        if o != e:
            stats.ndis += 1
            if len(stats.disagree) < 20:
                mo, im = o.split('|'), e.split('|')
                i = 0
                while i < min(len(mo), len(im)) and mo[i] == im[i]: i += 1
                if isinstance(c, tuple): c, i = c[0], c[1] + i      # a line that prints only the steps from c[1] on
                stats.disagree.append({'corr': cname, 'case': c, 'first_differing_step': i,
                                       'model': (mo[i] if i < len(mo) else '<no more steps>')[:1500],
                                       'impl': (im[i] if i < len(im) else '<no more steps>')[:1500]})


def exhaustive_worker(args):
    """enumerate every sequence of exactly `depth` edits (or shorter when an edit raises) below some
    first-level branches of one start grid; every prefix is observed after every step.  A node of the
    tree re-executes its prefix on a fresh start grid (the real object cannot be cloned cheaply) but
    dumps and checks only the step it adds: its ancestors did the earlier ones.  Likewise the model is
    asked, per node, for the observation of the last step only (one driver line per node of the tree):
    every step of every sequence is compared, once."""
    seedname, depth, first_idx, exe = args
    stats = Stats()
    seed_ops = SEEDS[seedname]
    k = len(seed_ops)
    dual = is_dual(seed_ops)
    mode = 'D' if dual else 'F'
    seed_encs = [encode_op(o) for o in seed_ops]
    head = [mode + str(k)] + seed_encs
    lines, cases, expects = [], [], []

    def flush():
        compare(stats, 'exhaustive', exe, lines, cases, expects)
        del lines[:], cases[:], expects[:]

    def leaf(ops, encs, obs, w, error, refused):
        out = Outcome()
        out.obs, out.error, out.steps, out.refused = obs, error, len(ops) - (1 if error else 0), refused
        out.fail, out.domain_exits, out.strong_rock_breaks = w.fail, w.domain_exits, w.strong_breaks
        case = {'init': {'kind': 'seed', 'name': seedname}, 'ops': [list(o) for o in ops]}
        record(stats, case, ops, out, '\t'.join(head + encs))
        if len(stats.samples) < 3 and len(ops) == depth and not error and stats.seq % 97 == 3:
            stats.samples.append({'start': seedname, 'ops': [list(o) for o in ops], 'final_dump': obs[-1]})
        if len(lines) >= 20000: flush()

    def ask(prefix, encs, expected):
        """one driver line: the whole sequence, of which only the last step is printed"""
        lines.append('\t'.join([mode + str(k + len(prefix) - 1)] + seed_encs + encs))
        cases.append(({'init': {'kind': 'seed', 'name': seedname}, 'ops': [list(o) for o in prefix]}, len(prefix) - 1))
        expects.append(expected)

    def node(prefix, encs, obs, w, refused):
        st = build_seed(seed_ops, SEED_UNIVERSE.get(seedname))
        for op in prefix[:-1]:
            try: apply_op(st, op)
            except Exception: pass                      # a refused edit after which the parent node went on
        if prefix:
            op, t = prefix[-1], len(prefix) - 1
            w = w.copy()
            o, err, stop = do_step(w, st, op, t, dual, False)
            obs = obs + [o]
            ask(prefix, encs, o)
            if err and not stop: refused = refused + [err]
            if stop or len(prefix) == depth:
                leaf(prefix, encs, obs, w, (t, err) if stop else None, refused); return
        else:
            w = Watch(st)
        alpha = alphabet(st, len(prefix))
        if not prefix:
            alpha = [alpha[i] for i in first_idx if i < len(alpha)]
        for op in alpha: node(prefix + [op], encs + [encode_op(op)], obs, w, refused)

    node([], [], [], None, [])
    flush()
    return stats


def n_first_level(seedname):
    return len(alphabet(seed_state(seedname), 0))


# ----------------------------------------------------------------------------------------------
# random sweep on grids built from geometries
LETTERS = 'abcdefghijklmnopqrstuvwxyz'


def fresh_name(rng, taken):
    while True:
        if rng.random() < 0.2:
            # a digit in the third place: names in whose (a3, i2) spelling fix_blockname has something to do ('qk3 7' <-> 'qk307')
            n = rng.choice(LETTERS) + rng.choice(LETTERS) + rng.choice('123456789') + rng.choice(['0', '0', ' ', '1']) + rng.choice('0123456789')
        else:
            n = rng.choice(['  ', ' ', 'q', 'zz'])
            n = (n + ''.join(rng.choice(LETTERS) for _ in range(3 - len(n))) + rng.choice([' 1', ' 7', '12', '99', ' 0']))[:5]
        if n not in taken: return n


def make_geo_grid(params):
    from mulgrids import mulgrid
    T = _impl()
    nx, ny, nz, at = params
    geo = mulgrid().rectangular([10.] * nx, [12.] * ny, [5.] * nz, atmos_type=at)
    return geo, T.t2grid().fromgeo(geo)


def grid_as_ops(g):
    """the edits that rebuild this grid from an empty one (exactly what fromgeo did: add_rocktype,
    add_block, add_connection in list order)"""
    ops = [('ar', r.name) for r in g.rocktypelist]
    ops += [('ab', b.name, b.rocktype.name) for b in g.blocklist]
    ops += [('ac', c.block[0].name, c.block[1].name) for c in g.connectionlist]
    return ops


PROFILES = {   # p_invalid: malformed / failing call; p_defect: calls in the classes that are known or candidate findings
    'clean': {'p_invalid': 0.0, 'p_defect': 0.0},
    'mixed': {'p_invalid': 0.01, 'p_defect': 0.04},
    'hostile': {'p_invalid': 0.07, 'p_defect': 0.15},
}


def other_grid(params, prefix, scale):
    """the second grid of a two-grid case: a small fromgeo grid whose blocks are renamed (no name in common with
    the main grid unless `prefix` is empty) and shrunk so that it fits into a block of the main grid"""
    _, o = make_geo_grid(params)
    if prefix:
        m = dict((b.name, prefix + b.name[len(prefix):]) for b in o.blocklist)
        if len(set(m.values())) == len(m): o.rename_blocks(m, fix_blocknames=False)
    for b in o.blocklist: b.volume = b.volume * scale
    return o


def random_combine_op(rng, st, prof):
    """minc / __add__ / embed / an edit of the second grid (two-grid cases only)"""
    g, o = st.main, st.second()
    names = [b.name for b in g.blocklist]
    k = rng.choice(['mi'] * 5 + ['ad'] * 2 + ['em'] * 4 + ['x'] * 2)
    if k == 'mi':
        inel = inel_names(g)
        naming = rng.choice(['dd'] * 5 + ['kd', 'dm', 'di', 'km', 'zd'])
        levels = rng.choice([1, 1, 2, 2, 3, 4, 0] if rng.random() < prof['p_invalid'] + 0.02 else [1, 1, 2, 2, 3, 4])
        style = rng.choice(['all', 'some', 'some', 'some', 'twice', 'unknown'] if len(names) <= 40 else ['some', 'some', 'some', 'twice'])
        if style == 'all' or not names: sel = ()
        else:
            sel = tuple(rng.sample(names, min(len(names), rng.choice([1, 2, 3, 6]))))
            if style == 'twice': sel = sel + sel[:1]
            if style == 'unknown' and rng.random() < 0.5: sel = sel + ('nope1',)
        return ('mi', naming, levels, sel, inel, rng.randint(0, 2))
    if k == 'ad': return ('ad', rng.randint(0, 1))
    if k == 'em':
        onames = [b.name for b in o.blocklist]
        if not names or not onames: return ('ad', 0)
        sub = sum(b.volume for b in o.blocklist)
        hosts = [b.name for b in g.blocklist if sub < b.volume < ATMOS] or names
        op = ('em', rng.choice(['o', 'f', 'f']), rng.choice(hosts if rng.random() < 0.85 else names), rng.choice(onames))
        if rng.random() < prof['p_invalid']: op = op[:3] + ('nope2',)
        return op + (subgrid_fits(st, op),)
    # an edit of the second grid: builds it further before a sum; afterwards it edits shared objects (outside the
    # quantifier, but the model must still agree with the implementation on what happens to BOTH grids)
    onames = [b.name for b in o.blocklist]
    rocks = [r.name for r in o.rocktypelist]
    kk = rng.choice(['ab', 'ac', 'db', 'rn', 'dc'])
    if kk == 'ab' and rocks: return ('x', ('ab', fresh_name(rng, set(o.block) | set(g.block)), rng.choice(rocks), 1.0))
    if kk == 'ac' and len(onames) >= 2: return ('x', ('ac',) + tuple(rng.sample(onames, 2)))
    if kk == 'db' and onames: return ('x', ('db', rng.choice(onames)))
    if kk == 'dc' and o.connection: return ('x', ('dc',) + rng.choice(list(o.connection.keys())))
    if kk == 'rn' and onames: return ('x', ('rn', ((rng.choice(onames), fresh_name(rng, set(o.block) | set(g.block))),), 0))
    return ('x', ('cr',))


def random_op(rng, st, geo_lists, prof):
    """one edit, biased towards calls that do something on the current grid"""
    if st.other is not None and rng.random() < 0.18: return random_combine_op(rng, st, prof)
    g = st.main
    names = list(dict.fromkeys(b.name for b in g.blocklist))
    rocks = [r.name for r in g.rocktypelist]
    keys = list(g.connection.keys())
    valid = rng.random() >= prof['p_invalid']
    defect = rng.random() < prof['p_defect']
    kinds = ['ab'] * 12 + ['db'] * 7 + ['ac'] * 14 + ['dc'] * 8 + ['rn'] * 11 + ['ro'] * 6 + ['dm'] * 6 + \
            ['ar'] * 5 + ['dr'] * 3 + ['cr'] * 3 + ['rr'] * 4
    k = rng.choice(kinds)
    pick = lambda l, d: rng.choice(l) if l else d
    if k == 'ar':
        if defect and rocks: return ('ar', rng.choice(rocks))                 # replaces a rock type (possibly in use)
        unused = [r for r in rocks if not any(b.rocktype.name == r for b in g.blocklist)]
        if unused and rng.random() < 0.2: return ('ar', rng.choice(unused))   # replaces an unused one
        return ('ar', 'rk%03d' % rng.randint(0, 999))
    if k == 'dr':
        if valid and not defect:
            unused = [r for r in rocks if not any(b.rocktype.name == r for b in g.blocklist)]
            if unused: return ('dr', rng.choice(unused))
            return ('cr',)
        return ('dr', pick(rocks, 'nope ') if rng.random() < 0.7 else 'nope ')
    if k == 'cr': return ('cr',)
    if k == 'rr':
        a = pick(rocks, 'nope ') if valid or rng.random() < 0.5 else 'nope '
        b = 'rn%03d' % rng.randint(0, 999) if valid or rng.random() < 0.5 else pick(rocks, 'dfalt')
        return ('rr', a, b)
    if k == 'ab':
        r = pick(rocks, 'dfalt') if valid or rng.random() < 0.6 else 'nope '
        loose = [b.name for b in g.blocklist if not b.connection_name]
        if defect and names: n = rng.choice(names)
        elif loose and rng.random() < 0.12: n = rng.choice(loose)
        else: n = fresh_name(rng, g.block)
        return ('ab', n, r)
    if k == 'db': return ('db', pick(names, 'nope1') if valid or rng.random() < 0.5 else 'nope1')
    if k == 'dm':
        if not names or not valid and rng.random() < 0.5: return ('dm', ('nope1',), rng.randint(0, 1))
        c = rng.sample(names, min(len(names), rng.choice([1, 1, 2, 3, 5])))
        return ('dm', tuple(c), rng.randint(0, 1))
    if k == 'ac':
        if len(names) < 2 or not valid and rng.random() < 0.4: return ('ac', pick(names, 'nope1'), 'nope2')
        a, b = rng.sample(names, 2)
        if rng.random() < 0.08 and keys: a, b = rng.choice(keys)          # duplicate key: replace
        elif rng.random() < 0.05 and keys: b, a = rng.choice(keys)        # reverse of an existing one
        elif not valid and rng.random() < 0.3: b = a                      # self connection
        return ('ac', a, b)
    if k == 'dc':
        if keys and (valid or rng.random() < 0.5):
            c = rng.choice(keys)
            return ('dc', c[0], c[1]) if valid or rng.random() < 0.5 else ('dc', c[1], c[0])
        return ('dc', pick(names, 'nope1'), pick(names, 'nope2'))
    if k == 'rn':
        if not names: return ('rn', (('nope1', 'nope2'),), rng.randint(0, 1))
        style = rng.choice(['collide', 'noninj', 'fresh'] if not valid else ['swap', 'cycle', 'chain'] if defect else
                           ['fresh', 'fresh', 'fresh', 'all-fresh', 'absent-keys', 'to-deleted'])
        nk = len(names) if style == 'all-fresh' else min(len(names), rng.choice([1, 2, 2, 3, 4, 6, 10]))
        ks = rng.sample(names, nk)
        taken = set(g.block)
        if style in ('fresh', 'all-fresh'):
            m = []
            for x in ks:
                v = fresh_name(rng, taken); taken.add(v); m.append((x, v))
        elif style == 'swap' and nk >= 2: m = [(ks[0], ks[1]), (ks[1], ks[0])]
        elif style == 'cycle' and nk >= 2: m = [(ks[i], ks[(i + 1) % nk]) for i in range(nk)]
        elif style == 'chain' and nk >= 2:
            v = fresh_name(rng, taken)
            m = [(ks[i], ks[i + 1]) for i in range(nk - 1)] + [(ks[-1], v)]
            rng.shuffle(m)
        elif style == 'to-deleted':          # targets that are keys of the map for blocks no longer in the grid
            v = fresh_name(rng, taken); m = [(ks[0], v), ('nope1', 'nope2')]
        elif style == 'absent-keys':
            v = fresh_name(rng, taken); taken.add(v)
            m = [('nope1', fresh_name(rng, taken)), (ks[0], v)]
        elif style == 'collide' and len(names) > nk:
            other = rng.choice([n for n in names if n not in ks])
            m = [(ks[0], other)]
        elif style == 'noninj' and nk >= 2:
            v = fresh_name(rng, taken); m = [(ks[0], v), (ks[1], v)]
        else:
            v = fresh_name(rng, taken); m = [(ks[0], v)]
        fixf = rng.randint(0, 1)
        if fixf and rng.random() < 0.35:
            # the map written in the (a3, i2) spelling, as rename_blocks(fix_blocknames=True) accepts it
            m = [(py_unfix_name(a), py_unfix_name(b)) for a, b in m]
        return ('rn', tuple(m), fixf)
    if k == 'ro':
        style = rng.choice(['b', 'c', 'bc', 'geo'] if valid else ['subset', 'unknown', 'dup'])
        bns, cns = (), ()
        if style == 'geo' and geo_lists is not None:
            gb, gc = geo_lists
            if sorted(gb) == sorted(names) and Counter(tuple(sorted(c)) for c in gc) == Counter(tuple(sorted(c)) for c in keys):
                return ('ro', tuple(gb), tuple(tuple(c) for c in gc))
            style = 'bc'
        if style in ('b', 'bc', 'geo'):
            p = list(names); rng.shuffle(p); bns = tuple(p)
        if style in ('c', 'bc', 'geo'):
            p = list(keys); rng.shuffle(p)
            fr = rng.choice([0.0, 0.1, 0.5, 1.0])
            q = []
            for c in p:
                if rng.random() < fr and (c[1], c[0]) not in g.connection: c = (c[1], c[0])
                q.append(c)
            cns = tuple(q)
        if style == 'subset': bns = tuple(names[:-1]) if len(names) > 1 else ('nope1',)
        if style == 'unknown': cns = tuple(keys[:2]) + (('nope1', 'nope2'),)
        if style == 'dup': bns = tuple(names + names[:1])
        return ('ro', bns, cns)
    return ('cr',)


def random_case_start(rng, sizes):
    """start of one random case: (init record, St, geometry lists)"""
    size = rng.choice(sizes)
    if size == 'small': params = (rng.randint(1, 3), rng.randint(1, 2), rng.randint(1, 3), rng.choice([0, 1, 2]))
    elif size == 'medium': params = (rng.randint(2, 5), rng.randint(2, 4), rng.randint(1, 3), rng.choice([0, 1, 2]))
    else:
        at = rng.choice([0, 1, 2])
        while True:
            params = (rng.randint(4, 8), rng.randint(4, 8), rng.randint(2, 5), at)
            nb = params[0] * params[1] * params[2] + (1 if at == 0 else params[0] * params[1] if at == 1 else 0)
            if 100 <= nb <= 200: break
    init = {'kind': 'geo', 'params': list(params)}
    if rng.random() < 0.3:
        # a two-grid case: minc / __add__ / embed are in the alphabet
        init['other'] = [[rng.randint(1, 2), rng.randint(1, 2), rng.randint(1, 3), rng.choice([0, 2, 2])],
                         rng.choice(['Q', 'zz', 'K9', 'Q', '']), rng.choice([1e-3, 1e-3, 1e-5, 1.0])]
        nzero = rng.choice([0, 0, 1, 2])
        geo, g = make_geo_grid(params)
        init['zero_volume'] = sorted(rng.sample([b.name for b in g.blocklist], min(nzero, len(g.blocklist))))
    return init


def random_worker(args):
    seed, ncases, maxlen, exe, sizes = args
    rng = random.Random(seed)
    stats = Stats()
    lines, cases, expects = [], [], []
    for ci in range(ncases):
        init = random_case_start(rng, sizes)
        params = tuple(init['params'])
        geo, st = start_state(init, with_geo=True)
        g = st.main
        dual = st.other is not None
        geo_lists = (list(geo.block_name_list), [tuple(c) for c in geo.block_connection_name_list])
        prefix = grid_as_ops(g) + ([('x', o) for o in grid_as_ops(st.other)] if dual else [])
        nblk = len(g.blocklist)
        hash_mode = nblk > 24
        n = rng.randint(1, maxlen) if rng.random() < 0.3 else maxlen
        # the ops are generated while the implementation executes them (the generator looks at the current grid)
        out = Outcome()
        ops = []
        d0 = dump_st(st, dual)
        w = Watch(st)
        out.obs.append(adler(d0) if hash_mode else d0 if w.consistent else d0 + '!')          # the state the prefix must rebuild
        profname = rng.choice(['clean'] * 6 + ['mixed'] * 3 + ['hostile'] * 1)
        prof = PROFILES[profname]
        stats.lens['profile:' + profname] += 1
        if dual: stats.lens['two-grid cases'] += 1
        for t in range(n):
            op = random_op(rng, st, geo_lists if t < 3 else None, prof)
            if any(not NAME_OK.match(x) for x in op_names(op)): continue
            if op[0] == 'mi' and len(st.main.blocklist) > 400: continue      # keep MINC'd grids from growing without bound
            ops.append(op)
            cls = w.before(st, op)
            if w.consistent: stats.keys[cls[1]] += 1
            o, err, stop = do_step(w, st, op, len(ops) - 1, dual, hash_mode, cls)
            out.obs.append(o)
            if stop:
                out.error = (len(ops) - 1, err); break
            out.steps += 1
            if err: out.refused.append(err)
        out.fail, out.domain_exits, out.strong_rock_breaks = w.fail, w.domain_exits, w.strong_breaks
        case = {'init': init, 'ops': [list(o) for o in ops]}
        line = '%s%d\t' % ({(0, 0): 'F', (0, 1): 'H', (1, 0): 'D', (1, 1): 'E'}[(int(dual), int(hash_mode))], len(prefix) - 1) + \
               '\t'.join(encode_op(o) for o in prefix + ops)
        record(stats, case, ops, out, line)
        stats.lens['blocks:%d' % (10 * (nblk // 10))] += 1
        lines.append(line); cases.append(case); expects.append('|'.join(out.obs))
        if ci % 4 == 1:
            # isolation: the same edits on a second, newly built start grid, in a process that has by now created and edited many
            # other grids, must be observed exactly as the first time (no state kept between calls or shared between objects)
            stats.lens['replayed on a fresh grid later in the same process'] += 1
            out2 = run_impl_sequence(start_state(init), ops, hash_mode, dual)
            if out2.obs != out.obs[1:]:
                i = 0
                while i < min(len(out2.obs), len(out.obs) - 1) and out2.obs[i] == out.obs[i + 1]: i += 1
                stats.failn['isolation:second-run-differs'] += 1
                stats.fail.setdefault('isolation:second-run-differs', (dict(case, ops=[list(o) for o in ops[:i + 1]], replay_twice=True), i,
                                      ['the same edits on an identically built grid gave a different grid the second time (edit %d)' % i]))
        if len(stats.samples) < 2 and nblk <= 8 and len(ops) >= 5:
            stats.samples.append({'start': 'fromgeo(rectangular %dx%dx%d, atmos_type %d): %d blocks' % (params + (nblk,)) +
                                  (' + a second grid of %d blocks' % len(st.second().blocklist) if dual else ''),
                                  'ops': [list(o) for o in ops[:8]], 'n_ops': len(ops), 'ended': out.error[1] if out.error else 'completed'})
    compare(stats, 'random-on-fromgeo-grids', exe, lines, cases, expects)
    return stats


# ----------------------------------------------------------------------------------------------
def shrink_failure(case, key):
    """greedy delta-debugging of a failing op list (same finding key)"""
    ops = [tuple(_t(o)) for o in case['ops']]

    def fails(ops_):
        try: st = start_state(case['init'])
        except Exception: return False
        out = run_impl_sequence(st, ops_)
        return out.fail is not None and out.fail[1] == key
    i = 0
    budget = 300
    while i < len(ops) - 1 and budget > 0:
        budget -= 1
        trial = ops[:i] + ops[i + 1:]
        if fails(trial): ops = trial
        else: i += 1
    c = dict(case); c['ops'] = [list(o) for o in ops]
    return c


def _t(o):
    """JSON round trip turns tuples into lists: restore the nesting apply_op expects"""
    o = list(o)
    if o[0] == 'x': o[1] = _t(o[1])
    elif o[0] == 'mi': o[3] = tuple(o[3]); o[4] = tuple(o[4])
    elif o[0] == 'rn': o[1] = tuple(tuple(kv) for kv in o[1])
    elif o[0] == 'ro': o[1] = tuple(o[1]); o[2] = tuple(tuple(c) for c in o[2])
    elif o[0] == 'dm': o[1] = tuple(o[1])
    return tuple(o)


def start_state(init, with_geo=False):
    if init['kind'] == 'seed':
        st = seed_state(init['name'])
        return (None, st) if with_geo else st
    if init['kind'] == 'geo':
        geo, g = make_geo_grid(tuple(init['params']))
        st = St(g)
        if 'other' in init:
            p2, prefix, scale = init['other']
            st.other = other_grid(tuple(p2), prefix, scale)
            for n in init.get('zero_volume', []): g.block[n].volume = 0.0
        return (geo, st) if with_geo else st
    raise RuntimeError('unknown start %r' % (init,))


REQUIRED = ('by-name lookups and ordered lists hold the same objects under unique names; every connection joins two blocks of '
            'the grid and is filed under the pair of their current names; each block.connection_name is exactly the set of '
            'connections mentioning it; every block.rocktype.name is registered')


SHARDS = 16      # fixed: the cases generated do not depend on the number of processes


def sweep(ctx, exe, plan_exh, n_random, maxlen, sizes, label='', meanwhile=None):
    """run the exhaustive and random sweeps (sharded over <= 8 processes); exe may be None (oracle only);
    `meanwhile` runs in this process while the workers are busy"""
    import multiprocessing as mp
    jobs = []
    for seedname, depth in plan_exh:
        nf = n_first_level(seedname)
        nshard = min(SHARDS if depth >= 3 else 4, nf)
        for s in range(nshard):
            jobs.append(('e', depth, (seedname, depth, list(range(s, nf, nshard)), exe)))
    per = max(1, (n_random + SHARDS - 1) // SHARDS)
    nj = (n_random + per - 1) // per
    for j in range(nj):
        jobs.append(('r', 2.5, (ctx.rng.getrandbits(48), min(per, n_random - j * per), maxlen, exe, sizes)))
    jobs.sort(key=lambda j: -j[1])          # the long jobs first (stable: the order is deterministic)
    total = {'e': Stats(), 'r': Stats()}
    with mp.Pool(JOBS) as pool:
        res = [(kind, pool.apply_async(exhaustive_worker if kind == 'e' else random_worker, (a,))) for kind, _, a in jobs]
        if meanwhile is not None: meanwhile()
        for kind, r in res: total[kind].merge(r.get(timeout=7200))
    exe = wait_driver(exe)
    for kind, cname, oname in (('e', 'exhaustive-short-sequences', 'Inv-after-every-step(exhaustive)'),
                               ('r', 'random-sequences-on-fromgeo-grids', 'Inv-after-every-step(random)')):
        st = total[kind]
        if not st.seq: continue
        if exe:
            ctx.corr_cases(cname + label, st.seq, steps_compared=st.steps, driver_lines=st.lines_compared, op_kinds=dict(st.opk), error_kinds=dict(st.errk),
                           endings=dict(st.endk), lengths={str(k): v for k, v in sorted(st.lens.items(), key=lambda kv: str(kv[0]))})
            for d in st.disagree: ctx.disagreement(cname + label, d['case'], 'step %d: %s' % (d['first_differing_step'], d['model']), d['impl'])
            extra = st.ndis - len(st.disagree)
            if extra > 0: ctx.corr[cname + label]['n_disagreements'] = ctx.corr[cname + label].get('n_disagreements', 0) + extra
        ctx.oracle_cases(oname + label, st.seq, steps_checked=st.steps, sequences_consistent_throughout=st.inv_held,
                         edits_outside_the_quantifier_that_broke_consistency=dict(st.domain_exits),
                         first_breaks_by_finding_key=dict(st.failn),
                         steps_where_a_block_rocktype_object_is_not_the_registered_one=st.strong_rock,
                         edit_classes=dict(st.keys))
        ctx.evaluations += st.seq
        ctx.distinct.update(st.distinct)
        for s in st.samples: ctx.sample(s)
        for key, (case, t, v) in sorted(st.fail.items()):
            if case['init']['kind'] == 'geo' and len(case['ops']) > 3:
                try: case = shrink_failure(case, key)
                except Exception: traceback.print_exc()
            ctx.failure(oname, key, case, '; '.join(v), REQUIRED)
    ctx.log('sweep%s: %d exhaustive + %d random sequences' % (label, total['e'].seq, total['r'].seq))
    return total



# ----------------------------------------------------------------------------------------------
# grid-combining edits that the Coq model does not cover: minc, __add__, embed (oracle only)
def _rename_all(g, prefix):
    """a copy-free way to give a grid names disjoint from another one's: rename every block"""
    m = dict((b.name, (prefix + b.name[len(prefix):])) for b in g.blocklist)
    if len(set(m.values())) == len(m): g.rename_blocks(m, fix_blocknames=False)
    return g


def extended_edits(ctx, n_random):
    """minc / __add__ / embed on real grids built from geometries; the statement is evaluated on the
    grid each of them leaves (or returns) and again after a few follow-up edits.  An edit that raises
    (e.g. minc refusing a duplicate matrix block name) ends the case, as everywhere in this check."""
    import copy
    T = _impl()
    rng = random.Random(ctx.seed * 7919 + 11)
    kinds = Counter()
    ncase = 0

    def check(g, key, inp, what):
        v = inv_violations(g)
        if v:
            ctx.failure('grid-combining-edits', key, inp, '; '.join(v), 'a consistent grid after ' + what)
            return False
        return True

    def follow_up(g, key, inp, what):
        """a few ordinary edits afterwards: a defect that leaves a dangling reference shows up here at the latest"""
        names = [b.name for b in g.blocklist]
        if not names: return
        try:
            victim = rng.choice(names)
            g.delete_block(victim)
            if not check(g, key, dict(inp, then='delete_block %r' % victim), what + ' followed by delete_block'): return
            names = [b.name for b in g.blocklist]
            if len(names) >= 2:
                a, b = rng.sample(names, 2)
                g.rename_blocks({a: b, b: a}, fix_blocknames=False)
                if not check(g, key, dict(inp, then='delete_block %r; swap %r %r' % (victim, a, b)), what + ' followed by delete_block and a swap rename'): return
            perm = list(names); rng.shuffle(perm)
            g.reorder(block_names=perm)
            check(g, key, dict(inp, then='delete_block, swap, reorder'), what + ' followed by delete_block, swap rename and reorder')
        except Exception:
            return

    # ---- minc ------------------------------------------------------------------------------
    fracs = [[0.1, 0.9], [0.05, 0.15, 0.8], [0.02, 0.08, 0.2, 0.7], [5, 15, 80], [0.05, 0.15, 0.2], [0.1, 0.2, 0.3, 0.2, 0.2], [1, 1, 1, 1, 1, 1]]
    for case_i in range(n_random):
        nx, ny, nz, at = rng.randint(1, 4), rng.randint(1, 3), rng.randint(1, 4), rng.randint(0, 2)
        geo, g = make_geo_grid((nx, ny, nz, at))
        names = [b.name for b in g.blocklist]
        mode = rng.choice(['all', 'subset', 'subset', 'collide', 'custom-noninjective', 'twice'])
        vf_ = rng.choice(fracs); planes = rng.randint(1, 3)
        spacing = rng.choice([50., 20., [30., 40., 60.][:planes]])
        inp = {'grid': [nx, ny, nz, at], 'op': 'minc', 'mode': mode, 'volume_fractions': vf_, 'num_fracture_planes': planes, 'spacing': spacing}
        kw = {}
        blocks = None
        if mode == 'subset':
            blocks = rng.sample(names, rng.randint(1, len(names)))
        elif mode == 'collide':
            # rename two blocks so that their default matrix names ('1' + name[1:]) coincide with each other but
            # with no existing block: ' xy z' and '3xy z'
            rock_blocks = [b.name for b in g.blocklist if 0 < b.volume < 1e25]
            if len(rock_blocks) >= 2:
                a, b = rng.sample(rock_blocks, 2)
                tail = ''.join(rng.choice(LETTERS) for _ in range(2)) + ' ' + rng.choice('123456789')
                try: g.rename_blocks({a: ' ' + tail, b: '3' + tail}, fix_blocknames=False)
                except Exception: continue
                blocks = [' ' + tail, '3' + tail] + [n for n in rock_blocks if n not in (a, b)][:rng.randint(0, 2)]
                inp['renamed'] = {a: ' ' + tail, b: '3' + tail}
        elif mode == 'custom-noninjective':
            kw['matrix_blockname'] = lambda name, level: ('%dzz%s' % (level, name[3:]))[:5]
        if blocks is not None: inp['blocks'] = blocks
        ncase += 1; kinds['minc:' + mode] += 1
        ctx.count(('minc', json.dumps(inp, default=str)))
        if inv_violations(g): continue
        try:
            g.minc(vf_, spacing, planes, blocks, **kw)
            if mode == 'twice':
                g.minc(rng.choice(fracs), 35., 1, None, matrix_blockname=lambda name, level: str(level + 4) + name[1:])
        except Exception as e:
            kinds['minc raised ' + type(e).__name__] += 1
            # a refused minc: the caller may catch the exception and keep the grid
            if check(g, 'minc:refused-call', inp, 'a minc call that raised %s' % type(e).__name__): follow_up(g, 'minc:refused-call', inp, 'a refused minc')
            continue
        key = 'minc:matrix-names-collide' if mode in ('collide', 'custom-noninjective') else 'minc:any'
        if check(g, key, inp, 'minc'): follow_up(g, key, inp, 'minc')
    # ---- __add__ and embed ---------------------------------------------------------------------
    for case_i in range(n_random):
        _, g1 = make_geo_grid((rng.randint(1, 3), rng.randint(1, 3), rng.randint(1, 3), rng.randint(0, 2)))
        _, g2 = make_geo_grid((rng.randint(1, 2), rng.randint(1, 2), rng.randint(1, 3), 2))
        _rename_all(g2, rng.choice(['Q', 'zz', 'K9']))
        # the subgrid is made small enough to fit into a host block
        for b in g2.blocklist: b.volume = b.volume * 1e-3
        op = rng.choice(['add', 'embed-own-objects', 'embed-copied-blocks', 'embed-fresh-blocks', 'embed-own-objects'])
        inp = {'op': op, 'host_blocks': len(g1.blocklist), 'sub_blocks': len(g2.blocklist)}
        ncase += 1; kinds[op] += 1
        ctx.count(('combine', case_i, op))
        if inv_violations(g1) or inv_violations(g2): continue
        overlap = set(b.name for b in g1.blocklist) & set(b.name for b in g2.blocklist)
        try:
            if op == 'add':
                res = g1 + g2
                key = 'add_block:replaces-connected-block' if overlap else '__add__:disjoint-names'
            else:
                hosts = [b for b in g1.blocklist if b.volume < 1e25 and b.volume > sum(x.volume for x in g2.blocklist)]
                if not hosts or overlap: continue
                host, sub = rng.choice(hosts), rng.choice(g2.blocklist)
                if op == 'embed-own-objects': blks = [host, sub]
                elif op == 'embed-copied-blocks': blks = [copy.deepcopy(host), copy.deepcopy(sub)]
                else: blks = [T.t2block(host.name, host.volume, host.rocktype), T.t2block(sub.name, sub.volume, sub.rocktype)]
                con = T.t2connection(blks, 1, [1.0, 2.0], 3.0, 0.0)
                inp.update(host=host.name, sub=sub.name)
                res = g1.embed(g2, con)
                key = 'embed:' + op[6:]
                if res is None: continue
        except Exception as e:
            kinds['%s raised %s' % (op, type(e).__name__)] += 1
            check(g1, ('__add__' if op == 'add' else 'embed') + ':refused-call', inp, 'the grid after %s raised %s' % (op, type(e).__name__))
            continue
        if check(res, key, inp, op): follow_up(res, key, inp, op)
    ctx.oracle_cases('grid-combining-edits', ncase, kinds=dict(kinds))
    t2data_renames(ctx, max(60, n_random // 2), rng)


def t2data_renames(ctx, n, rng):
    """t2data.rename_blocks (the data-file level entry point of "renaming blocks": it renames the grid's blocks and re-keys
    initial conditions, generators and history items).  IN the statement: the grid is consistent afterwards and no block is
    lost, for swap / cycle / chain / fresh one-to-one maps, inverted or not, spelled as in the grid or in (a3, i2) form.
    NOT in the statement of C08 (it speaks of the grid only) and therefore only COUNTED, never a failure of this check:
    every generator, initial condition and history item still names a block of the grid and none of them is lost."""
    import t2data as TD
    kinds, companions = Counter(), Counter()
    for ci in range(n):
        nx, ny, nz = rng.randint(1, 3), rng.randint(1, 2), rng.randint(1, 3)
        geo, g = make_geo_grid((nx, ny, nz, rng.choice([0, 2])))
        names = [b.name for b in g.blocklist]
        if len(names) < 2: continue
        if rng.random() < 0.4:       # names that fix_blockname rewrites
            m0 = dict((nm, 'k%s%d0%d' % (LETTERS[i % 26], 1 + i // 26, i % 10)) for i, nm in enumerate(names))
            if len(set(m0.values())) == len(m0): g.rename_blocks(m0, fix_blocknames=False); names = [b.name for b in g.blocklist]
        d = TD.t2data(); d.grid = g
        for i, nm in enumerate(names):
            d.incon[nm] = [None, [1.e5 + i, 20.]]
            if rng.random() < 0.6: d.add_generator(TD.t2generator(name=rng.choice(['wel 1', 'wel 1', 'inj%2d' % i]), block=nm, gx=float(i)))
        d.history_block = rng.sample(names, min(len(names), 3))
        d.history_connection = [k for k in list(g.connection.keys())[:2]]
        d.parameter['print_block'] = names[0]
        style = rng.choice(['swap', 'cycle', 'cycle', 'chain', 'fresh'])
        ks = rng.sample(names, min(len(names), rng.choice([2, 2, 3, 4])))
        if style == 'swap': m = {ks[0]: ks[1], ks[1]: ks[0]}
        elif style == 'cycle': m = dict((ks[i], ks[(i + 1) % len(ks)]) for i in range(len(ks)))
        elif style == 'chain': m = dict([(ks[i], ks[i + 1]) for i in range(len(ks) - 1)] + [(ks[-1], fresh_name(rng, set(names)))])
        else:
            taken = set(names); m = {}
            for k in ks:
                m[k] = fresh_name(rng, taken); taken.add(m[k])
        invert = rng.random() < 0.25
        unfixed = rng.random() < 0.3
        call_map = dict((py_unfix_name(k), py_unfix_name(v)) for k, v in m.items()) if unfixed else dict(m)
        if invert: call_map = dict((v, k) for k, v in call_map.items())
        inp = {'op': 't2data.rename_blocks', 'grid': [nx, ny, nz], 'names': names, 'map': sorted(call_map.items()), 'invert': invert}
        kinds['%s%s%s' % (style, ' inverted' if invert else '', ' in (a3,i2) spelling' if unfixed else '')] += 1
        ctx.count(('t2data-rename', ci, json.dumps(inp, default=str)))
        nblk, ngen, ninc = len(g.blocklist), len(d.generatorlist), len(d.incon)
        try: d.rename_blocks(call_map, invert=invert)
        except Exception as e:
            kinds['raised ' + type(e).__name__] += 1
        v = inv_violations(d.grid)
        want = sorted(py_fix_map(m).get(nm, nm) for nm in names)
        if not v and sorted(d.grid.block) != want: v = ['the blocks of the grid are %r, not %r' % (sorted(d.grid.block), want)]
        if v: ctx.failure('t2data-rename_blocks', 't2data.rename_blocks:grid', inp, '; '.join(v), 'a consistent grid that holds every block under its mapped name')
        # companions of the grid in the data file (outside the statement: counted only)
        if len(d.generator) != ngen or any(d.generator.get((gn.block, gn.name)) is not gn for gn in d.generatorlist): companions['generator dict lost or misfiled a generator'] += 1
        if any(gn.block not in d.grid.block for gn in d.generatorlist): companions['generator names a block that is not in the grid'] += 1
        if len(d.incon) != ninc or any(k not in d.grid.block for k in d.incon): companions['initial condition lost or under a name that is not in the grid'] += 1
        if any((h if isinstance(h, str) else h.name) not in d.grid.block for h in d.history_block): companions['history block not in the grid'] += 1
        if any(tuple(c) not in d.grid.connection for c in d.history_connection): companions['history connection not in the grid'] += 1
        if d.parameter['print_block'] not in d.grid.block: companions['print_block not in the grid'] += 1
    ctx.oracle_cases('t2data-rename_blocks', sum(v for k, v in kinds.items() if not k.startswith('raised')), kinds=dict(kinds),
                     outside_the_statement_counted_only=dict(companions))
    ctx.extra['t2data_rename_blocks_companions'] = dict(companions)


def method_variants(ctx):
    """which variant of delete_rocktype / add_block / add_rocktype the tree under test has, read off the AST of t2grids.py
    (never by importing it): the model takes them as GenFlags.v.  Known variants: the original methods, and the repairs in
    proposed_fixes/C08-delete-rocktype-in-use.diff (raises when the rock type is in use), C08-add-block-replaces-connected.diff
    (raises when a different, connected block would be replaced) and C08-add-rocktype-relinks-blocks.diff (the blocks of a
    replaced rock type get the new one).  The comparison with the implementation checks the choice."""
    import ast
    tree = ast.parse(open(os.path.join(ctx.repo, 't2grids.py')).read())
    cls = [n for n in tree.body if isinstance(n, ast.ClassDef) and n.name == 't2grid']
    fns = dict((n.name, n) for n in (cls[0].body if len(cls) == 1 else []) if isinstance(n, ast.FunctionDef))
    missing = [m for m in ('delete_rocktype', 'add_block', 'add_rocktype') if m not in fns]
    if missing:
        ctx.refusal('t2grid methods', 'not found in t2grids.py: %s' % missing); return None
    raises = lambda fn: any(isinstance(n, ast.Raise) for n in ast.walk(fn))
    relinks = any(isinstance(n, ast.Assign) and any(isinstance(t, ast.Attribute) and t.attr == 'rocktype' and
                                                     not (isinstance(t.value, ast.Name) and t.value.id == 'self') for t in n.targets)
                  for n in ast.walk(fns['add_rocktype']))
    if raises(fns['add_rocktype']):
        ctx.refusal('t2grid.add_rocktype', 'a variant of add_rocktype that raises is not modelled'); return None
    v = {'delete_rocktype_refuses': raises(fns['delete_rocktype']), 'add_block_refuses': raises(fns['add_block']), 'add_rocktype_relinks': relinks}
    ctx.gen('GenFlags', '(* GENERATED from the AST of t2grids.py (tools/props/C08.py method_variants) -- do not edit *)\n' +
            ''.join('Definition %s : bool := %s.\n' % (k, 'true' if b else 'false') for k, b in sorted(v.items())))
    ctx.extra['method_variants'] = v
    return v


def run(ctx):
    ctx.rule = ('edit sequences on the real t2grid, each compared step by step with the extracted Coq model and checked against the '
                'statement: (1) exhaustive: from each start grid (empty; 2 blocks + 1 connection; 3-block chain; 4-block ring; 2 rock types) '
                'every sequence of up to L edits over the state-dependent alphabet {add/delete/clean/rename rock type, add_block (4 names x 2 rocks), '
                'delete_block, demote_block, add_connection (all ordered pairs of present blocks, one self connection), delete_connection (keys and reversed keys), '
                'rename_blocks with EVERY one-to-one map from present names into the 4-name universe that avoids unrenamed blocks (swaps, cycles, chains included), '
                'reorder with block permutations / connection permutations with reversals, plus malformed calls}; '
                'a further start grid (fixpair) draws names and rename maps from a universe on which fix_blockname is not the identity (ab101 / ab1 1), all maps in both call forms and respelled; '
                'an edit that raises on a consistent grid does not end a sequence (the exception is caught, the grid it leaves is dumped, compared and checked, and the sequence goes on); '
                '(2) random sequences up to length 60 on t2grid().fromgeo(mulgrid().rectangular(...)) grids of 1..200 blocks (all atmosphere types), generator '
                'biased to valid calls; (3) the grid-combining edits: two further start grids hold a SECOND grid (block names disjoint from / overlapping the main one) and their '
                'alphabet adds minc (default and custom naming functions, 0..2 levels, all blocks / a selection / an unknown block), main + other, other + main and embed '
                '(with the grids\' own block objects, with foreign objects of the same names, refused); 30% of the random cases carry a second fromgeo grid and draw minc '
                '(1..4 levels, five naming pairs, selections with repeats, zero-volume and atmosphere blocks), __add__, embed and edits of the second grid; both grids are '
                'compared after every step. A case is one sequence; distinct by its encoded op list (start grid included); non-trivial: every counted sequence has at least one edit')
    ctx.trusted += ['Coq 8.16.1 kernel (coqc)',
                    'hand-written model coq/C08/GridEdit.v of the t2grid methods (objects as ids + field maps, dict = insertion-ordered association list; '
                    'minc without its geometry: the volume test 0 < volume < atmos_volume and embed\'s "sub-grid fits" test are inputs of the model, evaluated '
                    'by this harness from the real volumes); its agreement with t2grids.py is TESTED on this run (canonical dump after every step), not proved',
                    'extraction: ExtrOcamlBasic + ExtrOcamlString, OCaml 4.13.1, ocaml/main.ml; PTBase.Wire helpers',
                    'the Python statement of the invariant in tools/props/C08.py (inv_violations): its verdict is compared on this run, after every fully dumped step, '
                    'with the verdict of the Coq test inv_b on the model state (inv_test_decides: inv_b g = true <-> Inv g), so it is trusted only on the hashed large-grid steps; '
                    'its classifier of inputs (classify)']
    ctx.assumptions += ['arguments are well-formed: add_block receives a block whose rock type object is grid.rocktype[name]; add_connection receives the '
                        'grid\'s current block objects; names are 5-character strings over [A-Za-z0-9 ]; both call forms of rename_blocks are modelled: '
                        'fix_blocknames=False, and the default True where mulgrids.fix_block_mapping first rewrites the map (names in the TOUGH2 (a3, i2) spelling: start grid '
                        'fixpair, 20% of the fresh names of the random sweep, maps respelled in unfixed form)',
                        'a REFUSED edit (the method raises) of a consistent grid does not end the sequence: the caller catches the exception and goes on; the statement is '
                        'evaluated on what the refused edit left behind and the dump is compared with the model (GridEdit.after). Only an exception raised on a grid that '
                        'is already inconsistent (after a known finding / an edit outside the quantifier) ends the sequence',
                        '"rock type registered" is read by name (block.rocktype.name is a key of grid.rocktype), as t2data/t2grid themselves use it',
                        'the operands of __add__ / embed are consistent grids; after the sum the operands are not edited any more (the result holds their objects: '
                        'editing an operand edits the result behind its back; such edits are run for the model/implementation comparison and not held against the statement); '
                        'minc: the MINC geometry (proximity function, its inversion) is valid and is not modelled; t2data-level readers are not covered']
    ctx.stage()
    flag = os.path.join(ctx.build, 'drv.flag')
    built = {}
    variants = method_variants(ctx)                       # before the workers are forked: they read VARIANTS
    VARIANTS.clear(); VARIANTS.update(variants or {})

    def build_then_combine():
        """runs in this process while the sweep workers execute the implementation side: Coq build, driver,
        then the implementation-only oracle for the grid-combining edits"""
        try:
            if variants is not None:                      # else: a refusal is on record, the model is not built, the oracle goes on
                built['ok'] = ctx.coq_build(props=('Props.v', 'Props2.v'))
                ctx.log('coq build done: %d theorems' % len(ctx.theorems))
                built['exe'] = vf.build_driver(ctx)
            ctx.log('driver built' if built.get('exe') else 'driver NOT built')
        finally:
            with open(flag + '.tmp', 'w') as f: f.write('ok' if built.get('exe') else 'fail')
            os.replace(flag + '.tmp', flag)
        extended_edits(ctx, 1500 if ctx.thorough else 200)
    if ctx.thorough:
        plan = [('empty', 4), ('pair', 3), ('chain', 3), ('ring', 3), ('pair+disjoint', 3), ('chain+overlap', 3), ('fixpair', 3)]
        nrand, sizes = 3000, ['small'] * 5 + ['medium'] * 3 + ['large'] * 2
    else:
        plan = [('empty', 3), ('pair', 3), ('chain', 2), ('ring', 2), ('pair+disjoint', 2), ('chain+overlap', 2), ('fixpair', 2)]
        nrand, sizes = 320, ['small'] * 6 + ['medium'] * 3 + ['large']
    tot = sweep(ctx, (os.path.join(ctx.build, 'drv'), flag), plan, nrand, 60, sizes, meanwhile=build_then_combine)
    ctx.extra['exhaustive'] = True
    ctx.extra['input_distribution'] = {
        'exhaustive': {'sequences': tot['e'].seq, 'op_kinds': dict(tot['e'].opk), 'endings': dict(tot['e'].endk)},
        'random': {'sequences': tot['r'].seq, 'op_kinds': dict(tot['r'].opk), 'endings': dict(tot['r'].endk), 'error_kinds': dict(tot['r'].errk)}}
    ctx.hyp_met['Inv held before and after (sequences consistent throughout)'] = tot['e'].inv_held + tot['r'].inv_held

    def deep(broken):
        ctx.log('deep search: oracle-only sweep at greater depth')
        ctx.rng = random.Random(ctx.seed + 4242)
        sweep(ctx, None, [('pair', 3), ('chain', 3)], 1500, 60, ['small'] * 5 + ['medium'] * 3 + ['large'] * 2, label='(deep)')
    return ctx.finish(deep_search=deep)


def replay(ctx, data):
    case = data.get('input') or {}
    if case and 'op' in case and 'ops' not in case:
        # a grid-combining edit (minc / __add__ / embed): the generator is seeded, so the same sweep revisits the case
        key = data.get('finding_key')
        try: ctx.seed = int(data.get('seed', ctx.seed))
        except Exception: pass
        extended_edits(ctx, 200)
        hits = [r for r in ctx.new_failures if r['key'] == key] + ([ctx.findings_seen[key]] if key in ctx.findings_seen else [])
        for r in hits[:1]: print('replay: %s -> %s' % (json.dumps(r['input'], default=str)[:500], r['observed']))
        if not hits: print('replay: grid-combining sweep finds the grid consistent after every %s case' % key)
        return bool(hits)
    if not case or 'ops' not in case: return True
    ops = [_t(o) for o in case['ops']]
    if case.get('replay_twice'):
        o1 = run_impl_sequence(start_state(case['init']), ops)
        o2 = run_impl_sequence(start_state(case['init']), ops)
        print('replay: the same %d edit(s) on two identically built grids, one after the other: %s' % (len(ops), 'DIFFERENT grids' if o1.obs != o2.obs else 'same grids'))
        return o1.obs != o2.obs
    st = start_state(case['init'])
    out = run_impl_sequence(st, ops)
    print('replay: start %s, %d edit(s): %s' % (json.dumps(case['init']), len(ops), json.dumps(case['ops'])[:600]))
    if out.fail:
        t, key, v = out.fail
        print('  statement broken after edit %d (%s): %s' % (t, key, '; '.join(v)))
        return True
    print('  grid consistent after every edit' + (' (sequence ended in %s at edit %d)' % (out.error[1], out.error[0]) if out.error else ''))
    return False
