"""C19 oracle: the property statement evaluated on the implementation alone (no model).

Every check works on real mulgrid / t2incon / t2data objects built from a self-contained
case dict (see c19_geo.build_geo); failures are classified by a stable key."""
import copy, random
import numpy as np
from props import c19_geo as G

KEY_ATM = 'block_mapping:target-atm0-source-not-atm0'
DEFAULT_ATM = [1.013e5, 20.]


def identical_copy(spec, geo, repo):
    """an identical geometry: rebuilt from the recipe, or a deep copy when the recipe contains a
    column refinement (mulgrid.refine numbers the new columns in set-iteration order, which differs
    from build to build)."""
    if any(op[0] == 'refine' for op in spec.get('ops', [])):
        import sys
        lim = sys.getrecursionlimit()
        sys.setrecursionlimit(max(lim, 20000))
        try: return copy.deepcopy(geo)
        finally: sys.setrecursionlimit(lim)
    return G.build_geo(spec, repo)


def atm_finding_class(src, dst):
    """the known finding's input class: computed from the pair's atmosphere types only."""
    return G.atm_code(dst) == 0 and G.atm_code(src) != 0


def fail(ctx, name, key, case, observed, required):
    ctx.failure(name, key, case, observed, required)


def ug_names(g):
    return g.block_name_list[g.num_atmosphere_blocks:]


def atm_names(g):
    return g.block_name_list[:g.num_atmosphere_blocks]


# ---------------------------------------------------------------- block_mapping
def check_mapping(ctx, case, src, dst):
    """returns (mapping, colmapping) or None when block_mapping raised."""
    name = 'block-mapping'
    try:
        mapping, colmap = src.block_mapping(dst, True)
    except Exception as e:
        if atm_finding_class(src, dst) and isinstance(e, KeyError):
            fail(ctx, name, KEY_ATM, case, 'block_mapping raised %r' % (e,), 'a mapping of every target block')
        else:
            fail(ctx, name, 'block_mapping:raises-%s' % type(e).__name__, case, 'block_mapping raised %r' % (e,),
                 'a mapping of every target block')
        return None
    if atm_finding_class(src, dst):
        # the listed defect no longer shows: nothing to report, continue with the checks
        pass
    # totality: every target block is assigned
    missing = [b for b in dst.block_name_list if b not in mapping]
    if missing:
        fail(ctx, name, 'block_mapping:target-block-unassigned', case, 'no entry for %r' % missing[:3], 'every target block assigned')
        return mapping, colmap
    src_ug = set(ug_names(src)); src_atm = atm_names(src)
    # nearest column (brute force)
    S = np.array([c.centre for c in src.columnlist], dtype=float)
    scale = max(1.0, float(np.abs(S).max()))
    srccol = {}
    for c in dst.columnlist:
        d = np.hypot(S[:, 0] - c.centre[0], S[:, 1] - c.centre[1])
        dmin = float(d.min())
        chosen = colmap.get(c.name)
        if chosen not in src.column:
            fail(ctx, name, 'column_mapping:not-a-source-column', case, 'column %r -> %r' % (c.name, chosen), 'a source column')
            return mapping, colmap
        dc = float(np.hypot(*(src.column[chosen].centre - c.centre)))
        if dc > dmin + 1e-9 * (scale + dmin):
            fail(ctx, name, 'column_mapping:not-nearest', case,
                 'target column %r -> %r at distance %r' % (c.name, chosen, dc), 'nearest source centre is at %r' % dmin)
            return mapping, colmap
        srccol[c.name] = src.column[chosen]
    # nearest layer candidates (brute force), above-surface correction recomputed from the statement
    slays = src.layerlist[1:]
    lscale = max(1.0, max(abs(float(l.centre)) for l in src.layerlist))
    cands = {}
    for l in dst.layerlist[1:]:
        d = [abs(float(s.centre) - float(l.centre)) for s in slays]
        dmin = min(d)
        cands[l.name] = [s for s, x in zip(slays, d) if x <= dmin + 1e-9 * (lscale + dmin)]

    def first_below_ground(col):
        for s in slays:
            if s.bottom < col.surface: return s
        return None
    nblocks = 0
    for l in dst.layerlist[1:]:
        for c in dst.columnlist:
            if not (c.surface > l.bottom): continue
            b = dst.block_name(l.name, c.name)
            nblocks += 1
            got = mapping[b]
            if got not in src_ug:
                fail(ctx, name, 'block_mapping:underground-target-mapped-to-nonexistent-source-block', case,
                     'target block %r (layer %r, column %r) -> %r' % (b, l.name, c.name, got), 'a block that exists in the source')
                return mapping, colmap
            sc = srccol[c.name]
            want = []
            for s in cands[l.name]:
                if sc.surface <= s.bottom: s = first_below_ground(sc)
                if s is not None: want.append(src.block_name(s.name, sc.name))
            if got not in want:
                corrected = any(sc.surface <= s.bottom for s in cands[l.name])
                fail(ctx, name, 'block_mapping:above-surface-correction' if corrected else 'block_mapping:not-nearest-layer', case,
                     'target block %r (layer %r, column %r) -> %r' % (b, l.name, c.name, got), 'one of %r' % want)
                return mapping, colmap
    # atmosphere blocks -> the source's corresponding atmosphere block when it has any
    if src_atm:
        l0 = dst.layerlist[0].name
        if G.atm_code(dst) == 0: dst_atm = [(dst.block_name_list[0], None)]
        elif G.atm_code(dst) == 1: dst_atm = [(dst.block_name(l0, c.name), c) for c in dst.columnlist]
        else: dst_atm = []
        for b, c in dst_atm:
            got = mapping[b]
            if G.atm_code(src) == 0: want = src_atm[0]
            elif c is not None: want = src.block_name(src.layerlist[0].name, srccol[c.name].name)
            else: want = None          # source per-column, target single: no corresponding block defined
            if (want is not None and got != want) or got not in src_atm:
                fail(ctx, name, 'block_mapping:atmosphere-block', case, 'target atmosphere block %r -> %r' % (b, got),
                     'source atmosphere block %r' % (want,))
                return mapping, colmap
    case_key = ('bm', repr(case.get('src')), repr(case.get('dst')), repr(case.get('then_src')), repr(case.get('then_dst')))
    ctx.count(case_key, nontrivial=nblocks > 0)
    return mapping, colmap


def check_self_identity(ctx, case, which, g):
    name = 'self-mapping-identity'
    try:
        m = g.block_mapping(g)
    except Exception as e:
        if atm_finding_class(g, g): return
        fail(ctx, name, 'block_mapping:self:raises-%s' % type(e).__name__, dict(case, which=which), repr(e), 'identity mapping')
        return
    bad = [(k, v) for k, v in m.items() if k != v]
    if bad or set(m) != set(g.block_name_list):
        fail(ctx, name, 'block_mapping:self-not-identity', dict(case, which=which), 'first differences %r' % bad[:3], 'identity on all %d blocks' % g.num_blocks)
    ctx.count(('self', repr(case.get(which)), repr(case.get('then_' + which))))


def check_sequence(ctx, case, src, dst, repo):
    """the statement does not depend on the history of the geometry objects: after mappings have been
    computed, move / re-surface the source (then the target) IN PLACE and evaluate the statement again.
    case: {'kind': 'sequence', 'src', 'dst', 'then_src': ops, 'then_dst': ops, 'nvar', 'vseed'}"""
    for a, b in ((src, dst), (dst, src), (src, src), (dst, dst)):        # prime whatever state the objects keep
        try: a.block_mapping(b, True)
        except Exception: pass
    G.apply_ops(src, case.get('then_src') or [])
    G.apply_ops(dst, case.get('then_dst') or [])
    if not (G.columns_keep_a_block(src) and G.columns_keep_a_block(dst)):
        ctx.count(('sequence-degenerate', repr(case)), nontrivial=False)      # a snap emptied a column: not a geometry of the statement
        return
    c = dict(case, kind='sequence')
    check_mapping(ctx, c, src, dst)
    check_self_identity(ctx, c, 'src', src)
    check_self_identity(ctx, c, 'dst', dst)
    check_incon(ctx, c, src, dst, repo)


# ---------------------------------------------------------------- t2incon.transfer_from
def make_incon(src, nvar, vseed, extras=True, populate='lists'):
    """a source t2incon in the geometry's block order with random states (deterministic in vseed).
    populate='array': the variables are then assigned through the documented property `inc.variable = array`,
    which leaves every block holding a row VIEW of the caller's numpy array (kept as inc._caller_array)."""
    from t2incons import t2incon, t2blockincon
    rng = random.Random(vseed)
    inc = t2incon()
    for i, b in enumerate(src.block_name_list):
        var = [rng.choice([rng.uniform(-1e3, 1e7), float(rng.randint(-5, 5000)), rng.uniform(0, 1)]) for _ in range(nvar)]
        por = rng.choice([None, None, rng.uniform(0.01, 0.5)]) if extras else None
        seq = rng.choice([(None, None), (None, None), (rng.randint(0, 9), rng.randint(0, 9))]) if extras else (None, None)
        perm = rng.choice([None, None, None, np.array([rng.uniform(1e-16, 1e-12) for _ in range(3)])]) if extras else None
        inc[b] = t2blockincon(var, b, porosity=por, permeability=perm, nseq=seq[0], nadd=seq[1])
    if populate == 'array':
        arr = np.array([b.variable for b in inc._blocklist], dtype=np.float64)
        inc.variable = arr
        inc._caller_array = arr
    return inc


def snapshot(inc):
    def v(x): return None if x is None else (list(np.asarray(x, dtype=float).ravel()) if isinstance(x, (list, tuple, np.ndarray)) else x)
    return ([(b.block, [float(x) for x in b.variable], b.porosity, v(b.permeability), b.nseq, b.nadd) for b in inc._blocklist],
            None if getattr(inc, '_caller_array', None) is None else inc._caller_array.tolist(),
            sorted(inc._block.keys()), copy.deepcopy(inc.timing), inc.simulator)


def state(b):
    return ([float(x) for x in b.variable], b.porosity, b.nseq, b.nadd,
            None if b.permeability is None else [float(x) for x in np.asarray(b.permeability).ravel()])


def explicit_maps(src, dst):
    """block and column mappings for the underground blocks, computed on a copy of the target
    without atmosphere blocks (underground block names do not depend on the atmosphere type)."""
    t = dst.atmosphere_type
    dst.atmosphere_type = 2             # (the setter rebuilds the block name index)
    try: return src.block_mapping(dst, True)
    finally: dst.atmosphere_type = t


def check_incon(ctx, case, src, dst, repo, inc=None):
    """t2incon.transfer_from: default mappings, and explicit ones when block_mapping cannot produce them."""
    from t2incons import t2incon
    name = 'incon-transfer'
    if inc is None: inc = make_incon(src, case['nvar'], case['vseed'], populate=case.get('populate', 'lists'))
    prime_process()
    before = snapshot(inc)
    new = t2incon()
    maps = None
    try:
        if case.get('explicit'):
            maps = explicit_maps(src, dst)
            new.transfer_from(inc, src, dst, maps[0], maps[1])
        else:
            new.transfer_from(inc, src, dst)
    except Exception as e:
        if atm_finding_class(src, dst) and isinstance(e, KeyError) and not case.get('explicit'):
            fail(ctx, name, KEY_ATM, case, 't2incon.transfer_from raised %r (from block_mapping)' % (e,), 'initial conditions for every target block')
        else:
            fail(ctx, name, 'incon_transfer:raises-%s' % type(e).__name__, case, 't2incon.transfer_from raised %r' % (e,), 'initial conditions for every target block')
        if snapshot(inc) != before:
            fail(ctx, name, 'incon_transfer:source-altered', case, 'source t2incon changed', 'source unchanged')
        return None
    if snapshot(inc) != before:
        fail(ctx, name, 'incon_transfer:source-altered', case, 'source t2incon differs after the transfer', 'source unchanged')
        return new
    if maps is None:
        try: maps = src.block_mapping(dst, True)
        except Exception: return new
    mapping, colmap = maps
    if set(new.blocklist) != set(dst.block_name_list) or new.num_blocks != dst.num_blocks:
        fail(ctx, name, 'incon_transfer:block-set', case, '%d blocks, symmetric difference %r' % (
            new.num_blocks, sorted(set(new.blocklist) ^ set(dst.block_name_list))[:4]), 'exactly the %d target blocks' % dst.num_blocks)
        return new
    for b in ug_names(dst):
        if state(new[b]) != state(inc[mapping[b]]):
            fail(ctx, name, 'incon_transfer:underground-state', case, 'target block %r has %r' % (b, state(new[b])),
                 'state of source block %r: %r' % (mapping[b], state(inc[mapping[b]])))
            return new
    ta, tb = G.atm_code(src), G.atm_code(dst)
    src_atm = atm_names(src)
    l0 = dst.layerlist[0].name
    if tb == 0: dst_atm = [(dst.block_name_list[0], None)]
    elif tb == 1: dst_atm = [(dst.block_name(l0, c.name), c) for c in dst.columnlist]
    else: dst_atm = []
    for b, c in dst_atm:
        got = state(new[b])
        if ta == 0:
            want = state(inc[src_atm[0]]); how = 'copy of the single source atmosphere block'
            ok = got == want
        elif ta == 1 and tb == 1:
            sb = src.block_name(src.layerlist[0].name, colmap[c.name])
            want = state(inc[sb]); how = 'copy of the source atmosphere block %r over the mapped column' % sb
            ok = got == want
        elif ta == 1 and tb == 0:
            avg = np.mean(np.array([inc[x].variable for x in src_atm], dtype=float), axis=0)
            want = ([float(x) for x in avg], None, None, None, None); how = 'average over the source atmosphere blocks'
            ok = len(got[0]) == len(avg) and np.allclose(got[0], avg, rtol=1e-12, atol=0) and got[1:] == want[1:]
        else:
            want = (DEFAULT_ATM, None, None, None, None); how = 'default atmosphere conditions'
            ok = got == want
        if not ok:
            fail(ctx, name, 'incon_transfer:atmosphere-%d-to-%d' % (ta, tb), case, 'target atmosphere block %r has %r' % (b, got), '%s: %r' % (how, want))
            return new
    # the result does not depend on the history of the receiving object: a t2incon that already holds another
    # transfer's blocks, and a second call on the same object, give the same blocks; the source stays untouched
    dump = lambda o: [(b.block, state(b)) for b in o._blocklist]
    fresh = dump(new)
    used = _USED.setdefault('inc', t2incon())
    for obj, how in ((used, 'an object that received an earlier transfer'), (new, 'a second call on the same object')):
        try:
            if case.get('explicit'): obj.transfer_from(inc, src, dst, maps[0], maps[1])
            else: obj.transfer_from(inc, src, dst)
        except Exception as e:
            fail(ctx, name, 'incon_transfer:reused-receiver-raises-%s' % type(e).__name__, case, '%s: %r' % (how, e), 'the same result as on a fresh object')
            return new
        if dump(obj) != fresh:
            fail(ctx, name, 'incon_transfer:depends-on-receiver-history', case, '%s gives different blocks' % how, 'the same result as on a fresh object')
            return new
    if snapshot(inc) != before:
        fail(ctx, name, 'incon_transfer:source-altered', case, 'source t2incon differs after repeated transfers', 'source unchanged')
        return new
    if ta == 2 and dst_atm:
        # defaulted atmosphere: edit the defaulted blocks of the results in place, transfer again -> defaults again
        for obj in (new, used):
            for b, c in dst_atm:
                for k in range(len(obj[b].variable)): obj[b][k] = 4242.0 + k
        later = t2incon()
        try:
            if case.get('explicit'): later.transfer_from(inc, src, dst, maps[0], maps[1])
            else: later.transfer_from(inc, src, dst)
            bad = [(b, state(later[b])[0]) for b, c in dst_atm if state(later[b]) != (DEFAULT_ATM, None, None, None, None)]
        except Exception as e:
            bad = [repr(e)]
        if bad:
            fail(ctx, name, 'incon_transfer:default-atmosphere-depends-on-earlier-results', case,
                 'after editing the defaulted atmosphere blocks of an earlier result, a new transfer gives %r' % (bad[:2],),
                 'default atmosphere conditions %r' % (DEFAULT_ATM,))
            return new
    ctx.count(('inc', repr(case)))
    return new


_USED = {}


def guarded(ctx, name, case, fn, *args, **kw):
    """an exception inside a statement evaluation (the implementation left an object in a state on which the
    statement cannot even be evaluated) is a failure with this case as replay, not a crash of the check"""
    try:
        return fn(*args, **kw)
    except Exception as e:
        import traceback
        tb = traceback.extract_tb(e.__traceback__)[-1]
        fail(ctx, name, 'oracle:statement-not-evaluable-%s' % type(e).__name__, case,
             '%r at %s:%d' % (e, tb.filename.split('/')[-1], tb.lineno), 'the statement to be evaluable on this input')
        return None


def prime_process():
    """what an earlier caller in the same process may have done: transfers with DEFAULT mapping arguments on an
    unrelated pair of geometries (all atmosphere arrangements that copy / average / default), followed by in-place
    edits of everything those transfers returned.  The statement is about each transfer on its own, so nothing of
    this may show in a later result.  Called at the start of every transfer check (so a single replayed case
    reproduces leaks between calls)."""
    from mulgrids import mulgrid
    from t2incons import t2incon
    from t2data import t2data
    from t2grids import t2grid
    if 'prime' not in _USED:
        _USED['prime'] = []
        for ta, tb in ((1, 0), (2, 1), (2, 0), (0, 1)):
            ps = mulgrid().rectangular([13., 17.], [11.], [3., 4.], atmos_type=ta)
            pd = mulgrid().rectangular([10., 10., 10.], [11.], [2., 5.], atmos_type=tb)
            _USED['prime'].append((ps, pd, make_source_data(ps, 5)))
    for ps, pd, (dat, top, bot) in _USED['prime']:
        try:
            inc = make_incon(ps, 2, 99, extras=False)
            r = t2incon()
            r.transfer_from(inc, ps, pd)
            for b in r._blocklist:
                for k in range(len(b.variable)): b[k] = -777.0 - k          # documented item assignment on a result
            n = t2data(); n.grid = t2grid().fromgeo(pd)
            n.transfer_generators_from(dat, ps, pd, top, bot)                 # default mapping arguments
            for g in n.generatorlist: g.gx = -1.0
        except Exception: pass          # only there to leave traces; what matters is the check that follows


def check_repeat(ctx, case, src, dst, first=None):
    """results do not depend on earlier calls or on other live objects: the mapping computed again - after other
    geometries were created and mapped in the same process - equals the first one."""
    name = 'block-mapping'
    from mulgrids import mulgrid
    try:
        if first is None:
            first = src.block_mapping(dst, True)
            a = mulgrid().rectangular([7.] * 3, [9.] * 2, [4.] * 3, atmos_type=1)
            b = mulgrid().rectangular([5.] * 4, [6.] * 3, [3.] * 4, atmos_type=0, origin=[1., 1., 0.])
            a.block_mapping(b, True); b.block_mapping(a, True); dst.block_mapping(src, True); dst.block_mapping(dst); src.block_mapping(src)
        again = src.block_mapping(dst, True)
    except Exception as e:
        fail(ctx, name, 'block_mapping:repeat-raises-%s' % type(e).__name__, dict(case, kind='repeat'), repr(e), 'the mapping of the first call')
        return
    if again[0] != first[0] or again[1] != first[1]:
        bad = [(k, first[0].get(k), again[0].get(k)) for k in first[0] if first[0].get(k) != again[0].get(k)][:3]
        fail(ctx, name, 'block_mapping:depends-on-earlier-calls', dict(case, kind='repeat'), 'a later call gives %r' % bad, 'the mapping of the first call')
        return
    ctx.count(('repeat', repr(case.get('src')), repr(case.get('dst'))))


# ---------------------------------------------------------------- t2data.transfer_from on an identical geometry
TYPES = ['MASS', 'HEAT', 'COM1', 'DELV', 'MASS', 'HEAT']


def category_names(conv):
    return ('top', 'bot') if conv == 1 else ('tp', 'bt')


def make_generators(geo, gseed, conforming_names=False, all_columns=False):
    """generators at top, bottom and interior blocks, with and without tables (deterministic in gseed).
    -> (list of t2generator, top_generator, bottom_generator)"""
    from t2data import t2generator
    rng = random.Random(gseed)
    top, bot = category_names(geo.convention)
    gens = []
    cols = list(geo.columnlist)
    ug = ug_names(geo)

    def table(g):
        n = rng.randint(2, 5)
        g.ltab = n if rng.random() < 0.8 else -n
        g.time = [float(i) * 1e3 for i in range(n)]
        g.rate = [rng.uniform(-5, 5) for _ in range(n)]
        if rng.random() < 0.5:
            g.itab = 'E'; g.enthalpy = [rng.uniform(1e5, 1e6) for _ in range(n)]
    def top_layer(c):       # the column's first layer below ground, from its surface (not from the cached count)
        return next((l for l in geo.layerlist[1:] if c.surface > l.bottom), geo.layerlist[geo.num_layers - max(1, c.num_layers)])
    for c in (cols if all_columns else rng.sample(cols, min(len(cols), rng.randint(1, 3)))):
        lay = top_layer(c)
        g = t2generator(name=geo.block_name(top, c.name), block=geo.block_name(lay.name, c.name),
                        type=rng.choice(['MASS', 'HEAT', 'COM1']), gx=rng.uniform(-10, 10), ex=rng.choice([0.0, 8.4e4]))
        if rng.random() < 0.4: table(g)
        gens.append(g)
    for c in (cols if all_columns else rng.sample(cols, min(len(cols), rng.randint(1, 3)))):
        g = t2generator(name=geo.block_name(bot, c.name), block=geo.block_name(geo.layerlist[-1].name, c.name),
                        type=rng.choice(['HEAT', 'MASS']), gx=rng.uniform(0, 10) * c.area)
        if rng.random() < 0.4: table(g)
        gens.append(g)
    used = set((g.block, g.name) for g in gens)
    for i, b in enumerate(rng.sample(ug, min(len(ug), rng.randint(1, 4)))):
        if conforming_names: nm = geo.block_name(geo.layer_name(b), geo.column_name(b))
        else: nm = ('w%2d' % i if geo.convention in (0, 3) else 'w') .ljust(3)[:3] + 'x%1d' % i
        if geo.layer_name(nm) in (top, bot) or (b, nm) in used: continue
        g = t2generator(name=nm, block=b, type=rng.choice(TYPES), gx=rng.choice([0.0, rng.uniform(-20, 20)]),
                        ex=rng.choice([0.0, 1.2e6]), hg=rng.choice([0.0, 1.5]), fg=rng.choice([0.0, -0.5]))
        if rng.random() < 0.5: table(g)
        gens.append(g); used.add((b, nm))
    # a generator attached to an atmosphere block (e.g. a source holding atmosphere conditions)
    atm = atm_names(geo)
    if atm and rng.random() < 0.6:
        b = rng.choice(atm)
        nm = geo.block_name(geo.layer_name(b), geo.column_name(b)) if conforming_names else \
            ('a%2d' % 7 if geo.convention in (0, 3) else 'a').ljust(3)[:3] + 'y1'
        if geo.layer_name(nm) not in (top, bot) and (b, nm) not in used:
            g = t2generator(name=nm, block=b, type=rng.choice(['HEAT', 'MASS']), gx=rng.uniform(1, 20), ex=rng.choice([0.0, 1.0e5]))
            if rng.random() < 0.3: table(g)
            gens.append(g); used.add((b, nm))
    rng.shuffle(gens)
    return gens, [top], [bot]


def gen_state(g):
    def L(x): return None if x is None else [float(v) for v in x]
    return (g.name, g.block, g.type, g.nseq, g.nadd, g.nads, g.ltab, g.itab,
            None if g.gx is None else float(g.gx), g.ex, g.hg, g.fg, L(g.time), L(g.rate), L(g.enthalpy))


def gen_close(a, b, rtol=1e-12):
    if len(a) != len(b): return False
    for x, y in zip(a, b):
        if isinstance(x, float) and isinstance(y, float):
            if not (x == y or abs(x - y) <= rtol * max(abs(x), abs(y))): return False
        elif isinstance(x, list) and isinstance(y, list):
            if len(x) != len(y) or any(not (p == q or abs(p - q) <= rtol * max(abs(p), abs(q))) for p, q in zip(x, y)): return False
        elif x != y: return False
    return True


def make_source_data(geo, gseed, conforming_names=False, all_columns=False):
    from t2data import t2data
    from t2grids import t2grid
    dat = t2data()
    dat.grid = t2grid().fromgeo(geo)
    gens, top, bot = make_generators(geo, gseed, conforming_names, all_columns)
    for g in gens: dat.add_generator(g)
    return dat, top, bot


ROCKS = ['rockA', 'rockB', 'rockC', 'atmos']


def make_model(geo, gseed, conforming_names=False):
    """a source model for t2data.transfer_from: grid from the geometry, 4 rock types assigned at random
    (rock type 'dfalt' of fromgeo stays registered and may stay unused), parameter['print_block'],
    generators (make_generators) and a few in-file initial conditions.  Deterministic in gseed."""
    from t2grids import rocktype
    dat, top, bot = make_source_data(geo, gseed, conforming_names)
    rng = random.Random(gseed * 7919 + 13)
    for i, n in enumerate(ROCKS):
        dat.grid.add_rocktype(rocktype(name=n, porosity=0.05 * (i + 1), density=2000. + 100 * i))
    natm = geo.num_atmosphere_blocks
    for j, blk in enumerate(dat.grid.blocklist):
        blk.rocktype = dat.grid.rocktype['atmos' if j < natm and rng.random() < 0.8 else rng.choice(ROCKS[:3] + ['dfalt'])]
    names = [b.name for b in dat.grid.blocklist]
    dat.parameter['print_block'] = rng.choice([None, rng.choice(names), rng.choice(names[natm:] or names)])
    dat.incon = {}
    for b in rng.sample(names, min(len(names), rng.randint(0, 4))):
        dat.incon[b] = [rng.choice([None, 0.1]), [rng.uniform(1e5, 1e7), rng.uniform(10, 250)]]
    return dat, top, bot


def check_data_transfer(ctx, case, src, dst):
    """t2data.transfer_from between DIFFERENT geometries, evaluated from the method's documentation and the
    block mapping it uses: rock types (definitions once, assignments through the mapping), print block,
    in-file initial conditions, where each generator goes, and - with preserve_generation_totals - that
    the rates of the copies of every rate-carrying generator add up to the source's."""
    from t2data import t2data
    name = 'model-transfer'
    if atm_code(src) == 2 and atm_code(dst) != 2: return       # no source block for the target's atmosphere blocks
    rename = bool(case.get('rename')); preserve = bool(case.get('preserve'))
    dat, top, bot = make_model(src, case['gseed'], conforming_names=rename)
    prime_process()
    try:
        mapping, colmap = src.block_mapping(dst, True)
        new = t2data()
        new.transfer_from(dat, src, dst, top_generator=top, bottom_generator=bot,
                          rename_generators=rename, preserve_generation_totals=preserve)
    except IndexError as e:
        # generator names: conventions differ and the category does not fit the target's layer-name width, or the
        # target has convention 3 (3-item list indexed by the convention): outside the statement, counted
        ctx.count(('tf-indexerror', repr(case)), nontrivial=False)
        return 'IndexError'
    except Exception as e:
        fail(ctx, name, 'transfer_from:raises-%s' % type(e).__name__, case, 't2data.transfer_from raised %r' % (e,), 'model transferred')
        return
    # rock types: registered once, same definitions; every block has the rock type of its mapped source block
    rl = [r.name for r in new.grid.rocktypelist]
    # (by NAME: transfer_rocktypes_from deep-copies the list and the dict separately, so they hold different
    #  copies of each rock type -- a defect for later grid edits, but not something this statement speaks about)
    if rl != [r.name for r in dat.grid.rocktypelist] or sorted(new.grid.rocktype) != sorted(set(rl)) or len(set(rl)) != len(rl):
        fail(ctx, name, 'transfer_from:rocktype-registration', case, 'rock types %r, dict %r' % (rl, sorted(new.grid.rocktype)),
             'the source rock types %r, each registered once' % [r.name for r in dat.grid.rocktypelist])
        return
    for blk in new.grid.blocklist:
        want = dat.grid.block[mapping[blk.name]].rocktype.name
        if blk.rocktype.name != want or blk.rocktype is not new.grid.rocktype[want]:
            fail(ctx, name, 'transfer_from:block-rocktype', case, 'block %r has rock type %r' % (blk.name, blk.rocktype.name),
                 'rock type %r of its mapped source block %r' % (want, mapping[blk.name]))
            return
    if [b.name for b in new.grid.blocklist] != list(dst.block_name_list):
        fail(ctx, name, 'transfer_from:grid-blocks', case, '%d blocks' % new.grid.num_blocks, 'the blocks of the target geometry')
        return
    # print block
    pb = dat.parameter['print_block']
    cands = [b.name for b in new.grid.blocklist if mapping[b.name] == pb] if pb is not None else []
    if new.parameter['print_block'] != (cands[0] if cands else None):
        fail(ctx, name, 'transfer_from:print-block', case, 'print_block %r' % (new.parameter['print_block'],),
             'first target block mapped to %r: %r' % (pb, cands[:1]))
        return
    # in-file initial conditions
    want = {b.name: dat.incon[mapping[b.name]] for b in new.grid.blocklist if mapping[b.name] in dat.incon}
    if set(new.incon) != set(want) or any(new.incon[k] != want[k] for k in want):
        fail(ctx, name, 'transfer_from:incon-dict', case, 'incon for blocks %r' % sorted(new.incon)[:6], 'for blocks %r (values of the mapped source blocks)' % sorted(want)[:6])
        return
    # generators: copies in source order
    tablegens = [' AIR', 'COM1', 'COM2', 'COM3', 'COM4', 'COM5', 'HEAT', 'MASS', 'NACL', 'TRAC', ' VOL']
    incols = [c for c in dst.columnlist if src.column_containing_point(c.centre) is not None]
    out = list(new.generatorlist); pos = 0
    for g in dat.generatorlist:
        cat = src.layer_name(g.name); scol = src.column_name(g.block)
        if cat in top + bot:
            cols = [c for c in incols if colmap[c.name] == scol]
            topl = lambda c: next(l for l in dst.layerlist[1:] if c.surface > l.bottom)      # first layer below ground
            blocks = [dst.block_name(topl(c).name if cat in top else dst.layerlist[-1].name, c.name) for c in cols]
        else:
            blocks = [b.name for b in new.grid.blocklist if mapping[b.name] == g.block]
        got = out[pos: pos + len(blocks)]; pos += len(blocks)
        if [x.block for x in got] != blocks or any((x.type, x.ltab, x.itab, x.ex, x.hg, x.fg) != (g.type, g.ltab, g.itab, g.ex, g.hg, g.fg) for x in got):
            fail(ctx, name, 'transfer_from:generator-placement', case, 'generator %r (block %r) -> %r' % (g.name, g.block, [(x.name, x.block) for x in got][:6]),
                 'one copy in each of %r' % blocks[:6])
            return
        if any(b not in new.grid.block for b in blocks):
            fail(ctx, name, 'transfer_from:generator-block-missing', case, 'generator %r placed in %r' % (g.name, blocks[:6]), 'blocks of the target grid')
            return
        if preserve and blocks and g.type in tablegens:
            tot = sum(float(x.gx or 0.) for x in got); ref = float(g.gx or 0.)
            okr = True
            if g.ltab and abs(g.ltab) > 1:
                for k in range(len(g.rate)):
                    sk = sum(float(x.rate[k]) for x in got)
                    if abs(sk - g.rate[k]) > 1e-9 * max(abs(g.rate[k]), 1e-300): okr = False
            if abs(tot - ref) > 1e-9 * max(abs(ref), 1e-300) or not okr:
                fail(ctx, name, 'transfer_from:generation-total-not-preserved', case,
                     'generator %r: copies add up to %r' % (g.name, tot), 'the source rate %r (preserve_generation_totals)' % ref)
                return
    if pos != len(out):
        fail(ctx, name, 'transfer_from:extra-generators', case, '%d generators' % len(out), '%d' % pos)
        return
    # transfer_generators_from called on its own with its DEFAULT mapping arguments (after other such calls in this
    # process, see prime_process) gives the generators transfer_from gave with the mappings of this pair
    from t2grids import t2grid
    alt = t2data(); alt.grid = t2grid().fromgeo(dst)
    try:
        alt.transfer_generators_from(dat, src, dst, top, bot, rename=rename, preserve_totals=preserve)
        ga = [gen_state(g) for g in alt.generatorlist]
    except Exception as e:
        ga = repr(e)
    if ga != [gen_state(g) for g in new.generatorlist]:
        fail(ctx, name, 'transfer_generators_from:default-mappings-depend-on-earlier-calls', case,
             'with default mapping arguments: %s' % (str(ga)[:200],), 'the %d generators obtained with the mappings of this pair' % len(out))
        return
    ctx.count(('tf', repr(case)))
    return 'ok'


def atm_code(g):
    return G.atm_code(g)


def check_generators_identity(ctx, case, geo, geo2):
    """t2data.transfer_from onto an identical geometry keeps every generator and the totals."""
    from t2data import t2data
    name = 'generator-transfer-identity'
    rename = bool(case.get('rename')); preserve = bool(case.get('preserve'))
    dat, top, bot = make_source_data(geo, case['gseed'], conforming_names=rename, all_columns=bool(case.get('all_columns')))
    prime_process()
    before = [gen_state(g) for g in dat.generatorlist]
    new = t2data()
    try:
        new.transfer_from(dat, geo, geo2, top_generator=top, bottom_generator=bot,
                          rename_generators=rename, preserve_generation_totals=preserve)
    except Exception as e:
        if atm_finding_class(geo, geo2) and isinstance(e, KeyError):
            fail(ctx, name, KEY_ATM, case, 't2data.transfer_from raised %r' % (e,), 'model transferred')
        else:
            fail(ctx, name, 'transfer_from:raises-%s' % type(e).__name__, case, 't2data.transfer_from raised %r' % (e,), 'model transferred')
        return
    after_src = [gen_state(g) for g in dat.generatorlist]
    if after_src != before:
        fail(ctx, name, 'transfer_from:source-generators-altered', case, 'source generators changed', 'source unchanged')
        return
    got = [gen_state(g) for g in new.generatorlist]
    if len(got) != len(before) or any(not gen_close(a, b) for a, b in zip(got, before)):
        diff = [(a, b) for a, b in zip(got, before) if not gen_close(a, b)][:2]
        fail(ctx, name, 'transfer_from:identical-geometry-generators', case,
             '%d generators, first differences %r' % (len(got), diff), 'the %d source generators unchanged' % len(before))
        return
    if set(new.generator.keys()) != set(dat.generator.keys()):
        fail(ctx, name, 'transfer_from:identical-geometry-generator-keys', case, 'generator dict keys differ', 'same (block, name) keys')
        return
    for t in sorted(set(g.type for g in dat.generatorlist)):
        a = np.array(dat.total_generation(t), dtype=float); b = np.array(new.total_generation(t), dtype=float)
        if a.shape != b.shape or not np.allclose(a, b, rtol=1e-12, atol=0) or not np.isclose(a.sum(), b.sum(), rtol=1e-12, atol=0):
            fail(ctx, name, 'transfer_from:identical-geometry-total-generation', case,
                 'total %s generation %r' % (t, float(b.sum())), 'total %r (per block equal)' % float(a.sum()))
            return
    # a t2data object that already received another transfer gives the same generators
    used = _USED.setdefault('dat', t2data())
    try:
        used.transfer_from(dat, geo, geo2, top_generator=top, bottom_generator=bot,
                           rename_generators=rename, preserve_generation_totals=preserve)
        again = [gen_state(g) for g in used.generatorlist]
    except Exception as e:
        again = repr(e)
    if again != got or set(used.generator.keys()) != set(new.generator.keys()):
        fail(ctx, name, 'transfer_from:depends-on-receiver-history', case, 'an object that received an earlier transfer gives %s' % (str(again)[:200],),
             'the same %d generators as a fresh object' % len(got))
        return
    ctx.count(('gen', repr(case)))
