"""C17 -- block, column, layer and node names are unique, well-formed and invertible.

tie: T (every naming function translated from the AST of mulgrids.py on every run, including the
while loop of new_dict_key and the for/while loops of the name-deciding slice of add_layers, see
props/c17_translate.py; theorems in coq/C17/Props.v, Props2.v, Props3.v, Props4.v, Props5.v and Props6.v are about the generated code);
the generated functions are also run (extracted, with exactly the fuel the theorems give) against
the real ones, and the property statement is evaluated on the implementation (oracle)."""
import os, itertools, string, ast, warnings
import vf
from translate import pyfun
from props import c17_translate as c17t
from props import c17_oracle as orc

FUNCS = ['padstring', 'int_to_chars', 'uniqstring', 'fix_blockname', 'unfix_blockname', 'valid_blockname', 'new_dict_key']
METHODS = ['column_name', 'layer_name', 'node_col_name_from_number', 'column_name_from_number',
           'node_name_from_number', 'layer_name_from_number', 'block_name', 'new_node_name', 'new_column_name']


def translate(ctx):
    """Every naming function from the AST of the current mulgrids.py; new_dict_key (while loop) and the
    name-deciding slice of mulgrid.add_layers (for + while) through the loop extension in c17_translate;
    the per-convention tables of set_secondary_variables as literal lists.  Fail closed."""
    try:
        with warnings.catch_warnings():
            warnings.simplefilter('ignore', SyntaxWarning)
            t = c17t.LoopTranslator(os.path.join(ctx.repo, 'mulgrids.py'))
        for f in FUNCS: t.translate(f)
        # fix_block_mapping works by mutating its argument: the functional model returns the final dictionary
        t.synthetic[(None, 'fix_block_mapping')] = c17t.returning_argument(t, 'fix_block_mapping', 'blockmap')
        t.translate('fix_block_mapping')
        for f in METHODS: t.translate(f, cls='mulgrid')
        fn, dropped, params = c17t.slice_add_layers(t)
        t.synthetic[('mulgrid', 'add_layers')] = fn
        t.translate('add_layers', cls='mulgrid')
        # rectangular(): backward slice on the character set names are generated from
        fn_r, params_r = c17t.slice_chars_of(t, 'rectangular', 'mulgrid', 'chars')
        t.synthetic[('mulgrid', 'rectangular')] = fn_r
        t.translate('rectangular', cls='mulgrid')
        # refine_layers(): name-deciding slice over the list of layer names
        fn_l, params_l = c17t.slice_refine_layers(t, params)
        t.synthetic[('mulgrid', 'refine_layers')] = fn_l
        t.translate('refine_layers', cls='mulgrid')
        tbl_text, tbl = c17t.tables(t)
        note = ''.join('(* %s:\n%s\n*)\n' % (title, ast.unparse(f).replace('*)', '* )')) for title, f in (
            ('name-deciding slice of mulgrid.add_layers (dropped elevation variables: %s)' % ', '.join(dropped), fn),
            ('slice of mulgrid.rectangular on chars', fn_r), ('name-deciding slice of mulgrid.refine_layers over the layer-name list names_', fn_l)))
        ctx.gen('GenNames', pyfun.HEADER + 'From P Require Import PyExt.\n\n' + t.text() + '\n' + note + tbl_text)
        ctx.extra['add_layers_slice'] = {'dropped_variables': dropped, 'parameters': params}
        ctx.extra['rectangular_chars_slice'] = {'parameters': params_r}
        ctx.extra['refine_layers_slice'] = {'parameters': params_l}
        if params_r != ['case', 'chars'] or params_l != ['names_', 'chars', 'spaces', 'thicknesses']:
            ctx.refusal('slices', 'unexpected parameter lists %r %r (the driver passes case, chars / names_, chars, spaces, thicknesses)' % (params_r, params_l))
            return False
        if params != ['thicknesses', 'justify', 'chars', 'spaces']:
            ctx.refusal('add_layers slice', 'unexpected parameter list %r (the driver passes thicknesses, justify, chars, spaces)' % (params,))
            return False
        return True
    except pyfun.Refusal as e:
        ctx.refusal('pyfun(naming functions)', e)
        return False


def enc(v):
    if v is None: return 'N'
    if v is True or v is False: return 'B:%d' % v
    if isinstance(v, int): return 'I:%d' % v
    if isinstance(v, str): return 'S:' + vf.hexs(v)
    if v is str.rjust: return 'F:r'
    if v is str.ljust: return 'F:l'
    if isinstance(v, dict) and v and all(isinstance(x, str) for x in v.values()): return 'M:' + ','.join(vf.hexs(k) + '=' + vf.hexs(x) for k, x in v.items())
    if isinstance(v, dict): return 'D:' + ','.join(vf.hexs(k) for k in v)
    if isinstance(v, list) and v and all(isinstance(x, str) for x in v): return 'SL:' + ','.join(vf.hexs(x) for x in v)
    if isinstance(v, list): return 'L:%d' % len(v)
    raise ValueError(v)


TIMEOUTS = {}
CASE_SECONDS = 10


def impl(f, *a, kind='misc'):
    """one call into the implementation, under the time guard; after two runaways of a kind the rest of that kind is not run"""
    if TIMEOUTS.get(kind, 0) >= 2: return 'RAISE DoesNotTerminate (not run: two earlier cases of this kind did not terminate)'
    try:
        with orc.guard(CASE_SECONDS): r = f(*a)
    except orc.DoesNotTerminate:
        TIMEOUTS[kind] = TIMEOUTS.get(kind, 0) + 1
        return 'RAISE DoesNotTerminate'
    except RecursionError: return 'RAISE OutOfFuel'
    except Exception as e: return 'RAISE ' + type(e).__name__
    if r is None: return 'NONE'
    if r is True or r is False: return 'B %d' % r
    if isinstance(r, str): return 'S ' + vf.hexs(r)
    if isinstance(r, int): return 'I %d' % r
    return show(r)


def show(r):
    if isinstance(r, str): return 'S ' + vf.hexs(r)
    if isinstance(r, int) and not isinstance(r, bool): return 'I %d' % r
    if isinstance(r, (tuple, list)):
        return ('T[' if isinstance(r, tuple) else 'L[') + ''.join(show(x) + ',' for x in r) + ']'
    return '? ' + repr(r)


BOUNDARY = [0, 1, 2, 9, 10, 25, 26, 27, 51, 52, 53, 98, 99, 100, 101, 675, 676, 677, 701, 702, 703, 704, 999, 1000, 1001,
            2755, 2756, 2757, 9999, 10000, 17575, 17576, 17577, 18277, 18278, 18279, 18280, 19999, 20000]
CHARSETS = [string.ascii_lowercase, string.ascii_uppercase, 'abc', 'xyzXYZ', 'qwertyuiop', 'ab', 'z', 'aab']


def cases(ctx):
    import mulgrids as mg
    rng = ctx.rng
    out = []       # (line, implementation result)
    def add(kind, args, f, fargs=None):
        out.append(('\t'.join([kind] + [enc(a) for a in args]), impl(f, *(fargs if fargs is not None else args), kind=kind)))
    # five-character names over a small alphabet: exhaustive; other lengths: raise paths
    alpha = 'aZ 019'
    names = [''.join(t) for t in itertools.product(alpha, repeat=5)]
    names += [''.join(rng.choice(string.ascii_letters + string.digits + '  -_.') for _ in range(rng.choice([0, 1, 2, 3, 4, 4, 5, 5, 5, 6, 7]))) for _ in range(600)]
    for n in names:
        add('fix', [n], mg.fix_blockname); add('unfix', [n], mg.unfix_blockname); add('valid', [n], mg.valid_blockname)
    for s in ['', 'a', 'abcabc', 'zyxzyx', 'aabbcc', 'hello world', string.ascii_lowercase * 2] + [''.join(rng.choice('abcXYZ') for _ in range(rng.randint(0, 12))) for _ in range(100)]:
        add('uniq', [s], mg.uniqstring)
        add('pad', [s, rng.choice([0, 3, 5, 80])], mg.padstring)
    nums = sorted(set(BOUNDARY + [rng.randint(0, 20000) for _ in range(300 if not ctx.thorough else 4000)] + list(range(0, 130))))
    for chars in CHARSETS:
        for sp in (True, False):
            for length in (0, 2, 3, 5):
                for i in (nums if len(chars) > 1 else [n for n in nums if n <= 400]):
                    if len(chars) == 1 and not sp and i > 0: continue      # Python recursion never ends (i // 1 == i): excluded, see DESIGN
                    add('i2c', [i, '', chars, sp, length], mg.int_to_chars)
    geos = {c: mg.mulgrid(convention=c) for c in range(4)}
    for conv, geo in geos.items():
        for jf in (str.rjust, str.ljust):
            for chars in CHARSETS[:5]:
                for sp in (True, False):
                    for num in nums:
                        a = [conv, geo.colname_length, num, jf, chars, sp]
                        add('colnum', a, geo.column_name_from_number, [num, jf, chars, sp])
                        if num % 3 == 0: add('nodenum', a, geo.node_name_from_number, [num, jf, chars, sp])
                        if num <= 1000 or num in BOUNDARY:
                            add('laynum', [conv, geo.layername_length, num, jf, chars, sp], geo.layer_name_from_number, [num, jf, chars, sp])
        for _ in range(400):
            lay = ''.join(rng.choice('ab 12') for _ in range(rng.choice([2, 3, 3, 4])))
            col = ''.join(rng.choice('xy 34') for _ in range(rng.choice([2, 3, 3, 4])))
            add('blkname', [conv, lay, col], geo.block_name, [lay, col])
        for n in names[:2000:7] + names[7776:7900]:
            add('colname', [conv, n], geo.column_name, [n]); add('layname', [conv, n], geo.layer_name, [n])
        # the per-convention tables
        def tbl(g=geo):
            g.atmosphere_type = 0        # the atmosphere column name only exists for atmosphere type 0
            return (g.colname_length, g.layername_length, g.atmosphere_column_name)
        add('tbl', [conv], tbl, [])
    # new_dict_key: dictionaries holding the first m generated names minus a few holes
    for chars in ('abc', string.ascii_lowercase, 'xyzXYZ', 'ab'):     # duplicate-free (the |d| + 2 fuel bound of the theorem needs it)
        for sp in (True, False):
            for jf in (str.rjust, str.ljust):
                for length in (2, 3, 5):
                    for _ in range(6 if not ctx.thorough else 30):
                        m = rng.choice([0, 1, 2, 5, 12, 13, 40, 120])
                        keys = [jf(mg.int_to_chars(i, chars=chars, spaces=sp, length=length), length) for i in range(1, m + 1)]
                        for _h in range(rng.choice([0, 0, 1, 3])):
                            if keys: keys.pop(rng.randrange(len(keys)))
                        if rng.random() < 0.3: keys.append('zz zz')
                        d = dict.fromkeys(keys)
                        istart = rng.choice([0, 0, 0, 1, 3, m // 2, m])
                        add('ndk', [d, istart, jf, length, chars, sp], mg.new_dict_key)
    # add_layers: the translated name slice against the layer list the real method builds
    def layer_names(conv, n, justify, chars, sp):
        g = mg.mulgrid(convention=conv)
        g.add_layers([1.0] * n, 0.0, justify, chars, sp)
        return [l.name for l in g.layerlist]
    counts = [0, 1, 2, 9, 10, 26, 27, 45, 46, 47, 98, 99, 100, 101, 130]
    for conv in range(4):
        for justify in ('r', 'l', 'x'):
            for chars in (string.ascii_lowercase, string.ascii_uppercase, 'abc', 'aab', 'atm', 'a0'):
                for sp in (True, False):
                    for n in counts + [rng.randint(0, 140)] + ([702, 703, 1208, 1209, 1210] if (conv == 1 and justify == 'r' and len(chars) == 26) else []) + \
                            ([675, 676, 677, 704] if (conv == 2 and justify == 'l' and len(chars) == 26) else []):
                        add('addlay', [conv, geos[conv].layername_length, [0] * n, justify, chars, sp], layer_names, [conv, n, justify, chars, sp])
    # ---- round 4 ----
    lo, up = string.ascii_lowercase, string.ascii_uppercase
    def name5(pool='ab1 5'): return ''.join(rng.choice(pool) for _ in range(5))
    # block_name with a block mapping (sometimes holding the plain name)
    for conv, geo in geos.items():
        for _ in range(150):
            lay = ''.join(rng.choice('ab 12') for _ in range(geo.layername_length))
            col = ''.join(rng.choice('xy 34') for _ in range(geo.colname_length))
            bm = {name5('xyab 1234'): name5() for _k in range(rng.randint(1, 4))}
            if rng.random() < 0.6: bm[geo.block_name(lay, col)] = name5('zZ 09')
            add('blkmap', [conv, lay, col, bm], lambda l, c, m, g=geo: g.block_name(l, c, dict(m)), [lay, col, bm])
    # new_node_name / new_column_name on dictionaries with holes (fuel |d| + 2)
    def new_name(what, conv, keys, istart, jf, chars, sp):
        g = mg.mulgrid(convention=conv)
        if what == 'newnode': g.node = dict.fromkeys(keys); return g.new_node_name(istart, jf, chars, sp)
        g.column = dict.fromkeys(keys); return g.new_column_name(istart, jf, chars, sp)
    for conv, geo in geos.items():
        for what in ('newnode', 'newcol'):
            for chars in ('ab', 'abc', lo):
                for sp in (True, False):
                    for jf in (str.rjust, str.ljust):
                        for _ in range(3 if not ctx.thorough else 12):
                            L = geo.colname_length
                            m = rng.choice([0, 1, 2, 5, 6, 13, 14, 40])
                            keys = [jf(mg.int_to_chars(i, chars=chars, spaces=sp, length=L), L) for i in range(1, m + 1)]
                            for _h in range(rng.choice([0, 0, 1, 2])):
                                if keys: keys.pop(rng.randrange(len(keys)))
                            istart = rng.choice([0, 0, 1, m // 2, m])
                            add(what, [dict.fromkeys(keys), L, istart, jf, chars, sp], new_name, [what, conv, keys, istart, jf, chars, sp])
    # rectangular(): the alphabet its names are generated from, read off the single-character node names
    def rect_alphabet(case, chars):
        nx = (len(set(chars)) + 2) // 2          # enough nodes to see every character once, few enough for a 2-character alphabet
        g = mg.mulgrid().rectangular([1.] * nx, [1.], [1.], convention=0, case=case, chars=chars)
        out = []
        for n in g.nodelist:
            if len(n.name.strip()) != 1: break
            out.append(n.name.strip())
        return ''.join(out)
    for case in (None, 'l', 'u', 'x'):
        for chars in (lo, up, lo + up, up + lo, 'abAB', 'aAbBcC', 'aabbcc', 'XYZxyz', 'q', 'Qq') + tuple(''.join(rng.choice('abcABCxyzXYZ') for _ in range(rng.randint(1, 9))) for _k in range(20)):
            if len(set(chars.lower())) >= 2: add('rectchars', [case, chars], rect_alphabet)
    # refine_layers: the translated name slice against the real layer list
    def refined(conv, n0, justify, chars, sp, atm, before):
        g = mg.mulgrid().rectangular([1.], [1.], [1.] * n0, convention=conv, atmos_type=1, justify=justify, chars=chars, spaces=sp)
        if atm is not None and atm not in g.layer: g.rename_layer(g.layerlist[0].name, atm)
        before.append((g.right_justified_names, [l.name for l in g.layerlist], g.layername_length))
        g.refine_layers([], 2, chars, sp)
        return [l.name for l in g.layerlist]
    for conv in range(4):
        for justify in ('r', 'l'):
            for chars, sp in ((lo, True), (up, True), ('abc', True), (lo, False), ('aab', True)):
                for n0 in (1, 2, 3, 5, 23, 24, 50):
                    for atm_num in (None, n0 + 1, 2 * n0, 2 * n0 + 1, 46, 'zz'):
                        jf = str.ljust if justify == 'l' else str.rjust
                        try: atm = None if atm_num is None else ('zz' + 'z' * (geos[conv].layername_length - 2) if atm_num == 'zz' else geos[conv].layer_name_from_number(atm_num, jf, mg.uniqstring(chars), sp))
                        except mg.NamingConventionError: continue
                        before = []
                        try: res = impl(refined, conv, n0, justify, chars, sp, atm, before)
                        except Exception: continue
                        if not before: continue
                        rj, names_in, L = before[0]
                        out.append(('\t'.join(['reflay'] + [enc(a) for a in [rj, conv, L, names_in, chars, sp, [0] * (2 * n0)]]), res))
    # fix_block_mapping
    def fixed_map(m):
        d = dict(m); mg.fix_block_mapping(d); return list(d.items())
    for _ in range(400 if not ctx.thorough else 2000):
        m = {name5(rng.choice(['ab1 5', 'a1 0', 'xy 12'])): name5(rng.choice(['ab1 5', 'c2 7'])) for _k in range(rng.randint(1, 6))}
        if rng.random() < 0.3:
            k = next(iter(m)); m[mg.fix_blockname(k)] = name5()      # a key and its repair both present
        add('fixmap', [m], fixed_map)
    return out


def correspond(ctx, exe):
    cs = cases(ctx)
    res = vf.run_driver(exe, [c[0] for c in cs])
    kinds = {}
    errs = {}
    for (line, want), got in zip(cs, res):
        k = line.split('\t', 1)[0]
        kinds[k] = kinds.get(k, 0) + 1
        if want.startswith('RAISE'): errs[want[6:]] = errs.get(want[6:], 0) + 1
        ctx.count(line)
        if got != want:
            ctx.disagreement('generated-naming-functions-vs-mulgrids', {'case': line}, got, want)
    ctx.corr_cases('generated-naming-functions-vs-mulgrids', len(cs), kinds=kinds, implementation_errors=errs)
    ctx.extra['input_distribution'] = {'kinds': kinds, 'implementation_errors': errs}
    for c in cs[::max(1, len(cs) // 6)][:6]: ctx.sample({'case': c[0], 'implementation': c[1]})


def oracle(ctx):
    """The property statement on the implementation."""
    import mulgrids as mg
    rng = ctx.rng
    # (1) fix/unfix laws on five-character names over letters, digits, blanks
    pool = string.ascii_letters + string.digits + '   '
    names = [''.join(t) for t in itertools.product('bQ 027', repeat=5)] + [''.join(rng.choice(pool) for _ in range(5)) for _ in range(20000 if ctx.thorough else 4000)]
    for n in names:
        ctx.count(('name', n))
        f = mg.fix_blockname(n)
        if mg.fix_blockname(f) != f: ctx.failure('fix-unfix-laws', 'fix_blockname:not-idempotent', {'name': n}, mg.fix_blockname(f), f)
        printed = n[4].isdigit() and (n[3] == ' ' or (n[3].isdigit() and n[3] != '0'))
        if printed and mg.unfix_blockname(f) != n:
            ctx.failure('fix-unfix-laws', 'unfix_blockname:printed-name-not-restored', {'name': n}, mg.unfix_blockname(f), n)
        c1 = mg.fix_blockname(mg.unfix_blockname(n)); c2 = mg.fix_blockname(mg.unfix_blockname(c1))
        if c1 != c2: ctx.failure('fix-unfix-laws', 'fix_unfix:cycle-not-stable', {'name': n}, c2, c1)
    ctx.oracle_cases('fix-unfix-laws', len(names))
    # (2) generated column / layer / node names: distinct, of the convention's length, explicit error past capacity
    n = 0
    for conv in range(4):
        geo = mg.mulgrid(convention=conv)
        for jf in (str.rjust, str.ljust):
            for chars in (string.ascii_lowercase, string.ascii_uppercase, 'pqrst'):
                for sp in (True, False):
                    for what, fn, length, top in (('column', geo.column_name_from_number, geo.colname_length, 20000 if ctx.thorough else 3000),
                                                  ('node', geo.node_name_from_number, geo.colname_length, 3000 if ctx.thorough else 1100),
                                                  ('layer', geo.layer_name_from_number, geo.layername_length, 1200 if ctx.thorough else 130)):
                        seen = {}
                        raised = False
                        for num in range(1, top + 1):
                            n += 1
                            try:
                                with orc.guard(CASE_SECONDS): nm = fn(num, jf, chars, sp)
                            except mg.NamingConventionError: raised = True; continue
                            except orc.DoesNotTerminate:
                                ctx.failure('generated-names', '%s_name_from_number:does-not-terminate' % what, {'convention': conv, 'num': num, 'chars': chars, 'spaces': sp, 'justify': jf.__name__}, 'no result after %d s' % CASE_SECONDS, 'name or NamingConventionError'); break
                            except Exception as e:
                                ctx.failure('generated-names', '%s_name_from_number:unexpected-exception' % what, {'convention': conv, 'num': num, 'chars': chars, 'spaces': sp, 'justify': jf.__name__}, type(e).__name__, 'name or NamingConventionError'); break
                            inp = {'convention': conv, 'num': num, 'chars': chars, 'spaces': sp, 'justify': jf.__name__}
                            if raised:
                                pass    # a name after an error: allowed only if still distinct and well-formed (checked below)
                            if len(nm) != length:
                                ctx.failure('generated-names', '%s_name_from_number:wrong-length' % what, inp, repr(nm), 'length %d' % length); break
                            if nm in seen:
                                ctx.failure('generated-names', '%s_name_from_number:duplicate' % what, dict(inp, other=seen[nm]), repr(nm), 'distinct names'); break
                            seen[nm] = num
    ctx.oracle_cases('generated-names', n)
    # (3) geometries the library constructs: block names distinct, five characters, invertible
    ng = 0
    for conv in range(4):
        for atm in range(3):
            for justify in ('r', 'l'):
                for chars, sp in ((string.ascii_lowercase, True), (string.ascii_uppercase, True), ('klmn', True), (string.ascii_lowercase, False)):
                    for (nx, ny, nz) in ([(1, 1, 1), (3, 2, 4), (10, 10, 3), (11, 9, 12)] + [(1, 1, k) for k in (18, 19, 20, 45, 46, 47, 98, 99, 100, 120)] + [(1, 2, k) for k in range(21, 45, 4)] + ([(34, 30, 2), (5, 5, 101)] if ctx.thorough else [(rng.randint(1, 12), rng.randint(1, 12), rng.randint(1, 30))])):
                        inp = {'convention': conv, 'atmos_type': atm, 'justify': justify, 'chars': chars, 'spaces': sp, 'n': [nx, ny, nz]}
                        ng += 1
                        ctx.count(('geo', str(inp)))
                        try:
                            with orc.guard(60):
                                geo = mg.mulgrid().rectangular([10.] * nx, [10.] * ny, [5.] * nz, convention=conv, atmos_type=atm,
                                                               justify=justify, chars=chars, spaces=sp)
                        except mg.NamingConventionError:
                            continue        # explicit naming error: allowed when the name space is exhausted
                        except orc.DoesNotTerminate:
                            ctx.failure('constructed-geometries', 'rectangular:does-not-terminate', inp, 'no result after 60 s', 'geometry or NamingConventionError'); continue
                        except Exception as e:
                            ctx.failure('constructed-geometries', 'rectangular:unexpected-exception', inp, type(e).__name__, 'geometry or NamingConventionError'); continue
                        # the geometry has every layer, column and block that was asked for (a name collision
                        # must not silently drop one: the by-name dictionaries replace / ignore duplicates)
                        nblk = nx * ny * nz + (0 if atm == 2 else (1 if atm == 0 else nx * ny))
                        got_counts = (len(geo.layerlist), len(geo.layer), len(geo.columnlist), len(geo.column), len(geo.block_name_list))
                        if got_counts != (nz + 1, nz + 1, nx * ny, nx * ny, nblk):
                            ctx.failure('constructed-geometries', 'rectangular:layers-columns-or-blocks-missing', inp, repr(got_counts),
                                        '(layers, layer dict, columns, column dict, blocks) = %r' % ((nz + 1, nz + 1, nx * ny, nx * ny, nblk),)); continue
                        names = geo.block_name_list
                        if len(set(names)) != len(names) or any(len(b) != 5 for b in names):
                            ctx.failure('constructed-geometries', 'block_name_list:duplicate-or-malformed', inp, 'duplicates or wrong length', 'distinct 5-character names'); continue
                        for lay in geo.layerlist:
                            cols = geo.columnlist
                            for col in cols:
                                b = geo.block_name(lay.name, col.name)
                                if geo.column_name(b) != col.name or geo.layer_name(b) != lay.name:
                                    ctx.failure('constructed-geometries', 'block_name:not-invertible', dict(inp, layer=lay.name, column=col.name), repr((geo.column_name(b), geo.layer_name(b))), repr((col.name, lay.name))); break
                        for what, objs, length in (('column', geo.columnlist, geo.colname_length), ('layer', geo.layerlist, geo.layername_length), ('node', geo.nodelist, geo.colname_length)):
                            nms = [o.name for o in objs]
                            if len(set(nms)) != len(nms) or any(len(x) != length for x in nms):
                                ctx.failure('constructed-geometries', '%s-names:duplicate-or-wrong-length' % what, inp, repr(nms[:6]), 'distinct names of length %d' % length)
    ctx.oracle_cases('constructed-geometries', ng)
    # (4) add_layers on its own, across the layer numbers whose name would equal the surface layer's
    #     ('at' = layer 46 of convention 2, 'atm' = layer 1209 of convention 1 with lower-case letters)
    nl = 0
    for conv in range(4):
        for justify in ('r', 'l'):
            for chars, sp in ((string.ascii_lowercase, True), (string.ascii_uppercase, True), ('atm', True), (string.ascii_lowercase, False)):
                for n in ([1, 45, 46, 47, 60, 99] + ([1215] if conv == 1 and sp and len(chars) == 26 else [])):
                    inp = {'add_layers': n, 'convention': conv, 'justify': justify, 'chars': chars, 'spaces': sp}
                    nl += 1
                    ctx.count(('addlay', str(inp)))
                    try:
                        with orc.guard(60): ok, what = check_add_layers(mg, inp)
                    except orc.DoesNotTerminate: ok, what = False, 'does-not-terminate'
                    if not ok: ctx.failure('add-layers', 'add_layers:' + what, inp, what, 'surface layer + %d distinct layer names of the convention\'s length, or NamingConventionError' % n)
    ctx.oracle_cases('add-layers', nl)
    # (5) new_column_name / new_node_name on a constructed geometry: an unused name of the convention's length
    nk = 0
    for conv in range(4):
        for chars, sp in ((string.ascii_lowercase, True), ('klmn', True), (string.ascii_lowercase, False)):
            for justify in ('r', 'l'):
                inp = {'new_name': True, 'convention': conv, 'justify': justify, 'chars': chars, 'spaces': sp}
                nk += 1
                ctx.count(('newname', str(inp)))
                try:
                    with orc.guard(60): ok, what = check_new_names(mg, inp)
                except orc.DoesNotTerminate: ok, what = False, 'does-not-terminate'
                if not ok: ctx.failure('new-names', 'new_dict_key:' + what, inp, what, 'an unused name of the convention\'s length, or NamingConventionError')
    ctx.oracle_cases('new-names', nk)
    # (6) geometries the library constructs with every `case` option / mixed-case or repeating character sets, and by EDITING
    #     (rename_layer, refine_layers, refine, rename_column, add_layers; shipped geometry files): after every step all names
    #     distinct, of the convention's length, lists and by-name dictionaries agree, every block present, block names invertible
    scs = orc.scenarios(rng, ctx.thorough)
    kinds = {}
    runaways = 0
    for sc in scs:
        ctx.count(('scenario', str(sc)))
        for op in sc['ops']: kinds[op[0]] = kinds.get(op[0], 0) + 1
        kinds['base:' + ('file' if 'file' in sc['base'] else 'rectangular')] = kinds.get('base:' + ('file' if 'file' in sc['base'] else 'rectangular'), 0) + 1
        if runaways >= 3: break             # bounded run time whatever the tree does
        f = orc.run_scenario(mg, sc, ctx.repo)
        if f:
            key, observed, required, step = f
            if key.endswith('does-not-terminate'): runaways += 1
            if step == 0: key = ('mulgrid(file):' if 'file' in sc['base'] else 'rectangular:') + key
            ctx.failure('constructed-and-edited-geometries', key, dict(sc, failed_step=step), observed, required)
    ctx.oracle_cases('constructed-and-edited-geometries', len(scs), operations=kinds)
    # (7) no state carried between calls / objects; caller-owned and default arguments left alone
    npur = 0
    try:
        with orc.guard(300):
            for name, key, inp, observed, required in orc.purity_checks(mg, rng):
                ctx.failure('call-order-and-argument-purity', key, inp, observed, required)
    except orc.DoesNotTerminate:
        ctx.failure('call-order-and-argument-purity', 'purity:does-not-terminate', {'purity': None}, 'no result after 300 s', 'the checks end')
    ctx.count(('purity', ctx.seed)); npur += 4 * 150 * 3 + 3 + len(orc.DEFAULT_HOLDERS)
    ctx.oracle_cases('call-order-and-argument-purity', npur)


def check_add_layers(mg, inp):
    geo = mg.mulgrid(convention=inp['convention'])
    n = inp['add_layers']
    try: geo.add_layers([1.0] * n, 0.0, inp['justify'], inp['chars'], inp['spaces'])
    except mg.NamingConventionError: return True, ''
    except Exception as e: return False, 'unexpected-exception'
    names = [l.name for l in geo.layerlist]
    if len(names) != n + 1 or len(geo.layer) != n + 1: return False, 'layers-missing'
    if len(set(names)) != len(names): return False, 'duplicate-layer-name'
    if any(len(x) != geo.layername_length for x in names): return False, 'wrong-length'
    return True, ''


def check_new_names(mg, inp):
    try:
        geo = mg.mulgrid().rectangular([10.] * 4, [10.] * 3, [5.] * 2, convention=inp['convention'], justify=inp['justify'],
                                       chars=inp['chars'], spaces=inp['spaces'])
    except mg.NamingConventionError: return True, ''
    jf = str.ljust if inp['justify'] == 'l' else str.rjust
    for fn, d in ((geo.new_column_name, geo.column), (geo.new_node_name, geo.node)):
        for istart in (0, 5, len(d)):
            try: name, i = fn(istart, jf, mg.uniqstring(inp['chars']), inp['spaces'])
            except mg.NamingConventionError: continue
            except Exception: return False, 'unexpected-exception'
            if name in d: return False, 'key-in-use'
            if len(name) != geo.colname_length: return False, 'wrong-length'
            if i <= istart: return False, 'index-not-advanced'
    return True, ''


def guarded_oracle(ctx):
    try:
        with orc.guard(1500): oracle(ctx)
    except orc.DoesNotTerminate:
        ctx.failure('oracle', 'oracle:does-not-terminate', {'oracle': 'whole sweep'}, 'the oracle sweep did not end within 1500 s', 'the sweep ends')


def run(ctx):
    ctx.rule = ('correspondence: every five-character name over the alphabet "aZ 019" (7776) plus random names of length 0..7, generator integers at every capacity boundary '
                '(99/100, 702/703, 999/1000, 18278/18279 ...) plus random up to 20000, x 4 conventions x left/right justification x 8 alphabets x spaces; '
                'oracle: fix/unfix laws on names over letters, digits and blanks, all generator integers 1..3000 (thorough 20000) per configuration, rectangular geometries x conventions x atmosphere types x justification x alphabets; '
                'new_dict_key on dictionaries holding the first m generated names minus random holes (fuel |d|+2); the translated add_layers name slice (fuel 3) against the real layer list for '
                '0..130 layers (+ 702/703, 1208..1210 where the surface name "atm"/"at" would be generated) x conventions x justify x 6 alphabets x spaces; the per-convention tables; '
                'round 4: block_name with random block mappings (often holding the plain name); new_node_name / new_column_name on dictionaries with holes (fuel |d|+2); the alphabet of rectangular() read off real node names x case None/l/u/other x mixed-case alphabets; '
                'the refine_layers name slice (fuel 3) against the real layer list after renaming the atmosphere layer to regenerated / never regenerated names; fix_block_mapping on random mappings incl. a key together with its repair; '
                'oracle scenarios: rectangular x 4 conventions x case None/l/u x justify x mixed-case / repeating alphabets; edit sequences (rename atmosphere layer to a name the regenerated sequence reaches, '
                'refine_layers, refine, rename_column, add_layers, write-then-read into a fresh or a used object, block_name with a block mapping, other live geometries) on small grids x conventions x atmosphere types x alphabets and on tests/mulgrid/g1..g7.dat, checked after every step, in shuffled order; call-order and argument-purity checks; '
                'distinct by the full argument tuple')
    ctx.trusted += ['Coq 8.16.1 kernel (coqc); no native_compute', 'translator tools/translate/pyfun.py (Python AST -> Gallina over PTBase.PyVal) and its loop extension tools/props/c17_translate.py (while -> fuel fixpoint, for -> structural fixpoint, add_layers cut down to its name-deciding statements), fail-closed, validated by the extracted-code correspondence on every run',
                    'PTBase.PyVal / PyStr: hand-written semantics of the Python string operations used', 'extraction: ExtrOcamlBasic + ExtrOcamlString, OCaml 4.13.1, ocaml/main.ml']
    ctx.assumptions += ['names are ASCII; alphabets are non-empty', 'theorems about the numbering functions: numbers >= 0, alphabets duplicate-free, blank-free when spaces=True, >= 2 characters when spaces=False; end-to-end block-name theorem: digit-free alphabets; block_name with the empty block mapping', "spaces=False with a one-character alphabet is excluded (Python's own recursion does not terminate there)"]
    ctx.stage()
    ok = translate(ctx)
    exe = None
    if ok:
        ctx.coq_build(props=('Props.v', 'Props2.v', 'Props3.v', 'Props4.v', 'Props5.v', 'Props6.v'))
        exe = vf.build_driver(ctx)
    if exe:
        try:
            with orc.guard(1200): correspond(ctx, exe)
        except orc.DoesNotTerminate:
            ctx.proof_failures.append({'kind': 'correspondence', 'name': 'generated-naming-functions-vs-mulgrids', 'detail': 'the correspondence run did not end within 1200 s'})
    guarded_oracle(ctx)
    def deep(broken):
        if not ctx.thorough:
            ctx.thorough = True
            guarded_oracle(ctx)
    return ctx.finish(deep_search=deep)


def replay(ctx, data):
    try:
        with orc.guard(300): return replay_(ctx, data)
    except orc.DoesNotTerminate:
        print('replay: does not terminate')
        return True


def replay_(ctx, data):
    import mulgrids as mg
    inp = data.get('input') or {}
    key = data.get('finding_key', '')
    if 'name' in inp:
        n = inp['name']; f = mg.fix_blockname(n)
        c1 = mg.fix_blockname(mg.unfix_blockname(n)); c2 = mg.fix_blockname(mg.unfix_blockname(c1))
        printed = n[4].isdigit() and (n[3] == ' ' or (n[3].isdigit() and n[3] != '0'))
        print('replay', repr(n), repr(f), repr(c1), repr(c2))
        return mg.fix_blockname(f) != f or c1 != c2 or (printed and mg.unfix_blockname(f) != n)
    if 'num' in inp:
        geo = mg.mulgrid(convention=inp['convention'])
        what = key.split('_')[0]
        fn = {'column': geo.column_name_from_number, 'node': geo.node_name_from_number, 'layer': geo.layer_name_from_number}[what]
        jf = str.ljust if inp['justify'] == 'ljust' else str.rjust
        length = geo.layername_length if what == 'layer' else geo.colname_length
        try:
            a = fn(inp['num'], jf, inp['chars'], inp['spaces'])
            if len(a) != length: return True
            if 'other' in inp: return a == fn(inp['other'], jf, inp['chars'], inp['spaces'])
            return False
        except mg.NamingConventionError: return False
        except Exception: return True
    if 'scenario' in inp: return orc.run_scenario(mg, inp, ctx.repo) is not None
    if 'purity' in inp:
        import random
        return any(True for _ in orc.purity_checks(mg, random.Random(0), inp['purity']))
    if 'add_layers' in inp: return not check_add_layers(mg, inp)[0]
    if 'new_name' in inp: return not check_new_names(mg, inp)[0]
    if 'n' in inp and 'convention' in inp:
        nx, ny, nz = inp['n']; atm = inp['atmos_type']
        try:
            geo = mg.mulgrid().rectangular([10.] * nx, [10.] * ny, [5.] * nz, convention=inp['convention'], atmos_type=atm,
                                           justify=inp['justify'], chars=inp['chars'], spaces=inp['spaces'])
        except mg.NamingConventionError: return False
        except Exception: return True
        nblk = nx * ny * nz + (0 if atm == 2 else (1 if atm == 0 else nx * ny))
        names = geo.block_name_list
        counts = (len(geo.layerlist), len(geo.layer), len(geo.columnlist), len(geo.column), len(names))
        print('replay', inp, counts)
        if counts != (nz + 1, nz + 1, nx * ny, nx * ny, nblk): return True
        if len(set(names)) != len(names) or any(len(b) != 5 for b in names): return True
        for lay in geo.layerlist:
            for col in geo.columnlist:
                b = geo.block_name(lay.name, col.name)
                if geo.column_name(b) != col.name or geo.layer_name(b) != lay.name: return True
        for objs, length in ((geo.columnlist, geo.colname_length), (geo.layerlist, geo.layername_length), (geo.nodelist, geo.colname_length)):
            nms = [o.name for o in objs]
            if len(set(nms)) != len(nms) or any(len(x) != length for x in nms): return True
        return False
    return True
