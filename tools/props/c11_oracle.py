"""C11 oracle: the property statement evaluated on the implementation alone.

A *case* is a JSON-serialisable dict
   {'mesh': {...how to build the geometry through the public API...},
    'surfaces': [[column index, elevation], ...]        (optional)
    'pre': [op, ...]                                     (earlier edits, optional)
    'op': {'name': 'refine'|'decompose'|'triangulate'|'split'|'refine_layers', ...}}
`check_case(case)` builds the geometry, records what the property talks about, applies the
operation, and returns the list of clauses of the property that fail afterwards.

Everything geometric here (shoelace area, point-in-polygon, distance to a segment) is
re-implemented independently of PyTOUGH's own helpers."""
import os, sys, io, math, contextlib, traceback
import numpy as np

REL = 1e-9          # relative tolerance on areas / volumes
EDGE_TOL = 1e-7     # sample points closer than this (relative to the mesh size) to an edge are skipped
ON_TOL = 1e-9       # a node closer than this (relative to the edge length) to an edge lies on it


# ------------------------------------------------------------------ plain geometry
def shoelace(poly):
    a = 0.0
    n = len(poly)
    for i in range(n):
        x1, y1 = poly[i]; x2, y2 = poly[(i + 1) % n]
        a += x1 * y2 - x2 * y1
    return 0.5 * a


def shoelace_shifted(poly):
    x0, y0 = poly[0]
    return shoelace([(x - x0, y - y0) for x, y in poly])


def pip(p, poly):
    """crossing-number test; callers keep p away from the edges"""
    x, y = p; inside = False
    n = len(poly)
    for i in range(n):
        x1, y1 = poly[i]; x2, y2 = poly[(i + 1) % n]
        if (y1 > y) != (y2 > y):
            xi = x1 + (y - y1) * (x2 - x1) / (y2 - y1)
            if x < xi: inside = not inside
    return inside


def seg_dist(p, a, b):
    ax, ay = a; bx, by = b; px, py = p
    dx, dy = bx - ax, by - ay
    L2 = dx * dx + dy * dy
    if L2 == 0.0: return math.hypot(px - ax, py - ay), 0.0
    t = ((px - ax) * dx + (py - ay) * dy) / L2
    tc = min(1.0, max(0.0, t))
    return math.hypot(px - (ax + tc * dx), py - (ay + tc * dy)), t


def edge_dist(p, poly):
    return min(seg_dist(p, poly[i], poly[(i + 1) % len(poly)])[0] for i in range(len(poly)))


def interior_point(poly):
    """a point strictly inside a simple polygon: centroid if it is inside, else the centroid
    of an ear"""
    a = shoelace_shifted(poly)
    n = len(poly)
    if a != 0.0:
        x0, y0 = poly[0]
        cx = cy = 0.0
        for i in range(n):
            x1, y1 = poly[i][0] - x0, poly[i][1] - y0
            x2, y2 = poly[(i + 1) % n][0] - x0, poly[(i + 1) % n][1] - y0
            t = x1 * y2 - x2 * y1
            cx += (x1 + x2) * t; cy += (y1 + y2) * t
        c = (cx / (6 * a) + x0, cy / (6 * a) + y0)
        if pip(c, poly): return c
    best = None
    for i in range(n):
        tri = [poly[i - 1], poly[i], poly[(i + 1) % n]]
        c = (sum(p[0] for p in tri) / 3.0, sum(p[1] for p in tri) / 3.0)
        if pip(c, poly):
            d = edge_dist(c, poly)
            if best is None or d > best[0]: best = (d, c)
    return best[1] if best else (sum(p[0] for p in poly) / n, sum(p[1] for p in poly) / n)


# ------------------------------------------------------------------ building geometries
def _quiet():
    return contextlib.redirect_stdout(io.StringIO())


def repo_dir():
    import mulgrids
    return os.path.dirname(os.path.abspath(mulgrids.__file__))


def build(mesh):
    import mulgrids
    from mulgrids import mulgrid, node, column
    k = mesh['kind']
    if k == 'rect':
        g = mulgrid().rectangular(mesh['dx'], mesh['dy'], mesh['dz'], convention=mesh.get('convention', 0),
                                  atmos_type=mesh.get('atmos', 2), origin=mesh.get('origin', [0., 0., 0.]))
        if mesh.get('rotate'): g.rotate(mesh['rotate'])
        if mesh.get('centres'): g = with_specified_centres(g, mesh['centres'])
        return g
    if k == 'file':
        path = os.path.join(repo_dir(), 'tests', 'mulgrid', mesh['name'])
        if mesh.get('read_into_used'):
            # the geometry is read into an object that already held (and edited) another geometry
            g = mulgrid(os.path.join(repo_dir(), 'tests', 'mulgrid', 'g7.dat'))
            with _quiet(): g.refine([g.columnlist[5].name, g.columnlist[6].name])
            g.read(path)
        else: g = mulgrid(path)
        with _quiet(): g.check(fix=True, silent=True)
        g.setup_block_name_index(); g.setup_block_connection_name_index()
        return g
    if k == 'custom':
        g = mulgrid(type='GENER', convention=mesh.get('convention', 0), atmos_type=mesh.get('atmos', 2))
        g.empty()
        names = []
        for i, (x, y) in enumerate(mesh['nodes']):
            nm = g.node_name_from_number(i + 1)
            names.append(nm)
            g.add_node(node(nm, np.array([float(x), float(y)])))
        for j, idx in enumerate(mesh['columns']):
            g.add_column(column(g.column_name_from_number(j + 1), [g.node[names[i]] for i in idx]))
        if mesh.get('centres'): g = with_specified_centres(g, mesh['centres'], finish=False)
        for con in g.missing_connections: g.add_connection(con)
        g.add_layers(mesh['dz'], mesh.get('top', 0.0))
        g.set_default_surface()
        g.identify_neighbours()
        g.setup_block_name_index(); g.setup_block_connection_name_index()
        return g
    raise ValueError('unknown mesh kind %r' % k)


def with_specified_centres(src, how, finish=True):
    """the same geometry with every column built as column(name, nodes, centre=...), i.e.
    centre_specified = 1 as for columns read from a file that lists column centres.
    how = 'centroid': the centre given is the centroid;  'offset': a point between the centroid
    and the first node (strictly inside a convex column, not the centroid)"""
    from mulgrids import mulgrid, node, column, connection
    g = mulgrid(type=src.type, convention=src.convention, atmos_type=src.atmosphere_type)
    g.empty()
    for n in src.nodelist: g.add_node(node(n.name, n.pos.copy()))
    for c in src.columnlist:
        nodes = [g.node[n.name] for n in c.node]
        cen = np.array(c.centroid, dtype=float)
        if how == 'offset': cen = 0.75 * cen + 0.25 * np.array(c.node[0].pos, dtype=float)
        g.add_column(column(c.name, nodes, centre=cen, surface=c.surface))
    if not finish: return g
    for con in src.connectionlist: g.add_connection(connection([g.column[c.name] for c in con.column]))
    lays = src.layerlist
    g.add_layers([l.top - l.bottom for l in lays[1:]], lays[0].bottom)
    g.set_default_surface()
    for c in src.columnlist:
        if c.surface is not None:
            g.column[c.name].surface = c.surface
            g.set_column_num_layers(g.column[c.name])
    g.identify_neighbours()
    g.setup_block_name_index(); g.setup_block_connection_name_index()
    return g


def set_surfaces(g, surfaces):
    if not surfaces: return
    for i, s in surfaces:
        if i < len(g.columnlist):
            col = g.columnlist[i]
            col.surface = float(s)
            g.set_column_num_layers(col)
    g.setup_block_name_index(); g.setup_block_connection_name_index()


def _sel(g, op, key='columns'):
    """column names an op acts on: explicit names (resolved by the sequence runner) or indices into columnlist"""
    cl = g.columnlist
    if 'colnames' in op: return [n for n in op['colnames'] if n in g.column]
    if op.get('wrap'): return [cl[i].name for i in sorted(set(j % len(cl) for j in op.get(key, [])))] if cl else []
    return [cl[i].name for i in op.get(key, []) if i < len(cl)]


def op_args(g, op):
    """the argument objects of the call an op stands for (lists of column / layer NAMES, as a user
    passes them), built once so that the very same objects can be handed to a second call"""
    nm = op['name']
    cl = g.columnlist
    if nm == 'refine':
        cols = _sel(g, op)
        return {'cols': cols, 'edge': [cl[i].name for i in op.get('edge', []) if i < len(cl) and cl[i].name not in cols]}
    if nm in ('decompose', 'triangulate'): return {'cols': _sel(g, op)}
    if nm == 'split':
        if 'colnames' in op:
            cand = [n for n in op['colnames'] if n in g.column]
            if not cand: return {'col': None}
            col = g.column[cand[op.get('pick', 0) % len(cand)]]
        else: col = cl[op['column'] % len(cl)] if op.get('wrap') else cl[op['column']]
        nn = op['node']
        return {'col': col.name, 'node': col.node[nn].name if 0 <= nn < col.num_nodes else '~~~'}   # '~~~': a node that is not in the column
    if nm == 'refine_layers':
        ll = g.layerlist
        return {'layers': [ll[i].name for i in op.get('layers', []) if 0 < i < len(ll)]}
    raise ValueError('unknown op %r' % nm)


def apply_op(g, op, args=None):
    """returns a short description of what the call did"""
    nm = op['name']
    a = op_args(g, op) if args is None else args
    if nm == 'refine':
        if not a['cols']: return 'empty-selection'
        with _quiet() as out:
            g.refine(a['cols'], bisect=op.get('bisect', False), bisect_edge_columns=a['edge'])
        return 'ok'
    if nm == 'decompose':
        with _quiet(): g.decompose_columns(a['cols'])
        return 'ok'
    if nm == 'triangulate':
        with _quiet():
            for c in a['cols']: g.triangulate_column(c)
            # triangulate_column() is the step decompose_columns() applies per column; the caller
            # (here, as decompose_columns does) adds the connections and rebuilds the block indices
            for c in g.missing_connections: g.add_connection(c)
            g.setup_block_name_index(); g.setup_block_connection_name_index()
        return 'ok' if a['cols'] else 'empty-selection'
    if nm == 'split':
        if a['col'] is None: return 'empty-selection'
        with _quiet(): r = g.split_column(a['col'], a['node'])
        return 'ok' if r else 'returned-False'
    if nm == 'refine_layers':
        with _quiet(): g.refine_layers(a['layers'], factor=op.get('factor', 2))
        return 'ok'
    raise ValueError('unknown op %r' % nm)


# ------------------------------------------------------------------ what the property talks about
class Snap:
    pass


def rock_volume(g):
    """sum of block_volume over block_name_list, atmosphere blocks left out; per column too"""
    total = 0.0; per = {}
    atm = g.layerlist[0].name if g.layerlist else None
    for blk in g.block_name_list:
        ln, cn = g.layer_name(blk), g.column_name(blk)
        if ln == atm: continue
        v = g.block_volume(g.layer[ln], g.column[cn])
        if v is None: raise TypeError('block_volume(%r) is None' % blk)
        total += v; per[cn] = per.get(cn, 0.0) + v
    return total, per


def snapshot(g):
    s = Snap()
    s.area = float(g.area)
    s.cols = {}
    for c in g.columnlist:
        s.cols[c.name] = (tuple(n.name for n in c.node), tuple((float(n.pos[0]), float(n.pos[1])) for n in c.node),
                          None if c.surface is None else float(c.surface), float(c.area),
                          (float(c.centre[0]), float(c.centre[1])))
    s.geo_area = sum(abs(shoelace_shifted(v[1])) for v in s.cols.values())
    s.volume, s.colvol = rock_volume(g)
    s.nodes = {n.name: (float(n.pos[0]), float(n.pos[1])) for n in g.nodelist}
    s.sides = set()
    for v in s.cols.values():
        nm = v[0]
        for i in range(len(nm)): s.sides.add(frozenset((nm[i], nm[(i + 1) % len(nm)])))
    s.layers = [(l.name, float(l.bottom), float(l.top)) for l in g.layerlist]
    zs = [abs(l[1]) for l in s.layers] + [abs(l[2]) for l in s.layers] + [abs(v[2]) for v in s.cols.values() if v[2] is not None] + [1.0]
    s.zscale = max(zs)
    xs = [p[0] for p in s.nodes.values()] or [0.0]; ys = [p[1] for p in s.nodes.values()] or [0.0]
    s.size = max(max(xs) - min(xs), max(ys) - min(ys), 1e-30)
    return s


def _close(a, b, scale=None):
    scale = max(abs(a), abs(b)) if scale is None else scale
    return abs(a - b) <= REL * max(scale, 1e-300)


def sample_points(poly, k, rng):
    """k points strictly inside a simple polygon: random points of the bounding box that pass
    the point-in-polygon test and keep clear of the edges; plus the interior point"""
    pts = [interior_point(poly)]
    xs = [p[0] for p in poly]; ys = [p[1] for p in poly]
    x0, x1, y0, y1 = min(xs), max(xs), min(ys), max(ys)
    tries = 0
    while len(pts) < k and tries < 20 * k:
        tries += 1
        p = (x0 + (x1 - x0) * rng.random(), y0 + (y1 - y0) * rng.random())
        if pip(p, poly): pts.append(p)
    return pts


def compare(before, g, opname, rng, npts=6, lattice=0):
    """clauses of the property that fail on geometry g (after the operation), given the
    snapshot taken before it.  Returns (failures, stats)."""
    F = []
    def fail(key, observed, required, col=None):
        F.append({'key': '%s:%s' % (opname, key), 'observed': observed, 'required': required, 'col': col, 'clause': key})
    try: after = snapshot(g)
    except Exception as e:
        fail('volume-exception', 'computing area/volume after the operation raised %r' % (e,), 'area and volume are defined')
        return F, {}
    st = {}
    # --- total plan area / rock volume
    cache_bad = [n for n, v in after.cols.items() if not _close(v[3], abs(shoelace_shifted(v[1])), max(abs(v[3]), after.geo_area * 1e-6))]
    if not _close(after.geo_area, before.geo_area):
        fail('area', 'sum of polygon areas %.17g -> %.17g' % (before.geo_area, after.geo_area), 'unchanged (rel %g)' % REL)
    elif not _close(after.area, before.area):
        fail('stale-area', 'mulgrid.area %.17g -> %.17g although the polygons still cover %.17g; columns whose cached area is not their polygon area: %s'
             % (before.area, after.area, after.geo_area, cache_bad[:5]), 'total plan area unchanged')
    if not _close(after.volume, before.volume, max(abs(after.volume), abs(before.volume), before.geo_area * before.zscale)):
        fail('volume', 'sum of block_volume %.17g -> %.17g' % (before.volume, after.volume), 'unchanged (rel %g)' % REL)
    # --- new columns tile the old ones
    gone = [n for n, v in before.cols.items() if n not in after.cols or after.cols[n][0] != v[0]]
    new = [n for n, v in after.cols.items() if n not in before.cols or before.cols[n][0] != v[0]]
    st['replaced'] = len(gone); st['new'] = len(new)
    tol = EDGE_TOL * after.size
    newpoly = {n: after.cols[n][1] for n in new}
    bbox = {n: (min(p[0] for p in q), max(p[0] for p in q), min(p[1] for p in q), max(p[1] for p in q)) for n, q in newpoly.items()}
    parent = {}
    kids = {}
    for n in new:
        poly = newpoly[n]
        if abs(shoelace_shifted(poly)) <= REL * after.size ** 2 * 1e-3:
            fail('degenerate-column', 'new column %r has (almost) zero area: %s' % (n, poly), 'new columns tile the old ones', col=n)
            continue
        p = interior_point(poly)
        olds = [o for o in gone if pip(p, before.cols[o][1])]
        if len(olds) != 1:
            if edge_dist(p, poly) > tol:
                fail('containment', 'interior point %s of new column %r lies in %d replaced columns %s' % (p, n, len(olds), olds), 'exactly one')
            continue
        o = olds[0]; parent[n] = o; kids.setdefault(o, []).append(n)
        opoly = before.cols[o][1]
        out = [v for v in poly if not pip(v, opoly) and edge_dist(v, opoly) > tol]
        if out:
            fail('containment', 'new column %r (interior point in old column %r) has vertices %s outside it' % (n, o, out), 'new column lies inside the old one')
        so, sn = before.cols[o][2], after.cols[n][2]
        if so != sn:
            fail('surface', 'new column %r has surface %r, the old column %r containing it had %r' % (n, sn, o, so), 'surface inherited')
    for o in gone:
        # are the hypotheses of the orientation theorem met by this parent?  (strictly convex,
        # counter-clockwise, centre strictly inside)
        opoly = before.cols[o][1]; cen = before.cols[o][4]; m = len(opoly)
        cv = all(shoelace_shifted([opoly[i], opoly[(i + 1) % m], opoly[(i + 2) % m]]) > 0 for i in range(m))
        ci = all(shoelace_shifted([opoly[i], opoly[(i + 1) % m], cen]) > 0 for i in range(m))
        st['parents_convex_centre_inside' if (cv and ci) else 'parents_other'] = st.get('parents_convex_centre_inside' if (cv and ci) else 'parents_other', 0) + 1
        # hypothesis centre_ok of refine_column_tiles: the centre lies beyond the line joining the
        # mid-points of the two sides at every corner
        mid = lambda a, b: ((a[0] + b[0]) / 2.0, (a[1] + b[1]) / 2.0)
        ck = all(shoelace_shifted([mid(opoly[i], opoly[(i + 1) % m]), cen, mid(opoly[i], opoly[i - 1])]) > 0 for i in range(m))
        if cv and ci: st['parents_centre_ok' if ck else 'parents_centre_not_ok'] = st.get('parents_centre_ok' if ck else 'parents_centre_not_ok', 0) + 1
        ks = kids.get(o, [])
        if not ks:
            fail('tiling', 'replaced column %r contains no new column' % o, 'new columns tile the old ones'); continue
        a_old = abs(shoelace_shifted(before.cols[o][1])); a_new = sum(abs(shoelace_shifted(newpoly[k])) for k in ks)
        if not _close(a_old, a_new):
            fail('area', 'old column %r area %.17g, its new columns %s sum to %.17g' % (o, a_old, ks, a_new), 'equal (rel %g)' % REL)
        v_old = before.colvol.get(o, 0.0); v_new = sum(after.colvol.get(k, 0.0) for k in ks)
        if not _close(v_old, v_new, max(abs(v_old), abs(v_new), a_old * before.zscale)):
            fail('volume', 'old column %r volume %.17g, its new columns %s sum to %.17g' % (o, v_old, ks, v_new), 'equal (rel %g)' % REL)
        # sample points: each in exactly one new column, which is a child of o
        pts = sample_points(before.cols[o][1], npts, rng)
        for p in pts:
            if edge_dist(p, before.cols[o][1]) <= tol: continue
            hits = []; near = False
            for n in new:
                b = bbox[n]
                if p[0] < b[0] - tol or p[0] > b[1] + tol or p[1] < b[2] - tol or p[1] > b[3] + tol: continue
                if edge_dist(p, newpoly[n]) <= tol: near = True; break
                if pip(p, newpoly[n]): hits.append(n)
            if near: continue
            st['points'] = st.get('points', 0) + 1
            if len(hits) != 1:
                fail('tiling', 'point %s of old column %r lies in %d new columns %s' % (p, o, len(hits), hits), 'exactly one')
            elif parent.get(hits[0]) != o:
                fail('tiling', 'point %s of old column %r lies in new column %r which is not inside it' % (p, o, hits[0]), 'inside the old column')
    for n, v in after.cols.items():
        if n in before.cols and before.cols[n][0] == v[0]:
            vo, vn = before.colvol.get(n, 0.0), after.colvol.get(n, 0.0)
            if not _close(vo, vn, max(abs(vo), abs(vn), v[3] * before.zscale)):
                fail('volume', 'unchanged column %r: volume %.17g -> %.17g' % (n, vo, vn), 'equal (rel %g)' % REL)
            if before.cols[n][2] != v[2]:
                fail('surface', 'unchanged column %r: surface %r -> %r' % (n, before.cols[n][2], v[2]), 'unchanged')
    # --- lattice over the whole domain: every point of the original domain in exactly one column
    if lattice:
        allb = {n: (min(p[0] for p in v[1]), max(p[0] for p in v[1]), min(p[1] for p in v[1]), max(p[1] for p in v[1])) for n, v in after.cols.items()}
        xs = [p[0] for p in before.nodes.values()]; ys = [p[1] for p in before.nodes.values()]
        x0, x1, y0, y1 = min(xs), max(xs), min(ys), max(ys)
        for i in range(lattice):
            for j in range(lattice):
                p = (x0 + (x1 - x0) * (i + 0.377) / lattice, y0 + (y1 - y0) * (j + 0.613) / lattice)
                inb = [o for o, v in before.cols.items() if pip(p, v[1])]
                if any(edge_dist(p, before.cols[o][1]) <= tol for o in inb): continue
                hits = []; near = False
                for n, v in after.cols.items():
                    b = allb[n]
                    if p[0] < b[0] - tol or p[0] > b[1] + tol or p[1] < b[2] - tol or p[1] > b[3] + tol: continue
                    if edge_dist(p, v[1]) <= tol: near = True; break
                    if pip(p, v[1]): hits.append(n)
                if near: continue
                st['lattice'] = st.get('lattice', 0) + 1
                if len(hits) != len(inb) or (len(inb) == 1 and len(hits) == 1 and after.cols[hits[0]][2] != before.cols[inb[0]][2]):
                    fail('tiling', 'lattice point %s: in old columns %s, in new columns %s' % (p, inb, hits), 'same count (one inside the domain, none outside), same surface')
    # --- conformity: connections are exactly the shared edges
    try:
        with _quiet(): mc = g.missing_connections; ec = g.extra_connections
        if mc: fail('connections', 'missing_connections = %s' % sorted(tuple(c.name for c in con.column) for con in mc)[:6], 'empty')
        if ec: fail('connections', 'extra_connections = %s' % sorted(ec)[:6], 'empty')
    except Exception as e:
        fail('connections', 'missing_connections/extra_connections raised %r' % (e,), 'empty')
    side_cols = {}
    for n, v in after.cols.items():
        nm = v[0]
        for i in range(len(nm)): side_cols.setdefault(frozenset((nm[i], nm[(i + 1) % len(nm)])), []).append(n)
    shared = set()
    for sd, cs in side_cols.items():
        if len(cs) == 2: shared.add(frozenset(cs))
        elif len(cs) > 2: fail('conformity', 'side %s belongs to %d columns %s' % (sorted(sd), len(cs), cs), 'at most two')
    cons = set(frozenset(c.name for c in con.column) for con in g.connectionlist)
    if shared != cons:
        fail('connections', 'columns sharing an edge without connection: %s; connections without shared edge: %s'
             % (sorted(map(sorted, shared - cons))[:5], sorted(map(sorted, cons - shared))[:5]), 'two columns share an edge exactly when a connection joins them')
    # --- conformity: no node in the interior of another column's edge
    used = [n for n in g.nodelist if len(n.column) > 0]
    if used:
        P = np.array([after.nodes[n.name] for n in used]); names = [n.name for n in used]
        newnodes = set(names) - set(before.nodes)
        isnew = np.array([nm in newnodes for nm in names])
        newset = set(new)
        done = set()
        for cn, v in after.cols.items():
            nm, poly = v[0], v[1]
            for i in range(len(nm)):
                sd = frozenset((nm[i], nm[(i + 1) % len(nm)]))
                if sd in done: continue
                done.add(sd)
                a = np.array(poly[i]); b = np.array(poly[(i + 1) % len(nm)])
                d = b - a; L2 = float(d @ d)
                if L2 == 0.0:
                    fail('conformity', 'column %r has a zero-length side %s' % (cn, sorted(sd)), 'proper polygon'); continue
                allnodes = (cn in newset) or (sd not in before.sides)
                Q = P if allnodes else P[isnew]
                if Q.size == 0: continue
                t = ((Q - a) @ d) / L2
                perp = np.abs((Q[:, 0] - a[0]) * d[1] - (Q[:, 1] - a[1]) * d[0]) / math.sqrt(L2)
                bad = (t > ON_TOL) & (t < 1 - ON_TOL) & (perp <= ON_TOL * math.sqrt(L2))
                if bad.any():
                    idx = np.nonzero(bad)[0]
                    cn_names = names if allnodes else [x for x, f in zip(names, isnew) if f]
                    for k in idx[:3]:
                        hn = cn_names[k]
                        if hn in sd: continue
                        if hn in before.nodes and sd in before.sides: continue      # was already so before the operation
                        fail('hanging-node', 'node %r at %s lies in the interior of side %s of column %r' % (hn, after.nodes[hn], sorted(sd), cn),
                             'no node in the interior of another column\'s edge', col=cn)
    if opname == 'decompose_columns':
        # finding key = call site + input class of the decomposed column (DESIGN.md App. D)
        for f in F:
            if f['clause'] in ('degenerate-column', 'hanging-node') and f.get('col') in after.cols:
                old = set(after.cols[f['col']][0]) & set(before.nodes)
                par = [o for o in gone if len(before.cols[o][0]) > 4 and old <= set(before.cols[o][0])]
                if par: f['key'] = 'decompose_columns:' + straight_class(before.cols[par[0]][1])
    for f in F: f.pop('col', None); f.pop('clause', None)
    return F, st


def straight_class(poly):
    """input class of a column handed to decompose_column: number of nodes, number of straight
    nodes (interior angle > pi - 1e-3, as the code classifies them), and whether two straight
    nodes are neighbours in the node order"""
    n = len(poly); st = []
    for i in range(n):
        a, b, c = poly[i - 1], poly[i], poly[(i + 1) % n]
        h1 = math.atan2(b[1] - a[1], b[0] - a[0]); h2 = math.atan2(c[1] - b[1], c[0] - b[0])
        ang = (math.pi - (h2 - h1)) % (2 * math.pi)
        if ang > math.pi - 1e-3: st.append(i)
    adj = any(((s + 1) % n) in st for s in st)
    return '%dgon-%dstraight%s' % (n, len(st), '-adjacent' if adj else '')


OPNAMES = {'refine': 'refine', 'decompose': 'decompose_columns', 'triangulate': 'triangulate_column', 'split': 'split_column',
           'refine_layers': 'refine_layers'}


def op_targets(g, op):
    """names of the columns an op is aimed at (before it is applied)"""
    if op['name'] == 'refine_layers': return []
    if op['name'] == 'split':
        if 'colnames' in op:
            cand = [n for n in op['colnames'] if n in g.column]
            return [cand[op.get('pick', 0) % len(cand)]] if cand else []
        cl = g.columnlist
        i = op['column'] % len(cl) if op.get('wrap') else op['column']
        return [cl[i].name] if i < len(cl) else []
    return _sel(g, op)


def resolve_target(g, op, prev):
    """later steps of a sequence name their columns relative to the step before:
    'same' = the columns the previous step was aimed at that still exist (split_column's shrunk
    column), 'created' = the columns it created, 'touched' = both, 'neighbours' = the columns next
    to those, 'all'.  `take` = positions (mod length) to keep of that list."""
    t = op.get('target')
    if t is None or prev is None: return op
    touched = prev['same'] + [n for n in prev['created'] if n not in prev['same']]
    if t == 'same': names = list(prev['same'])
    elif t == 'created': names = list(prev['created'])
    elif t == 'touched': names = touched
    elif t == 'neighbours':
        ts = set(touched); names = []
        for n in touched:
            if n in g.column:
                for nb in sorted(x.name for x in g.column[n].neighbour):
                    if nb not in ts and nb not in names: names.append(nb)
    elif t == 'all': names = [c.name for c in g.columnlist]
    else: raise ValueError('unknown target %r' % t)
    names = [n for n in names if n in g.column]
    if op.get('nodes_in'): names = [n for n in names if g.column[n].num_nodes in op['nodes_in']]
    if op.get('take') is not None and names:
        names = [names[k % len(names)] for k in op['take']]
        names = [n for i, n in enumerate(names) if n not in names[:i]]
    op = dict(op); op['colnames'] = names
    return op


def check_steps(case):
    """a sequence of operations (earlier refinements as inputs): every clause of the property is
    evaluated after EACH step against the geometry before that step"""
    import random
    rng = random.Random(case.get('seed', 0))
    res = {'failures': [], 'status': 'ok', 'stats': {}}
    steps = case['steps']
    try:
        g = build(case['mesh'])
        set_surfaces(g, case.get('surfaces'))
        with _quiet():
            if g.missing_connections or g.extra_connections:
                res['status'] = 'input-not-conforming'; return res
    except Exception as e:
        res['status'] = 'setup-failed: %r' % (e,)
        res['trace'] = traceback.format_exc()[-1500:]
        return res
    prev = None; statuses = []; stats = {}
    for k, op0 in enumerate(steps):
        opname = OPNAMES[op0['name']]
        where = 'step %d (%s) of the sequence %s' % (k + 1, opname, ' -> '.join(OPNAMES[o['name']] for o in steps))
        try:
            op = resolve_target(g, op0, prev)
            before = snapshot(g)
            targets = op_targets(g, op)
        except Exception as e:
            res['failures'].append({'key': '%s:exception' % opname, 'observed': '%s: preparing it raised %r\n%s' % (where, e, traceback.format_exc()[-800:]),
                                    'required': 'area and volume are defined after the earlier steps'})
            break
        try:
            r = apply_op(g, op)
        except Exception as e:
            tb = traceback.format_exc()
            if opname == 'refine' and isinstance(e, TypeError) and 'NoneType' in str(e) and op.get('edge') and op.get('bisect'):
                statuses.append('edge-column-without-refined-side'); break
            if type(e).__name__ == 'NamingConventionError':
                statuses.append('naming-capacity-exceeded'); break
            res['failures'].append({'key': '%s:exception' % opname, 'observed': '%s: raised %r\n%s' % (where, e, tb[-800:]), 'required': 'the operation completes'})
            break
        statuses.append(r)
        F, st = compare(before, g, opname, rng, npts=case.get('npts', 6), lattice=case.get('lattice', 0))
        for kk, v in st.items(): stats[kk] = stats.get(kk, 0) + v
        if F:
            for f in F: f['observed'] = '%s, columns %s: %s' % (where, targets[:6], f['observed'])
            res['failures'] = F
            break
        if op['name'] != 'refine_layers':       # layers do not change which columns the next step means
            prev = {'same': [n for n in targets if n in g.column],
                    'created': [c.name for c in g.columnlist if c.name not in before.cols]}
    res['stats'] = stats
    bad = [x for x in statuses if x != 'ok']
    res['status'] = 'ok' if (statuses and not bad and len(statuses) == len(steps)) else ('incomplete' if not bad else bad[0])
    res['steps_done'] = statuses
    return res


def check_case(case):
    """run one case; returns {'failures': [...], 'status': str, 'stats': {...}}"""
    import random
    if 'steps' in case: return check_steps(case)
    rng = random.Random(case.get('seed', 0))
    res = {'failures': [], 'status': 'ok', 'stats': {}}
    op = case['op']
    opname = OPNAMES[op['name']]
    try:
        g = build(case['mesh'])
        set_surfaces(g, case.get('surfaces'))
        for p in case.get('pre', []):
            try: apply_op(g, p)
            except Exception as e:
                # an earlier edit of the history is itself one of the operations under test
                pn = OPNAMES[p['name']]
                res['failures'].append({'key': '%s:exception' % pn, 'observed': 'earlier edit %r raised %r\n%s' % (p, e, traceback.format_exc()[-600:]),
                                        'required': 'the operation completes'})
                return res
        with _quiet():
            if g.missing_connections or g.extra_connections:
                res['status'] = 'input-not-conforming'; return res
        before = snapshot(g)
    except Exception as e:
        res['status'] = 'setup-failed: %r' % (e,)
        res['trace'] = traceback.format_exc()[-1500:]
        return res
    reused = ''
    try:
        args = op_args(g, op)
        if case.get('twin'):
            # a model variant (same mesh and names, other topography) is edited first by the same call
            # with the SAME argument objects (the caller's lists of names); then the geometry under test
            g2 = build(case['mesh'])
            set_surfaces(g2, [[i, sf + case['twin'].get('surface_shift', -1.0)] for i, sf in (case.get('surfaces') or [])])
            for p in case.get('pre', []): apply_op(g2, p)
            apply_op(g2, op, args)
            reused = ' [the argument lists of names had first been passed to the same call on another geometry with the same column names]'
        r = apply_op(g, op, args)
    except Exception as e:
        tb = traceback.format_exc()
        if opname == 'refine' and isinstance(e, TypeError) and 'NoneType' in str(e) and op.get('edge') and op.get('bisect'):
            # a bisect_edge_column none of whose sides ends up refined: outside the documented use
            res['status'] = 'edge-column-without-refined-side'; return res
        if type(e).__name__ == 'NamingConventionError':
            # more columns / layers than the geometry's naming convention can name: a capacity limit (C17), not C11
            res['status'] = 'naming-capacity-exceeded'; return res
        res['failures'].append({'key': '%s:exception' % opname, 'observed': 'raised %r%s\n%s' % (e, reused, tb[-800:]), 'required': 'the operation completes'})
        return res
    res['status'] = r
    F, st = compare(before, g, opname, rng, npts=case.get('npts', 6), lattice=case.get('lattice', 0))
    if reused:
        for f in F: f['observed'] += reused
    if op['name'] == 'refine_layers' and not F:
        # the layer structure: same top and bottom, selected layers split in `factor` equal parts
        b, a = before.layers, [(l.name, float(l.bottom), float(l.top)) for l in g.layerlist]
        sel = set(op.get('layers', [])) or set(range(1, len(b)))
        f = int(op.get('factor', 2))
        exp = []
        for i, (nm, bot, top) in enumerate(b[1:], start=1):
            if i in sel: exp += [top - (top - bot) * (k + 1) / f for k in range(f)]
            else: exp.append(bot)
        got = [x[1] for x in a[1:]]
        span = abs(b[0][2] - b[-1][1]) or 1.0
        if len(got) != len(exp) or any(abs(x - y) > 1e-9 * span for x, y in zip(got, exp)):
            F.append({'key': 'refine_layers:layers', 'observed': 'layer bottoms %s' % got, 'required': 'layer bottoms %s' % exp})
    if op['name'] == 'refine_layers' and F:
        names = [l.name for l in g.layerlist]
        if len(set(names)) < len(names):
            # input class: the atmosphere layer's name is one the renumbering generates for a rock layer
            dup = sorted(set(n for n in names if names.count(n) > 1))
            for f in F:
                f['key'] = 'refine_layers:duplicate-layer-name'
                f['observed'] = 'layer names after the operation %s contain duplicates %s (atmosphere layer %r); %s' % (names[:6], dup, names[0], f['observed'])
    res['failures'] = F; res['stats'] = st
    return res
