"""C18 -- reverse-engineering a rectangular geometry (t2grid.rectgeo) inverts grid generation.

tie: H.  coq/C18/Rectgeo.v is a hand model, over exact rationals and abstract block names, of
  (1) the forward map  t2grid().fromgeo(mulgrid().rectangular(dx, dy, dz, origin, atmos_type) + surfaces)
  (2) t2grid.rectgeo (origin block, direction tracking along connection_name sets in their observed
      iteration order, spacings incl. the 2-D rule, block mapping, position matching for the
      unrotated grid, surface finding, snapping, pruning).
The extracted model is run on dyadic (exactly representable) rectangular geometries and compared
EXACTLY with the implementation: the generated grid (names, volumes, centres, connections, distances,
areas, directions, order) and the reconstructed geometry (spacings, position, top elevation, surfaces,
block map).  Independently the property statement is evaluated on the implementation alone
(tools/props/c18_lib.py: oracle) on arbitrary spacings, origins, rotation angles, atmosphere types,
surfaces, naming conventions, inactive atmosphere volumes, and after a data-file write/read."""
import os, sys, json, time, random, resource, subprocess, collections, warnings
from concurrent.futures import ThreadPoolExecutor
import vf

sys.path.insert(0, os.path.dirname(os.path.abspath(__file__)))
import c18_lib as L

CORR = 'rectgeo: extracted model vs t2grid().fromgeo(mulgrid().rectangular(...)) and t2grid.rectgeo, exact'
ORACLE = 'property-statement-on-implementation'

# the two recorded defects (known_findings.txt); the model carries both the behaviour of the code as it
# stands and the behaviour of the proposed repairs, selected by replaying these witnesses
WITNESS = {
    'match_position:single-block-in-direction-1':
        dict(kind='exact', dx=[4.0], dy=[2.0, 8.0], dz=[1.0, 2.0], origin=[0.0, 0.0, 0.0], angle=0.0, convention=0, atmos_type=2,
             atmvol=None, atmconn=None, justify='r', case=None, chars=None, surface=None, mode='flat', rot_centre='origin', extra_precision=False),
    'block_spacings:2d-no-atmosphere-origin-column-single-layer':
        dict(kind='exact', dx=[2.0, 4.0, 8.0], dy=[16.0], dz=[1.0, 2.0, 4.0], origin=[0.0, 0.0, 0.0], angle=0.0, convention=0, atmos_type=2,
             atmvol=None, atmconn=None, justify='r', case=None, chars=None, surface=[-3.0, 0.0, 0.0], mode='stepped', rot_centre='origin', extra_precision=False),
}


class CaseTimeout(BaseException):
    """the implementation did not return within the per-case limit"""


def _alarm(signum, frame):
    raise CaseTimeout()


def limited(sec, fn, *a):
    """run fn(*a) in-process under a wall-clock limit (a walk that never ends must fail the check, not hang it)"""
    import signal
    old = signal.signal(signal.SIGALRM, _alarm)
    signal.setitimer(signal.ITIMER_REAL, sec)
    try: return fn(*a)
    finally:
        signal.setitimer(signal.ITIMER_REAL, 0)
        signal.signal(signal.SIGALRM, old)


CASE_LIMIT = 120.0


def _unlimit():
    try: resource.setrlimit(resource.RLIMIT_STACK, (resource.RLIM_INFINITY, resource.RLIM_INFINITY))
    except Exception:
        try:
            soft, hard = resource.getrlimit(resource.RLIMIT_STACK)
            resource.setrlimit(resource.RLIMIT_STACK, (hard, hard))
        except Exception: pass


def run_model(exe, lines, shards=8, timeout=3000):
    n = len(lines)
    if n == 0: return []
    shards = max(1, min(shards, vf.NPROC, 8, n))
    order = sorted(range(n), key=lambda i: -len(lines[i]))
    buckets = [order[k::shards] for k in range(shards)]

    def one(idx):
        p = subprocess.run([exe], input='\n'.join(lines[i] for i in idx) + '\n', stdout=subprocess.PIPE,
                           stderr=subprocess.PIPE, text=True, timeout=timeout, preexec_fn=_unlimit)
        out = p.stdout.split('\n')
        if out and out[-1] == '': out.pop()
        if p.returncode != 0 or len(out) != len(idx):
            raise RuntimeError('model driver failed (rc %s, %d lines for %d cases): %s' % (p.returncode, len(out), len(idx), p.stderr[-1500:]))
        return out

    with ThreadPoolExecutor(max_workers=shards) as ex:
        outs = list(ex.map(one, buckets))
    res = [None] * n
    for idx, out in zip(buckets, outs):
        for i, o in zip(idx, out): res[i] = o
    return res


def classify(recipe, fails):
    """finding keys: the two recorded defects are recognised by the input class AND the way the property
    fails; anything else keeps the oracle's own key (a new VIOLATION)"""
    nx, ny = len(recipe['dx']), len(recipe['dy'])
    out = []
    for k, o, r in fails:
        if nx == 1 and k.startswith('match_position:nan:single-block-in-direction-1'):
            k = 'match_position:single-block-in-direction-1'
        elif k == 'rectgeo:raises:IndexError:2d-no-atmosphere-origin-column-single-layer':
            k = 'block_spacings:2d-no-atmosphere-origin-column-single-layer'
        out.append((k, o, r))
    return out


def witness_flags(ctx):
    """which of the two recorded defects the tree under test still has"""
    flags = {}
    for key, rec in WITNESS.items():
        fails = []
        try:
            limited(CASE_LIMIT, L.check_recipe, rec, lambda k, o, r: fails.append((k, o, r)))
        except CaseTimeout:
            fails.append(('witness-does-not-terminate', '', ''))
        except Exception as e:
            fails.append(('witness-raises', repr(e), ''))
        flags[key] = bool(fails)
    return flags


REF_SCRIPT = """
import sys, json, warnings
warnings.simplefilter('ignore')
from props import c18_lib as L
print(json.dumps(L.reference_eval(json.load(sys.stdin))))
"""


def reference_recipes():
    """fixed grids for the history-independence clause: stepped surfaces with columns ending exactly on layer
    boundaries (so that snapping matters), unrotated / rotated / through a data file"""
    rng = random.Random(18018)
    out = []
    for kind, n in (('float', (4, 3, 5)), ('float', (3, 4, 4)), ('file', (3, 3, 4)), ('rot', (3, 2, 4)), ('exact', (2, 3, 3)), ('file', (4, 2, 5))):
        r = L.gen_recipe(rng, kind, force=dict(n=n, mode='stepped'))
        r.pop('remove_inactive', None)
        out.append(r)
    return out


def history_clause(ctx, st, refs, when):
    """rectgeo is a function of the grid alone: the result computed in a fresh interpreter (first call of a process)
    equals the result computed here, after all the other calls of this process"""
    for recipe, fresh in refs:
        try:
            here = limited(CASE_LIMIT, L.reference_eval, recipe)
        except CaseTimeout:
            here = dict(err='CaseTimeout', res=None)
        here = json.loads(json.dumps(here))
        d = L.same_numbers(fresh, here)
        ctx.count(('history', when, json.dumps(recipe, sort_keys=True)))
        st.tot['history_clause_evaluations'] += 1
        if d:
            ctx.failure(ORACLE, 'rectgeo:depends-on-earlier-calls', {'recipe': recipe, 'when': when},
                        'in a process that has already called rectgeo on other grids the result differs at ' + d[:200],
                        'the result of a fresh interpreter (rectgeo is a function of the grid alone)')


class Stats:
    def __init__(self):
        self.dist = collections.Counter()
        self.tot = collections.Counter()
        self.stop = False          # set when the implementation stopped terminating: the sweep is cut short


def note(st, r):
    d = st.dist
    nx, ny, nz = len(r['dx']), len(r['dy']), len(r['dz'])
    d['kind:' + r['kind']] += 1
    d['surface:' + r['mode']] += 1
    d['atmosphere_type:%d' % r['atmos_type']] += 1
    d['convention:%d' % r['convention']] += 1
    d['shape:' + ('1 x n' if nx == 1 else 'n x 1' if ny == 1 else '3-D')] += 1
    d['blocks:' + ('<=50' if nx * ny * nz <= 50 else '<=400' if nx * ny * nz <= 400 else '>400')] += 1
    d['rotated:' + ('yes' if r['angle'] else 'no')] += 1
    if r.get('remove_inactive'): d['remove_inactive=True'] += 1
    if r.get('origin_block'): d['origin_block given as ' + r['origin_block']] += 1
    if r.get('atmvol') is not None: d['atmosphere_volume:%g' % r['atmvol']] += 1
    if r.get('extra_precision'): d['file:extra-precision'] += 1
    if r.get('rconvention') is not None and r['rconvention'] != r['convention']: d['reconstructed-with-another-convention'] += 1


def one_case(ctx, st, recipe, exe_line=None):
    """oracle on one recipe; returns the objects for the correspondence"""
    fails = []
    try:
        stats, geo, grid, geo1, bm, err = limited(CASE_LIMIT, L.check_recipe, recipe, lambda k, o, r: fails.append((k, o, r)))
    except CaseTimeout:
        ctx.count(json.dumps(recipe, sort_keys=True))
        ctx.failure(ORACLE, 'rectgeo:does-not-terminate', {'recipe': recipe}, 'no result within %g s' % CASE_LIMIT, 'a geometry and a block map')
        st.stop = True
        return None
    except Exception as e:
        name = type(e).__name__
        if name == 'NamingConventionError':
            st.dist['generator-rejection:NamingConventionError'] += 1
            return None
        raise
    note(st, recipe)
    st.tot.update({k: v for k, v in stats.items()})
    key = json.dumps(recipe, sort_keys=True)
    ctx.count(key, nontrivial=True)
    seen = set()
    for k, o, r in classify(recipe, fails):
        if k in seen: continue
        seen.add(k)
        ctx.failure(ORACLE, k, {'recipe': recipe}, o, r)
    if len(ctx.samples) < 8:
        ctx.sample({k: (v if k not in ('surface',) else (None if v is None else '%d explicit elevations' % len(v))) for k, v in recipe.items()})
    return geo, grid, geo1, bm, err


def sweep(ctx, exe, st, n_exact, n_other, flags, maxn=(12, 12, 14)):
    t0 = time.time()
    fl = ('0' if flags['match_position:single-block-in-direction-1'] else '1') + \
         ('0' if flags['block_spacings:2d-no-atmosphere-origin-column-single-layer'] else '1')
    # correspondence + oracle on exact cases
    done = 0
    forced = [dict(n=(1, 3, 2)), dict(n=(3, 1, 2)), dict(n=(1, 2, 3), mode='stepped'), dict(n=(2, 1, 3), mode='stepped'),
              dict(n=(12, 12, 14), mode='flat'), dict(n=(12, 12, 14), mode='slope'), dict(n=(2, 2, 2)), dict(n=(12, 1, 14)), dict(n=(1, 12, 14))]
    while done < n_exact and not st.stop:
        k = min(120, n_exact - done)
        batch = []
        for i in range(k):
            if st.stop: break
            force = forced[done + i] if done + i < len(forced) else None
            sel = (done + i) % 6 if force is None else 0
            if sel == 5:      # through a data file (unrotated, standard precision): the model rounds as the file does
                r = L.gen_recipe(ctx.rng, 'file', maxn=maxn, force=dict(angle=0.0, extra_precision=False))
            else:
                r = L.gen_recipe(ctx.rng, 'rot' if sel in (1, 4) else 'exact', maxn=maxn, force=force)
            if force is None and (done + i) % 9 == 0:       # the two defect classes, every time
                r = dict(WITNESS[list(WITNESS)[((done + i) // 9) % 2]])
                r['convention'] = ctx.rng.randrange(4); r['atmos_type'] = 2 if 'surface' in r and r['surface'] else ctx.rng.randrange(3)
            res = one_case(ctx, st, r)
            if res is None: continue
            batch.append((r,) + res)
        if exe:
            lines = [fl + ('1' if r.get('remove_inactive') else '0') + ('1' if r['kind'] == 'file' else '0') + L.case_line(r, geo, grid)[1:] for r, geo, grid, geo1, bm, err in batch]
            try:
                outs = run_model(exe, lines)
            except Exception as e:
                ctx.log('model driver failed', repr(e)[:500])
                ctx.proof_failures.append({'kind': 'harness', 'name': 'model-driver', 'detail': repr(e)[:2000]})
                outs = None
            if outs is not None:
                for (r, geo, grid, geo1, bm, err), o in zip(batch, outs):
                    diffs = L.compare_model(r, geo, grid, geo1, bm, err, o)
                    if diffs:
                        ctx.disagreement(CORR, {'recipe': r}, '; '.join(diffs[:4])[:1500], 'see differences (implementation side quoted in the text)')
                ctx.corr_cases(CORR, len(batch), model_variant='fixed-flags=' + fl)
        ctx.oracle_cases(ORACLE, len(batch))
        done += k
        ctx.log('exact cases (correspondence + oracle): %d (%.0fs)' % (done, time.time() - t0))
    done = 0
    while done < n_other and not st.stop:
        k = min(200, n_other - done)
        m = 0
        for _ in range(k):
            if st.stop: break
            r = L.gen_recipe(ctx.rng, ctx.rng.choice(['float', 'float', 'file']), maxn=maxn)
            if one_case(ctx, st, r) is not None: m += 1
        ctx.oracle_cases(ORACLE, m)
        done += k
        ctx.log('float/file cases (oracle): %d (%.0fs)' % (done, time.time() - t0))


def run(ctx):
    warnings.simplefilter('ignore')
    ctx.rule = ('rectangular geometries are built through mulgrid().rectangular from a recorded recipe: 1..12 x 1..12 x 2..14 blocks (one horizontal direction possibly a single block), '
                'spacings dyadic (exact cases) / arbitrary floats / short decimals (data-file cases), origins up to 1e5, rotation by any angle about the origin, the centre or (0,0) with '
                'permeability_angle = -angle, atmosphere type 0/1/2 with atmosphere volume default/1e25/1e30/1e50/0, flat, stepped (incl. surfaces exactly on layer boundaries and above the top) '
                'and sloping surfaces that leave the bottom layer complete and every top block at least a quarter of its layer, 4 conventions, l/r justification, case, character sets; '
                'the grid is t2grid().fromgeo(geo), for data-file cases written with t2data.write (also with extra precision) and read back; rectgeo is called with the generating '
                'atmos_type and convention and a layer_snap far below the smallest top block.  A case is distinct by its recipe.')
    ctx.trusted += ['Coq 8.16.1 kernel (coqc); vm_compute only on closed terms inside Example proofs; no native_compute',
                    'coq/C18/Rectgeo.v: hand model of mulgrids.py 1529-1622, 1381-1444, t2grids.py 341-434 (rectangular case) and t2grids.py 749-981 (validated on every run by the exact correspondence, not derived from the source)',
                    'exact rational arithmetic (Qc) stands for IEEE double arithmetic: the correspondence cases are dyadic so that both sides are exact and compared with ==',
                    'extraction: ExtrOcamlBasic + ExtrOcamlString, OCaml 4.13.1, ocaml/main.ml; Base/Wire.v unhex/z_of_str',
                    'tools/props/c18_lib.py: recipe builder, case-line writer (numbers from the recipe; names and connection_name iteration orders from the real objects), comparison and oracle']
    ctx.assumptions += ['block names are abstract keys: the theorems assume the geometry names distinct cells differently (injective naming on the block lattice); the naming conventions themselves are C17 / C04',
                        'rectgeo is called with origin_block = None, remove_inactive = False, the atmosphere type and convention of the generating geometry',
                        'rotation / heading (asin, sin, cos in floating point) is outside the exact model: covered by the oracle only',
                        'atmosphere_volume and atmosphere_connection are generation parameters: the oracle copies them to the reconstructed geometry before regenerating the grid',
                        'layers of the generating geometry that hold no block, and the thickness of the topmost layer when no column reaches its top, are not in the grid: not demanded (DESIGN.md C18)']
    ctx.stage()
    ok = ctx.coq_build(props=('Props.v',), timeout=1200)
    exe = vf.build_driver(ctx)
    st = Stats()
    flags = witness_flags(ctx)
    ctx.extra['recorded_defects_present'] = flags
    ctx.log('recorded defects present in the tree under test: %r' % flags)
    refs = []
    for r in reference_recipes():
        try: refs.append((r, vf.run_impl(REF_SCRIPT, r, timeout=300, repo=ctx.repo)))
        except Exception as e:
            ctx.log('reference evaluation in a fresh interpreter failed', repr(e)[:300])
            ctx.proof_failures.append({'kind': 'harness', 'name': 'reference-eval', 'detail': repr(e)[:1500]})
    history_clause(ctx, st, refs, 'after the witness replays')
    if ctx.thorough: sweep(ctx, exe, st, 3000, 8000, flags)
    else: sweep(ctx, exe, st, 240, 600, flags)
    history_clause(ctx, st, refs, 'after the sweep')
    ctx.extra['input_distribution'] = dict(sorted(st.dist.items()))
    ctx.extra['oracle_totals'] = dict(st.tot)

    def deep(broken):
        rng = random.Random(ctx.seed + 1801)
        ctx.rng = rng
        n = 0
        cap = 6000 if ctx.thorough else 1200
        while n < cap and not ctx.new_failures and not st.stop:
            one_case(ctx, st, L.gen_recipe(rng, None))
            n += 1

    return ctx.finish(deep_search=deep)


def replay(ctx, data):
    warnings.simplefilter('ignore')
    inp = data.get('input') or {}
    recipe = inp.get('recipe')
    if recipe is None:
        print('replay: no concrete input recorded'); return True
    fails = []
    try:
        limited(CASE_LIMIT, L.check_recipe, recipe, lambda k, o, r: fails.append((k, o, r)))
    except CaseTimeout:
        fails.append(('rectgeo:does-not-terminate', 'no result within %g s' % CASE_LIMIT, 'a geometry and a block map'))
    for k, o, r in classify(recipe, fails)[:5]: print('replay: %s: observed %s; required %s' % (k, o, r))
    if not fails: print('replay: the property statement holds on this input')
    return bool(fails)
