"""C15 -- fail-closed translator of the literal data of a thermodynamics module (t2thermo.py,
IAPWS97.py) from its AST to Coq data.  (Private copy of the C14 translator, extended with
plain float lists, int-keyed dict literals and `dict(zip(a, b))`.)

The module is parsed with `ast`, never imported.  The closed literal sub-language is: number
literals, unary +/-, binary + - * / on numbers (evaluated in double arithmetic exactly as
CPython does), names bound earlier at module level, tuple/list literals, tuple assignment,
`np.array(<list>[, float64])`, `{int: number, ...}`, `dict(zip(<int list>, <number list>))`.
Anything else at module level (other than imports, the import try/except, docstrings, `def`s)
is refused.

Each float is emitted twice: as the exact dyadic rational of the double (Q) and as a hex
PrimFloat literal."""
import ast
from fractions import Fraction


class Refusal(Exception):
    pass


class FArray(list):
    """np.array(..., float64)"""


class IArray(list):
    """np.array of Python ints"""


class Unsupported:
    """value of a module-level name whose right-hand side is outside the literal sub-language
    (e.g. IAPWS97.psat_critical = max(pcritical, sat(tcritical))).  Binding it is harmless;
    USING it -- directly or through another name -- is refused."""
    def __init__(self, why): self.why = why


def _num(v):
    return isinstance(v, (int, float)) and not isinstance(v, bool)


class Tables:
    def __init__(self, path):
        self.path = path
        self.env = {}          # name -> value (float | int | list | FArray | IArray | tuple | dict)
        self.order = []
        self.lines = {}
        src = open(path).read()
        self.tree = ast.parse(src, path)
        self.funcs = {}
        for st in self.tree.body:
            self.stmt(st)

    def fail(self, node, why):
        raise Refusal('%s:%s: %s' % (self.path, getattr(node, 'lineno', '?'), why))

    def stmt(self, st):
        if isinstance(st, ast.Expr) and isinstance(st.value, ast.Constant) and isinstance(st.value.value, str):
            return
        if isinstance(st, (ast.Import, ast.ImportFrom)):
            return
        if isinstance(st, ast.Try):
            for s in st.body + [x for h in st.handlers for x in h.body] + st.orelse + st.finalbody:
                if not isinstance(s, (ast.Import, ast.ImportFrom)):
                    self.fail(s, 'only imports are supported inside a module-level try')
            return
        if isinstance(st, ast.FunctionDef):
            self.funcs[st.name] = st
            return
        if isinstance(st, ast.If):
            t = st.test
            if (isinstance(t, ast.Compare) and isinstance(t.left, ast.Name) and t.left.id == '__name__'):
                return
            self.fail(st, 'module-level if')
        if isinstance(st, ast.Assign):
            if len(st.targets) != 1: self.fail(st, 'chained assignment')
            tgt = st.targets[0]
            try:
                val = self.expr(st.value)
            except Refusal as e:
                val = Unsupported(str(e))
                if isinstance(tgt, ast.Tuple): val = tuple(val for _ in tgt.elts)
            if isinstance(tgt, ast.Name):
                self.bind(tgt.id, val, st)
            elif isinstance(tgt, ast.Tuple) and all(isinstance(e, ast.Name) for e in tgt.elts):
                if not isinstance(val, tuple) or len(val) != len(tgt.elts):
                    self.fail(st, 'tuple assignment shape')
                for e, v in zip(tgt.elts, val): self.bind(e.id, v, st)
            else:
                self.fail(st, 'unsupported assignment target')
            return
        self.fail(st, 'unsupported module-level statement %s' % type(st).__name__)

    def bind(self, name, val, st):
        if name in self.funcs: self.fail(st, 'name %s rebinds a function' % name)
        self.env[name] = val
        if name in self.order: self.order.remove(name)    # later binding wins, as in Python
        self.order.append(name)
        self.lines[name] = st.lineno

    def expr(self, e):
        if isinstance(e, ast.Constant):
            if _num(e.value): return e.value
            self.fail(e, 'unsupported constant %r' % (e.value,))
        if isinstance(e, ast.UnaryOp) and isinstance(e.op, (ast.USub, ast.UAdd)):
            v = self.expr(e.operand)
            if not _num(v): self.fail(e, 'unary sign on a non-number')
            return -v if isinstance(e.op, ast.USub) else +v
        if isinstance(e, ast.BinOp) and isinstance(e.op, (ast.Add, ast.Sub, ast.Mult, ast.Div)):
            a, b = self.expr(e.left), self.expr(e.right)
            if not (_num(a) and _num(b)): self.fail(e, 'arithmetic on non-numbers')
            try:
                if isinstance(e.op, ast.Add): return a + b
                if isinstance(e.op, ast.Sub): return a - b
                if isinstance(e.op, ast.Mult): return a * b
                return a / b
            except (ZeroDivisionError, OverflowError) as ex:
                self.fail(e, 'arithmetic error %r' % ex)
        if isinstance(e, ast.Name):
            if e.id in self.env:
                if isinstance(self.env[e.id], Unsupported):
                    self.fail(e, 'name %s is bound to an unsupported expression (%s)' % (e.id, self.env[e.id].why))
                return self.env[e.id]
            self.fail(e, 'name %s is not bound to a literal earlier in the module' % e.id)
        if isinstance(e, (ast.Tuple, ast.List)):
            vals = tuple(self.expr(x) for x in e.elts)
            return vals if isinstance(e, ast.Tuple) else list(vals)
        if isinstance(e, ast.Dict):
            d = {}
            for k, v in zip(e.keys, e.values):
                if k is None: self.fail(e, 'dict unpacking')
                kk, vv = self.expr(k), self.expr(v)
                if not (isinstance(kk, int) and not isinstance(kk, bool) and _num(vv)): self.fail(e, 'dict entry is not int: number')
                d[kk] = vv          # a repeated key: the later entry wins, as in Python
            return d
        if isinstance(e, ast.Call):
            f = e.func
            if (isinstance(f, ast.Attribute) and f.attr == 'array' and isinstance(f.value, ast.Name) and f.value.id == 'np'
                    and not e.keywords and 1 <= len(e.args) <= 2):
                vals = self.expr(e.args[0])
                if not isinstance(vals, (list, tuple)) or not all(_num(v) for v in vals):
                    self.fail(e, 'np.array of something other than a flat number list')
                isf = False
                if len(e.args) == 2:
                    d = e.args[1]
                    if not (isinstance(d, ast.Name) and d.id == 'float64'): self.fail(e, 'np.array dtype other than float64')
                    isf = True
                if isf or any(isinstance(v, float) for v in vals):
                    return FArray(float(v) for v in vals)
                return IArray(int(v) for v in vals)
            if (isinstance(f, ast.Name) and f.id == 'dict' and not e.keywords and len(e.args) == 1
                    and isinstance(e.args[0], ast.Call) and isinstance(e.args[0].func, ast.Name)
                    and e.args[0].func.id == 'zip' and not e.args[0].keywords and len(e.args[0].args) == 2):
                ks, vs = self.expr(e.args[0].args[0]), self.expr(e.args[0].args[1])
                if not (isinstance(ks, list) and isinstance(vs, list)): self.fail(e, 'dict(zip()) of non-lists')
                if len(ks) != len(vs): self.fail(e, 'dict(zip(a, b)) with len(a)=%d, len(b)=%d: zip() would drop entries silently' % (len(ks), len(vs)))
                if not all(isinstance(k, int) and not isinstance(k, bool) for k in ks): self.fail(e, 'dict(zip()) keys are not ints')
                if not all(_num(v) for v in vs): self.fail(e, 'dict(zip()) values are not numbers')
                if len(set(ks)) != len(ks): self.fail(e, 'dict(zip()) with a repeated key')
                return dict(zip(ks, vs))
            self.fail(e, 'unsupported call')
        self.fail(e, 'unsupported expression %s' % type(e).__name__)

    # ---- typed access (fail closed on a shape change) --------------------
    def scalar(self, name):
        v = self.env.get(name)
        if isinstance(v, Unsupported): raise Refusal('%s: `%s` is not a literal: %s' % (self.path, name, v.why))
        if not _num(v): raise Refusal('%s: expected a numeric scalar `%s`, found %s' % (self.path, name, type(v).__name__))
        return float(v)

    def farray(self, name):
        """float64 array or a plain list of numbers (floats as written)"""
        v = self.env.get(name)
        if isinstance(v, FArray): return list(v)
        if isinstance(v, list) and v and all(_num(x) for x in v): return [float(x) for x in v]
        raise Refusal('%s: expected a list / float64 array of numbers `%s`, found %s' % (self.path, name, type(v).__name__))

    def iarray(self, name):
        v = self.env.get(name)
        if isinstance(v, IArray): return list(v)
        if isinstance(v, list) and all(isinstance(x, int) and not isinstance(x, bool) for x in v): return list(v)
        raise Refusal('%s: expected an integer array `%s`, found %s' % (self.path, name, type(v).__name__))

    def fdict(self, name):
        """int-keyed dict of numbers, as a list of (key, value) in insertion order"""
        v = self.env.get(name)
        if not isinstance(v, dict) or not v: raise Refusal('%s: expected a dict `%s`, found %s' % (self.path, name, type(v).__name__))
        return [(k, float(x)) for k, x in v.items()]

    def local_list(self, func, name):
        """a list of number literals assigned once to `name` in the body of `func` (first level)"""
        fd = self.funcs.get(func)
        if fd is None: raise Refusal('%s: function %s not found' % (self.path, func))
        found = None
        for st in ast.walk(fd):
            if isinstance(st, ast.Assign) and any(isinstance(t, ast.Name) and t.id == name for t in st.targets):
                if found is not None: raise Refusal('%s: %s.%s assigned more than once' % (self.path, func, name))
                found = st
        if found is None: raise Refusal('%s: %s.%s not found' % (self.path, func, name))
        val = self.expr(found.value)
        if not (isinstance(val, list) and all(_num(x) for x in val)): raise Refusal('%s: %s.%s is not a list of numbers' % (self.path, func, name))
        return [float(x) for x in val]


# ---- comparison structure of a function, for the cross-check against the traced decisions ----
CMP = {ast.LtE: 'le', ast.Lt: 'lt', ast.GtE: 'ge', ast.Gt: 'gt'}


def comparisons(t, func):
    """Every comparison in the body of `func` (nested defs included) as a list of
    (op, left, right) with each side rendered as: ('num', float) for a closed literal
    expression, ('name', id) for a bare name, ('call', fname) for a call of a named function,
    ('expr',) otherwise.  A chained comparison a <= t <= b yields two entries.  Any comparison
    operator outside <= < >= > (==, is, in ...) is returned with op '?'."""
    fd = t.funcs.get(func)
    if fd is None: raise Refusal('%s: function %s not found' % (t.path, func))

    def side(e):
        try:
            v = t.expr(e)
            if _num(v): return ('num', float(v))
        except Refusal:
            pass
        if isinstance(e, ast.Name): return ('name', e.id)
        if isinstance(e, ast.Call) and isinstance(e.func, ast.Name): return ('call', e.func.id)
        return ('expr',)
    out = []
    for n in ast.walk(fd):
        if isinstance(n, ast.Compare):
            left = n.left
            for op, right in zip(n.ops, n.comparators):
                out.append((CMP.get(type(op), '?'), side(left), side(right), n.lineno))
                left = right
    return out


def stateful_uses(t, func, allowed_tables=()):
    """Reasons why `func` (nested defs included) is not a function of its arguments only, as far
    as the AST shows: `global` / `nonlocal` declarations reaching module scope, reads of
    module-level names bound to containers (list / dict / array) other than the coefficient
    tables `allowed_tables`, and any store through a module-level name (x[k] = .., x.a = ..,
    x.append(..)-style method calls on such a container).  Empty list = none found."""
    fd = t.funcs.get(func)
    if fd is None: raise Refusal('%s: function %s not found' % (t.path, func))
    params = set()
    for n in ast.walk(fd):
        if isinstance(n, (ast.FunctionDef, ast.Lambda)):
            a = n.args
            params |= {x.arg for x in a.args + a.kwonlyargs + a.posonlyargs}
    local = set(params)
    for n in ast.walk(fd):
        if isinstance(n, ast.Name) and isinstance(n.ctx, ast.Store): local.add(n.id)
    why = []
    def container(name):
        v = t.env.get(name)
        return isinstance(v, (list, dict, FArray, IArray, tuple)) and name not in local
    for n in ast.walk(fd):
        if isinstance(n, ast.Global): why.append('line %d: global %s' % (n.lineno, ', '.join(n.names)))
        elif isinstance(n, ast.Name) and isinstance(n.ctx, ast.Load) and container(n.id) and n.id not in allowed_tables:
            why.append('line %d: reads the module-level container `%s`' % (n.lineno, n.id))
        elif isinstance(n, (ast.Subscript, ast.Attribute)) and isinstance(n.ctx, (ast.Store, ast.Del)):
            b = n.value
            while isinstance(b, (ast.Subscript, ast.Attribute)): b = b.value
            if isinstance(b, ast.Name) and b.id not in local:
                why.append('line %d: stores through the module-level name `%s`' % (n.lineno, b.id))
        elif isinstance(n, ast.Call) and isinstance(n.func, ast.Attribute) and isinstance(n.func.value, ast.Name) \
                and container(n.func.value.id) and n.func.attr in ('append', 'extend', 'insert', 'pop', 'remove', 'clear', 'update', 'setdefault', 'popitem', 'sort', 'reverse'):
            why.append('line %d: mutates the module-level container `%s`' % (n.lineno, n.func.value.id))
    return why


# ---- Coq rendering ------------------------------------------------------------
def coq_z(n):
    return '%d' % n if n >= 0 else '(%d)' % n


def coq_q(x):
    fr = Fraction(x)          # exact value of the double
    return '(%d # %d)' % (fr.numerator, fr.denominator)


def coq_f(x):
    if x != x: return 'nan'
    if x in (float('inf'), float('-inf')): return 'infinity' if x > 0 else 'neg_infinity'
    h = float(x).hex()
    return '(%s)' % h


def emit(t, scalars=(), farrays=(), iarrays=(), fdicts=(), locals_=(), prefix='', header=''):
    """Coq definitions `<prefix><name>_Q/_F` (scalars, arrays), `<prefix><name>` (int arrays),
    `<prefix><name>_keys/_Q/_F` (dicts), `<prefix><func>_<name>_Q/_F` (function-local lists)."""
    out = [header,
           'From Coq Require Import ZArith QArith List PrimFloat.',
           'Import ListNotations.', '']
    for n in scalars:
        x = t.scalar(n)
        out.append('Definition %s%s_Q : Q := %s%%Q.' % (prefix, n, coq_q(x)))
        out.append('Definition %s%s_F : float := %s%%float.' % (prefix, n, coq_f(x)))
    for n in farrays:
        xs = t.farray(n)
        out.append('Definition %s%s_Q : list Q := [%s]%%Q.' % (prefix, n, '; '.join(coq_q(x) for x in xs)))
        out.append('Definition %s%s_F : list float := [%s]%%float.' % (prefix, n, '; '.join(coq_f(x) for x in xs)))
    for n in iarrays:
        xs = t.iarray(n)
        out.append('Definition %s%s : list Z := [%s]%%Z.' % (prefix, n, '; '.join(coq_z(x) for x in xs)))
    for n in fdicts:
        kv = t.fdict(n)
        out.append('Definition %s%s_keys : list Z := [%s]%%Z.' % (prefix, n, '; '.join(coq_z(k) for k, _ in kv)))
        out.append('Definition %s%s_Q : list Q := [%s]%%Q.' % (prefix, n, '; '.join(coq_q(x) for _, x in kv)))
        out.append('Definition %s%s_F : list float := [%s]%%float.' % (prefix, n, '; '.join(coq_f(x) for _, x in kv)))
    for fn, n in locals_:
        xs = t.local_list(fn, n)
        out.append('Definition %s%s_%s_Q : list Q := [%s]%%Q.' % (prefix, fn, n, '; '.join(coq_q(x) for x in xs)))
        out.append('Definition %s%s_%s_F : list float := [%s]%%float.' % (prefix, fn, n, '; '.join(coq_f(x) for x in xs)))
    return '\n'.join(out) + '\n'
