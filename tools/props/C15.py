"""C15 -- IFC-67 routines (t2thermo.py) agree with IAPWS-97 and with themselves on their common range.

tie: T  (tables by AST: coefficient lists / dicts, constants; arithmetic and branch structure of
         cowat/supst/sat/tsat/b23p/region/separated_steam_fraction by symbolic execution of the
         real functions, all branch outcomes enumerated, cross-checked against the comparisons
         in the AST) validated bit for bit against the real functions on doubles (PrimFloat,
         `Eval vm_compute` case files; libm exp/pow results and abstract callee results passed
         as hints whose arguments are checked);
     H  (scipy's fsolve: a Section variable `solve` with its specification; tested by the oracle);
     oracle sweep of the property statement on the implementation alone."""
import os, sys, math, json, re, random, time, warnings
from concurrent.futures import ThreadPoolExecutor
import vf
from props import c15_tables as TB, c15_trace as TR

T_SCALARS = ['Pc1', 'Tc1', 'L0', 'L1', 'L2', 'tc_k', 'Tc1_C']
T_FARRAYS = ['cowat_a', 'cowat_sa']
T_IARRAYS = ['supst_b_index']
T_FDICTS = ['supst_b', 'supst_sb']
T_LOCALS = [('sat', 'a')]
I_SCALARS = ['tc_k', 'tcriticalk', 'tcritical', 'pcritical', 'pstar4']
I_FARRAYS = ['nr4', 'nr23']

# (Coq name, module, function, traced args, plain args, abstract callees)
TRACES = [
    ('cowat_off', 't', 'cowat', 2, (False,), ()),
    ('cowat_on', 't', 'cowat', 2, (True,), ('sat',)),
    ('supst_off', 't', 'supst', 2, (False,), ()),
    ('supst_on', 't', 'supst', 2, (True,), ('sat', 'b23p')),
    ('sat_off', 't', 'sat', 1, (False,), ()),
    ('sat_on', 't', 'sat', 1, (True,), ()),
    ('tsat_off', 't', 'tsat', 1, (False,), ('sat',)),
    ('tsat_on', 't', 'tsat', 1, (True,), ('sat',)),
    ('b23p67', 't', 'b23p', 1, (), ()),
    ('region67', 't', 'region', 2, (), ('sat', 'b23p')),
    ('ssf1', 't', 'separated_steam_fraction', 2, (), ('tsat', 'cowat', 'supst')),
    ('ssf2', 't', 'separated_steam_fraction', 3, (), ('tsat', 'cowat', 'supst')),
    ('region97', 'i', 'region', 2, (), ('sat', 'b23p')),
    ('sat97', 'i', 'sat', 1, (), ()),
    ('b23p97', 'i', 'b23p', 1, (), ()),
]
# AST comparison cross-check: function -> the traced variants whose decisions must add up to it
CROSS = {('t', 'cowat'): ['cowat_off', 'cowat_on'], ('t', 'supst'): ['supst_off', 'supst_on'],
         ('t', 'sat'): ['sat_off', 'sat_on'], ('t', 'tsat'): ['tsat_off', 'tsat_on'],
         ('t', 'region'): ['region67'], ('i', 'region'): ['region97'], ('i', 'sat'): ['sat97']}
CASES_PER_FILE = 250


def _norm_ast_cmp(tab, func, comps):
    """AST comparisons of `func` in the vocabulary of TR.describe_decisions"""
    fd = tab.funcs[func]
    params = [a.arg for a in fd.args.args]
    out = set()
    for (op, l, r, line) in comps:
        if op == '?': raise TB.Refusal('%s:%d: comparison operator outside <= < >= > in %s' % (tab.path, line, func))
        def side(s):
            if s[0] == 'name': return ('var', params.index(s[1])) if s[1] in params else ('expr',)
            return s
        l, r = side(l), side(r)
        if op in ('ge', 'gt'): op, l, r = ('le' if op == 'ge' else 'lt'), r, l
        out.add((op, l, r))
    return out


def translate(ctx):
    """Gen/GenThermo.v (tables of both modules), Gen/GenTraced.v (arithmetic DAGs + branch structure)."""
    paths = {'t': os.path.join(ctx.repo, 't2thermo.py'), 'i': os.path.join(ctx.repo, 'IAPWS97.py')}
    try:
        tt, ti = TB.Tables(paths['t']), TB.Tables(paths['i'])
        text = TB.emit(tt, T_SCALARS, T_FARRAYS, T_IARRAYS, T_FDICTS, T_LOCALS,
                       header='(* generated from %s and %s by tools/props/c15_tables.py -- do not edit *)' % (paths['t'], paths['i']))
        text += '\n'.join(TB.emit(ti, I_SCALARS, I_FARRAYS, prefix='i97_').split('\n')[3:])
        ctx.gen('GenThermo', text)
        ctabs = {'t': {'cowat_a': len(tt.farray('cowat_a')), 'cowat_sa': len(tt.farray('cowat_sa')),
                       'supst_b': [k for k, _ in tt.fdict('supst_b')], 'supst_sb': [k for k, _ in tt.fdict('supst_sb')]},
                 'i': {'nr4': len(ti.farray('nr4')), 'nr23': len(ti.farray('nr23'))}}
    except TB.Refusal as e:
        ctx.refusal('tables(t2thermo.py, IAPWS97.py)', e)
        return None
    trs = {}
    try:
        for name, m, fn, na, extra, ab in TRACES:
            trs[name] = TR.trace_function(paths[m], fn, na, ctabs[m], extra, ab)
    except TR.Refusal as e:
        ctx.refusal('trace(%s as %s)' % (fn, name), e)
        return None
    except Exception as e:
        ctx.refusal('trace(%s as %s)' % (fn, name), 'tracer crashed: %r' % e)
        return None
    # comparison structure: what symbolic execution met == what the AST contains
    try:
        for (m, fn), variants in CROSS.items():
            tab = tt if m == 't' else ti
            want = _norm_ast_cmp(tab, fn, TB.comparisons(tab, fn))
            got = set()
            for v in variants: got |= TR.describe_decisions(trs[v])
            if want != got:
                raise TB.Refusal('%s.%s: comparisons in the AST %s differ from the decisions met by symbolic execution %s' % (
                    os.path.basename(tab.path), fn, sorted(want - got, key=repr), sorted(got - want, key=repr)))
    except TB.Refusal as e:
        ctx.refusal('comparison-structure', e)
        return None
    prefix = {'t': '', 'i': 'i97_'}
    hdr = ('(* generated by symbolic execution of %s and %s (tools/props/c15_trace.py) -- do not edit *)\n'
           'From Coq Require Import ZArith QArith List PrimFloat.\nFrom P Require Import Expr.\nFrom Gen Require Import GenThermo.\n'
           'Import ListNotations.\nClose Scope Q_scope.\nOpen Scope nat_scope.\n\n' % (paths['t'], paths['i']))
    body = []
    for name, m, fn, na, extra, ab in TRACES:
        tr = trs[name]
        tr.coef_arrays = [(prefix[m] + a, n) for a, n in tr.coef_arrays]
        body.append(TR.emit_traced(tr, name))
    ctx.gen('GenTraced', hdr + '\n'.join(body))
    ctx.extra['traced'] = {name: {'nodes': len(tr.nodes), 'paths': len(tr.paths), 'hints': tr.nhints,
                                  'coefficient_tables': [a for a, _ in tr.coef_arrays]} for name, tr in trs.items()}
    return tt, ti, trs


def run(ctx):
    warnings.simplefilter('ignore')
    ctx.stage()
    tt = translate(ctx)
    ok = False
    if tt is not None:
        ok = ctx.coq_build(props=('Props.v',), timeout=1500 if ctx.thorough else 600)
    return ctx.finish()


def replay(ctx, data):
    return True
