"""C15 -- IFC-67 routines (t2thermo.py) agree with IAPWS-97 and with themselves on their common range.

tie: T  (tables by AST: coefficient lists / dicts, constants; arithmetic and branch structure of
         cowat/supst/sat/tsat/b23p/region/separated_steam_fraction by symbolic execution of the
         real functions, all branch outcomes enumerated, cross-checked against the comparisons
         in the AST) validated bit for bit against the real functions on doubles (PrimFloat,
         `Eval vm_compute` case files; libm exp/pow results and abstract callee results passed
         as hints whose arguments are checked);
     H  (scipy's fsolve: a Section variable `solve` with its specification; tested by the oracle);
     oracle sweep of the property statement on the implementation alone."""
import os, sys, math, json, re, random, time, warnings
from concurrent.futures import ThreadPoolExecutor
import vf
from props import c15_tables as TB, c15_trace as TR, c15_oracle as OR

T_SCALARS = ['Pc1', 'Tc1', 'L0', 'L1', 'L2', 'tc_k', 'Tc1_C']
T_FARRAYS = ['cowat_a', 'cowat_sa']
T_IARRAYS = ['supst_b_index']
T_FDICTS = ['supst_b', 'supst_sb']
T_LOCALS = [('sat', 'a')]
I_SCALARS = ['tc_k', 'tcriticalk', 'tcritical', 'pcritical', 'pstar4']
I_SCALARS += ['rconst', 'pstar1', 'tstar1', 'pstar2', 'tstar2']
I_FARRAYS = ['nr4', 'nr23', 'nr1', 'n0r2', 'nr2']

# (Coq name, module, function, traced args, plain args, abstract callees)
TRACES = [
    ('cowat_off', 't', 'cowat', 2, (False,), ()),
    ('cowat_on', 't', 'cowat', 2, (True,), ('sat',)),
    ('supst_off', 't', 'supst', 2, (False,), ()),
    ('supst_on', 't', 'supst', 2, (True,), ('sat', 'b23p')),
    ('sat_off', 't', 'sat', 1, (False,), ()),
    ('sat_on', 't', 'sat', 1, (True,), ()),
    ('tsat_off', 't', 'tsat', 1, (False,), ('sat',)),
    ('tsat_on', 't', 'tsat', 1, (True,), ('sat',)),
    ('b23p67', 't', 'b23p', 1, (), ()),
    ('region67', 't', 'region', 2, (), ('sat', 'b23p')),
    ('ssf1', 't', 'separated_steam_fraction', 2, (), ('tsat', 'cowat', 'supst')),
    ('ssf2', 't', 'separated_steam_fraction', 3, (), ('tsat', 'cowat', 'supst')),
    ('region97', 'i', 'region', 2, (), ('sat', 'b23p')),
    ('sat97', 'i', 'sat', 1, (), ()),
    ('b23p97', 'i', 'b23p', 1, (), ()),
    ('cowat97', 'i', 'cowat', 2, (), ()),
    ('supst97', 'i', 'supst', 2, (), ()),
]
# AST comparison cross-check: function -> the traced variants whose decisions must add up to it
CROSS = {('t', 'cowat'): ['cowat_off', 'cowat_on'], ('t', 'supst'): ['supst_off', 'supst_on'],
         ('t', 'sat'): ['sat_off', 'sat_on'], ('t', 'tsat'): ['tsat_off', 'tsat_on'],
         ('t', 'region'): ['region67'], ('i', 'region'): ['region97'], ('i', 'sat'): ['sat97'],
         ('i', 'cowat'): ['cowat97'], ('i', 'supst'): ['supst97']}
CASES_PER_FILE = 250


def _norm_ast_cmp(tab, func, comps):
    """AST comparisons of `func` in the vocabulary of TR.describe_decisions"""
    fd = tab.funcs[func]
    params = [a.arg for a in fd.args.args]
    out = set()
    for (op, l, r, line) in comps:
        if op == '?': raise TB.Refusal('%s:%d: comparison operator outside <= < >= > in %s' % (tab.path, line, func))
        def side(s):
            if s[0] == 'name': return ('var', params.index(s[1])) if s[1] in params else ('expr',)
            return s
        l, r = side(l), side(r)
        if op in ('ge', 'gt'): op, l, r = ('le' if op == 'ge' else 'lt'), r, l
        out.add((op, l, r))
    return out


def translate(ctx):
    """Gen/GenThermo.v (tables of both modules), Gen/GenTraced.v (arithmetic DAGs + branch structure)."""
    paths = {'t': os.path.join(ctx.repo, 't2thermo.py'), 'i': os.path.join(ctx.repo, 'IAPWS97.py')}
    try:
        tt, ti = TB.Tables(paths['t']), TB.Tables(paths['i'])
        text = TB.emit(tt, T_SCALARS, T_FARRAYS, T_IARRAYS, T_FDICTS, T_LOCALS,
                       header='(* generated from %s and %s by tools/props/c15_tables.py -- do not edit *)' % (paths['t'], paths['i']))
        text += '\n'.join(TB.emit(ti, I_SCALARS, I_FARRAYS, prefix='i97_').split('\n')[3:])
        ctx.gen('GenThermo', text)
        ctabs = {'t': {'cowat_a': len(tt.farray('cowat_a')), 'cowat_sa': len(tt.farray('cowat_sa')),
                       'supst_b': [k for k, _ in tt.fdict('supst_b')], 'supst_sb': [k for k, _ in tt.fdict('supst_sb')]},
                 'i': {a: len(ti.farray(a)) for a in I_FARRAYS}}
    except TB.Refusal as e:
        ctx.refusal('tables(t2thermo.py, IAPWS97.py)', e)
        return None
    trs = {}
    try:
        for name, m, fn, na, extra, ab in TRACES:
            trs[name] = TR.trace_function(paths[m], fn, na, ctabs[m], extra, ab)
    except TR.Refusal as e:
        ctx.refusal('trace(%s as %s)' % (fn, name), e)
        return None
    except Exception as e:
        ctx.refusal('trace(%s as %s)' % (fn, name), 'tracer crashed: %r' % e)
        return None
    # statelessness as far as the AST shows (model statement: Stateless.v; implementation: oracle call sequences)
    try:
        for fn in ('cowat', 'supst', 'sat', 'tsat', 'b23p', 'region', 'separated_steam_fraction'):
            why = TB.stateful_uses(tt, fn, allowed_tables=('cowat_a', 'cowat_sa', 'supst_b', 'supst_sb'))
            if why: raise TB.Refusal('t2thermo.%s is not a function of its arguments only: %s' % (fn, '; '.join(why)))
    except TB.Refusal as e:
        ctx.refusal('stateless(t2thermo.py)', e)
        return None
    # comparison structure: what symbolic execution met == what the AST contains
    try:
        for (m, fn), variants in CROSS.items():
            tab = tt if m == 't' else ti
            want = _norm_ast_cmp(tab, fn, TB.comparisons(tab, fn))
            got = set()
            for v in variants: got |= TR.describe_decisions(trs[v])
            if want != got:
                raise TB.Refusal('%s.%s: comparisons in the AST %s differ from the decisions met by symbolic execution %s' % (
                    os.path.basename(tab.path), fn, sorted(want - got, key=repr), sorted(got - want, key=repr)))
    except TB.Refusal as e:
        ctx.refusal('comparison-structure', e)
        return None
    prefix = {'t': '', 'i': 'i97_'}
    hdr = ('(* generated by symbolic execution of %s and %s (tools/props/c15_trace.py) -- do not edit *)\n'
           'From Coq Require Import ZArith QArith List PrimFloat.\nFrom P Require Import Expr.\nFrom Gen Require Import GenThermo.\n'
           'Import ListNotations.\nClose Scope Q_scope.\nOpen Scope nat_scope.\n\n' % (paths['t'], paths['i']))
    body = []
    for name, m, fn, na, extra, ab in TRACES:
        tr = trs[name]
        tr.coef_arrays = [(prefix[m] + a, n) for a, n in tr.coef_arrays]
        body.append(TR.emit_traced(tr, name))
    ctx.gen('GenTraced', hdr + '\n'.join(body))
    ctx.extra['traced'] = {name: {'nodes': len(tr.nodes), 'paths': len(tr.paths), 'hints': tr.nhints,
                                  'coefficient_tables': [a for a, _ in tr.coef_arrays]} for name, tr in trs.items()}
    return tt, ti, trs


# ---------------------------------------------------------------------------------------------
# bit-exact correspondence on doubles: the traced DAGs evaluated (a) in Python and (b) inside Coq
# (PrimFloat, vm_compute) against the real functions
def fhex(x):
    x = float(x)
    if x != x: return 'nan'
    if x == math.inf: return 'infinity'
    if x == -math.inf: return 'neg_infinity'
    return '(%s)' % x.hex()


def same_bits(a, b):
    if a != a or b != b: return a != a and b != b
    return a == b and math.copysign(1.0, a) == math.copysign(1.0, b)


def norm_impl(r):
    """what the real function returned, in the vocabulary of TR.run_dag; 'skip' = outside the model
    (Python raised ZeroDivisionError / OverflowError, or produced a complex number)"""
    if OR.raised(r):
        return 'skip' if r[1] in ('ZeroDivisionError', 'OverflowError') else ('raise',)
    if OR.novalue(r): return None
    items = r if isinstance(r, tuple) else (r,)
    if any(isinstance(x, complex) for x in items): return 'skip'
    try: return ('ret', [float(x) for x in items])
    except Exception: return ('raise',)


def same_result(a, b):
    if a is None or b is None: return a is None and b is None
    if a[0] != b[0]: return False
    if a[0] != 'ret': return True
    return len(a[1]) == len(b[1]) and all(same_bits(x, y) for x, y in zip(a[1], b[1]))


def fres(r):
    if r is None: return 'FNone'
    if r[0] == 'raise': return 'FRaise'
    return 'FRet [%s]' % '; '.join(fhex(x) for x in r[1])


class SolverPatch:
    """scipy.optimize.fsolve wrapped for the duration of a real call: the real fsolve is tried
    first; when it raises the recorded TypeError (finding tsat:fsolve-array-argument) the root
    is found by brentq on the same residual, so that the rest of tsat / separated_steam_fraction
    can still be compared with the traced arithmetic.  The result is recorded (hint of `solve`)."""
    def __init__(self): self.defect = 0; self.last = math.nan
    def __enter__(self):
        import scipy.optimize as so
        self.so, self.orig = so, so.fsolve
        so.fsolve = self.wrap
        return self
    def __exit__(self, *a):
        self.so.fsolve = self.orig
    def wrap(self, f, t0, *a, **k):
        import numpy as np
        try:
            r = self.orig(f, t0, *a, **k)
        except TypeError:
            self.defect += 1
            try: r = np.array([self.so.brentq(f, 0.01, 500.0, xtol=1e-13, rtol=1e-15)])
            except Exception: r = np.array([math.nan])
        self.last = float(np.asarray(r).ravel()[0])
        return r


def gen_inputs(T, I, ctx, scale):
    rng = ctx.rng
    up, dn = OR.up, OR.dn
    tc = T.Tc1_C
    cs = {}
    n = 220 * scale
    liq = OR.gen_liquid(T, I, rng, n)
    cs['cowat_off'] = [list(s) for s in liq] + [[rng.uniform(0.01, 400.0), rng.uniform(1e3, 1e8)] for _ in range(40 * scale)]
    on = [list(s) for s in liq]
    for _ in range(120 * scale):
        t = rng.choice([dn(0.01), 0.01, up(0.01), dn(350.0), 350.0, up(350.0), rng.uniform(-2.0, 360.0), rng.uniform(0.01, 350.0)])
        ps = float(T.sat(min(max(t, 0.01), 500.0)))
        p = rng.choice([dn(ps), ps, up(ps), dn(1e8), 1e8, up(1e8), ps * (1 + rng.choice([-1, 1]) * 10 ** rng.uniform(-14, -2)), rng.uniform(0.0, 1.02e8)])
        on.append([t, p])
    cs['cowat_on'] = on
    stm = OR.gen_steam(T, I, rng, n)
    cs['supst_off'] = [list(s) for s in stm] + [[rng.uniform(0.01, 800.0), 10 ** rng.uniform(2, 8)] for _ in range(40 * scale)]
    on = [list(s) for s in stm]
    for _ in range(160 * scale):
        t = rng.choice([dn(0.01), 0.01, dn(tc), tc, up(tc), dn(590.0), 590.0, up(590.0), 800.0, up(800.0), rng.uniform(-2.0, 810.0), rng.uniform(0.01, 800.0), rng.uniform(340.0, 380.0)])
        tt = min(max(t, 0.01), 800.0)
        lim = float(T.sat(tt)) if tt <= tc else (float(T.b23p(tt)) if tt <= 590.0 else 1e8)
        p = rng.choice([dn(lim), lim, up(lim), lim * (1 + rng.choice([-1, 1]) * 10 ** rng.uniform(-14, -2)), -1.0, 1.0, rng.uniform(1.0, 1.02e8)])
        on.append([t, p])
    cs['supst_on'] = on
    ts = [dn(0.01), 0.01, up(0.01), dn(tc), tc, up(tc), dn(500.0), 500.0, up(500.0), 0.0, -1.0, 100.0] + \
         [rng.uniform(0.01, tc) for _ in range(150 * scale)] + [rng.uniform(-5.0, 510.0) for _ in range(40 * scale)]
    cs['sat_off'] = [[t] for t in ts]
    cs['sat_on'] = [[t] for t in ts]
    plo, phi = float(T.sat(0.01)), T.Pc1
    ps = [plo, phi, 1e5, 1e6, float(T.sat(100.0)), float(T.sat(tc))] + [math.exp(rng.uniform(math.log(plo), math.log(phi))) for _ in range(100 * scale)]
    cs['tsat_off'] = [[p] for p in ps]
    cs['tsat_on'] = [[p] for p in ps + [dn(plo), up(phi), 1.0, 1e9] + [math.exp(rng.uniform(math.log(plo * 0.3), math.log(phi * 3))) for _ in range(40 * scale)]]
    tb = [350.0, tc, 590.0] + [rng.uniform(340.0, 600.0) for _ in range(60 * scale)]
    cs['b23p67'] = [[t] for t in tb]
    cs['b23p97'] = [[t] for t in tb]
    reg = []
    for _ in range(300 * scale):
        r = rng.random()
        t, p = rng.uniform(-5.0, 810.0), rng.uniform(-1e5, 101e6)
        if r < 0.3:
            t = rng.uniform(0.01, tc); c = float(rng.choice([T.sat, I.sat])(min(t, I.tcritical)))
            p = c * (1 + rng.choice([-1, 1]) * 10 ** rng.uniform(-16, -2))
        elif r < 0.5:
            t = rng.uniform(350.0, 590.0); c = float(rng.choice([T.b23p, I.b23p])(t))
            p = c * (1 + rng.choice([-1, 1]) * 10 ** rng.uniform(-16, -2))
        elif r < 0.62:
            t = rng.choice([0.01, 350.0, tc, 590.0, 800.0]); t = rng.choice([t, dn(t), up(t)])
        elif r < 0.68: p = rng.choice([0.0, 100e6, dn(100e6), up(100e6), -0.0])
        reg.append([t, p])
    for t in (10.0, 200.0, 350.0, 360.0, tc):
        reg.append([t, float(T.sat(t))])
    for t in (350.0, 360.0, 400.0, 500.0, 589.0):
        reg.append([t, float(T.b23p(t))]); reg.append([t, float(I.b23p(t))])
    cs['region67'] = reg
    cs['region97'] = reg
    cs['sat97'] = [[t] for t in [0.0, 0.01, I.tcritical, up(I.tcritical), dn(0.0), 100.0] + [rng.uniform(0.0, I.tcritical) for _ in range(100 * scale)] + [rng.uniform(-5.0, 400.0) for _ in range(20)]]
    s1, s2 = [], []
    for _ in range(120 * scale):
        h = rng.choice([0.0, 3.5e6, rng.uniform(0.0, 3.5e6), rng.uniform(2e5, 1.4e6), rng.uniform(2.6e6, 2.9e6)])
        s1.append([h, rng.choice([0.1e6, 5e6, rng.uniform(0.1e6, 5e6)])])
        s2.append([h, rng.choice([0.1e6, 5e6, rng.uniform(0.1e6, 5e6)]), rng.choice([0.1e6, 5e6, rng.uniform(0.1e6, 5e6)])])
    cs['ssf1'], cs['ssf2'] = s1, s2
    cs['cowat97'] = [list(x) for x in liq[:150 * scale]] + [[350.0, 100e6], [up(350.0), 1e7], [20.0, up(100e6)]]
    cs['supst97'] = [list(x) for x in stm[:150 * scale]] + [[800.0, 100e6], [up(1000.0), 1e5]]
    return cs


CASE_HDR = ('From Coq Require Import ZArith QArith List PrimFloat.\nFrom P Require Import Expr.\n'
            'From Gen Require Import GenThermo GenTraced.\nImport ListNotations.\nClose Scope Q_scope.\nOpen Scope Z_scope.\n')


def correspond(ctx, trs, scale):
    """(a) Python evaluation of each traced DAG (same node order, IEEE doubles, libm exp/pow, real
    callees for the abstract calls) against the real function, bit for bit; (b) the same cases, with
    the libm / callee results as hints, evaluated by vm_compute on PrimFloat inside Coq."""
    import t2thermo as T, IAPWS97 as I
    import numpy as np
    mods = {'t': T, 'i': I}
    inputs = gen_inputs(T, I, ctx, scale)
    cdir = os.path.join(ctx.build, 'Cases')
    os.makedirs(cdir, exist_ok=True)
    files = []
    nfile = 0
    nskip = {}
    defect_calls = 0
    for name, m, fn, na, extra, ab in TRACES:
        M = mods[m]
        tr = trs[name]
        coefs = []
        for a, _n in tr.coef_arrays:
            a0 = a[4:] if a.startswith('i97_') else a
            v = getattr(M, a0)
            coefs += [float(x) for x in (v.values() if isinstance(v, dict) else v)]
        cname_py = 'python-eval(traced %s)-vs-%s.%s%s' % (name, M.__name__, fn, repr(tuple(extra)) if extra else '')
        cname_coq = 'evalF(traced %s)-vs-%s.%s%s' % (name, M.__name__, fn, repr(tuple(extra)) if extra else '')
        items, meta = [], {}
        for cid, args in enumerate(inputs[name]):
            tsat_rec = {}
            with SolverPatch() as sp:
                if 'tsat' in ab:
                    orig = M.tsat
                    def rec(p, *a, _o=orig):
                        r = _o(p, *a); tsat_rec[float(p)] = r; return r
                    M.tsat = rec
                try:
                    real = OR.call(getattr(M, fn), *(list(args) + list(extra)))
                finally:
                    if 'tsat' in ab: M.tsat = orig
                defect_calls += sp.defect

                def callee(cn, out, av):
                    if cn == 'solve': return sp.last
                    if cn == 'tsat': r = tsat_rec.get(float(av[0]), math.nan)
                    elif cn in ('cowat', 'supst'):
                        r = OR.call(getattr(M, cn), *av)
                        r = r[out] if OR.ispair(r) else math.nan
                    else: r = OR.call(getattr(M, cn), *av)
                    return float(r) if OR.isnum(r) else math.nan
                want = norm_impl(real)
                if want == 'skip':
                    nskip[name] = nskip.get(name, 0) + 1
                    continue
                got, hints, probes = TR.run_dag(tr, args, coefs, callee)
            if got is not None and got[0] == 'nopath': got = ('nopath',)
            if not same_result(got, want):
                ctx.disagreement(cname_py, {'fn': name, 'args': args}, repr(got), repr(real))
            meta[cid] = (name, args, repr(real))
            n = len(tr.nodes)
            items.append('{| k_id := %d; k_args := [%s]%%float; k_hints := [%s]%%float; k_probes := [%s]; k_res := %s%%float |}' % (
                cid, '; '.join(fhex(a) for a in args), '; '.join(fhex(h if h is not None else math.nan) for h in hints),
                '; '.join('(%d%%nat, %s%%float)' % (n - 1 - k, fhex(v)) for k, v in probes), fres(want)))
        ctx.corr_cases(cname_py, len(meta))
        for off in range(0, len(items), CASES_PER_FILE):
            nfile += 1
            p = os.path.join(cdir, 'Case%03d_%s.v' % (nfile, name))
            with open(p, 'w') as f:
                f.write(CASE_HDR + 'Definition cases : list fcase := [\n  %s].\n' % ';\n  '.join(items[off:off + CASES_PER_FILE]))
                f.write('Eval vm_compute in (bad_casesF %s_traced %s_coefs_F cases).\n' % (name, name))
            files.append((p, cname_coq, meta, len(items[off:off + CASES_PER_FILE])))
    ctx.extra['correspondence_inputs_outside_the_model'] = nskip
    ctx.extra['real_calls_in_which_fsolve_raised_the_known_TypeError'] = defect_calls

    def one(item):
        p = item[0]
        rc, out = vf.sh(['timeout', '600', 'coqc'] + ctx.coq_flags() + ['-Q', cdir, 'Cases', p], cwd=ctx.build, timeout=630)
        return item, rc, out
    with ThreadPoolExecutor(max_workers=min(8, vf.NPROC)) as ex:
        results = list(ex.map(one, files))
    ctx.checker_cmds.append('coqc Cases/Case*.v (%d files, Eval vm_compute of the generated DAGs on doubles, compared bit for bit inside Coq)' % len(files))
    for (p, cname, meta, ncase), rc, out in results:
        ctx.corr_cases(cname, ncase)
        mm = re.search(r'=\s*(\[[^\]]*\]|nil)\s*:\s*list Z', out, re.S)
        if rc != 0 or not mm:
            ctx.proof_failures.append({'kind': 'correspondence', 'name': cname, 'detail': 'case file %s did not evaluate: %s' % (os.path.basename(p), out[-1500:])})
            ctx.log('CASE FILE FAILED', os.path.basename(p), out[-400:])
            continue
        for cid in [int(x) for x in re.findall(r'-?\d+', mm.group(1))]:
            fn, args, impl = meta[cid]
            ctx.disagreement(cname, {'fn': fn, 'args': args}, 'model (PrimFloat evaluation of the traced DAG, or one of its probed arguments) differs in at least one bit', impl)


def hypotheses_met(ctx, trs, n):
    """how many sampled in-range states satisfy the side conditions (`admissible`) of the single-potential
    theorems: every divisor of the traced DAG non-zero, every argument of sqrt / ** positive"""
    import t2thermo as T, IAPWS97 as I
    rng = random.Random(ctx.seed + 77)
    for name, gen in (('cowat_off', OR.gen_liquid), ('supst_off', OR.gen_steam)):
        tr = trs[name]
        coefs = []
        for a, _n in tr.coef_arrays:
            v = getattr(T, a)
            coefs += [float(x) for x in (v.values() if isinstance(v, dict) else v)]
        ok = 0
        for (t, p) in gen(T, I, rng, n):
            vals, _, _ = TR.eval_dag(tr, [t, p], coefs)
            good = all(math.isfinite(v) for v in vals)
            for nd in tr.nodes:
                if nd[0] == 'div' and vals[nd[2]] == 0.0: good = False
                if nd[0] == 'sqrt' and not vals[nd[2]] > 0.0: good = False
                if nd[0] == 'pow' and not vals[nd[2]] > 0.0: good = False
            ok += 1 if good else 0
        ctx.hyp_met['%s_admissible(of %d in-range states)' % (name.split('_')[0], n)] = ok


def agree_stage(ctx, tdir, budget):
    """Thorough tier, second stage: the interval tiles of coq/C15/thorough/Agree*.v and PropsT.v, under a wall budget.
    A tile that FAILS is a proof failure; tiles that merely do not finish in the budget leave the _partial theorems
    unclaimed on this run (recorded in the evidence), which is not a failure."""
    import glob, shutil
    P = os.path.join(ctx.build, 'P')
    files = sorted(glob.glob(os.path.join(tdir, 'Agree*.v')))
    for f in files + [os.path.join(tdir, 'PropsT.v')]: shutil.copy(f, os.path.join(P, os.path.basename(f)))
    with open(os.path.join(ctx.build, '_CoqProjectT'), 'w') as f:
        f.write('-Q %s PTBase\n-Q %s PTModel\n-Q Gen Gen\n-Q P P\n' % (os.path.join(vf.COQDIR, 'Base'), os.path.join(vf.COQDIR, 'Model')))
        for v in files: f.write('P/%s\n' % os.path.basename(v))
    t0 = time.time()
    rc, out = vf.sh('coq_makefile -f _CoqProjectT -o MakefileT 2>&1 && timeout %d make -f MakefileT -j%d -k 2>&1' % (budget, vf.NPROC),
                    cwd=ctx.build, timeout=budget + 60)
    ctx.checker_cmds.append('coq_makefile -f _CoqProjectT -o MakefileT && timeout %d make -f MakefileT -j%d  (%d tile files of coq/C15/thorough)' % (budget, vf.NPROC, len(files)))
    done = [os.path.basename(v) for v in files if os.path.exists(os.path.join(P, os.path.basename(v) + 'o'))]
    info = {'budget_s': budget, 'wall_s': round(time.time() - t0, 1), 'files': len(files), 'compiled': len(done)}
    if re.search(r'^Error', out, re.M) or (rc not in (0, 124) and 'Error' in out):
        ctx._record_make_failure(out, files)
        info['status'] = 'a tile FAILED'
        ctx.log('AGREEMENT TILE FAILED')
    elif len(done) < len(files):
        info['status'] = 'not finished in %d s: the _partial agreement theorems are not claimed on this run' % budget
        ctx.log('agreement tiles: %d of %d files compiled in %d s -- _partial theorems not claimed on this run' % (len(done), len(files), budget))
    else:
        pt = os.path.join(P, 'PropsT.v')
        rc2, out2 = vf.sh(['timeout', '600', 'coqc'] + ctx.coq_flags() + [pt], cwd=ctx.build, timeout=630)
        names, blocks = vf.parse_print_assumptions(open(pt).read(), out2)
        ctx.checker_cmds.append('coqc -Q ... PropsT.v  (Print Assumptions after every theorem)')
        if rc2 != 0:
            ctx.proof_failures.append({'kind': 'proof', 'name': ctx._locate_failure(out2, pt), 'detail': out2[-3000:]})
            info['status'] = 'PropsT.v FAILED'
        else:
            for k, nm in enumerate(names):
                ax = blocks[k] if k < len(blocks) else None
                if ax is not None and [a for a in ax if not vf.axiom_allowed(a)]:
                    ctx.proof_failures.append({'kind': 'gate', 'name': nm, 'detail': 'axioms not on the allow-list'})
                ctx.theorems.append((nm, ax, 'PropsT.v'))
            info['status'] = 'all tiles compiled; %d _partial theorems claimed' % len(names)
            ctx.log('agreement tiles done in %.0f s: %d _partial theorems' % (time.time() - t0, len(names)))
    ctx.extra['agreement_tiles'] = info


def run(ctx):
    warnings.simplefilter('ignore')
    ctx.rule = ('states: liquid 0.01..350 degC from the saturation pressure to 100 MPa, steam 0.01..800 degC below saturation / B23 / 100 MPa '
                '(log- and linearly distributed pressures, 15-25 % on or within 1e-3 relative of a range edge), the saturation line on a uniform grid '
                'incl. both end points and their neighbouring doubles + random; range limits: every limit (0.01, 350, Tc1_C, 590, 800 degC, 500 degC of sat, '
                'saturation / B23 pressure, 0 and 100 MPa, sat(0.01) and Pc1 for tsat) probed at the limit and at the neighbouring doubles on both sides, '
                'range checking on and off; classifier: random states, half straddling both modules\' curves at relative distance 1e-6..1e-1; steam fraction: '
                '29 sorted enthalpies in 0..3.5 MJ/kg per separator setting, pressures 0.1..5 MPa incl. both ends, 1 and 2 stages in both pressure orders; '
                'a case is distinct by (clause, state); every state is a valid thermodynamic state or a point next to a range limit')
    ctx.trusted += ['Coq 8.16.1 kernel (coqc); vm_compute for PrimFloat evaluation and finite obligations over regenerated tables; no native_compute',
                    'translators tools/props/c15_tables.py (module AST -> Coq data, fail-closed) and tools/props/c15_trace.py (symbolic execution of the real functions -> '
                    'expression DAG + every branch outcome; cross-checked against the comparisons in the AST), the latter validated on this run bit for bit against the real functions',
                    "the kernel's primitive floats agree with IEEE-754 binary64 + - * / sqrt and comparisons, as CPython doubles do; libm exp / pow results enter the bit-exact evaluation as hints",
                    'Python oracle c15_oracle.py: 5-point finite differences, tolerances of the IFC-67 / IAPWS-97 comparison fixed at about twice the measured maximum']
    ctx.assumptions += ['theorems over R are about exact real arithmetic; the gap to the double computation is measured (bit-exact evalF validates the translation, not the rounding error)',
                        'scipy.optimize.fsolve is not modelled: `solve` is an arbitrary function meeting solve_root (returns a root of sat(t) - p inside 0.01..Tc1_C); the oracle tests that specification on the real tsat',
                        'the functions called inside range tests (sat, b23p) and inside separated_steam_fraction (tsat, cowat, supst) are abstract in the theorems about the callers',
                        'Python exceptions of float arithmetic (ZeroDivisionError at p = 0 in supst, OverflowError) are not modelled: such inputs are excluded from the correspondence and counted']
    ctx.stage()
    scale = 5 if ctx.thorough else 1
    tt = translate(ctx)
    ctx.log('translated' if tt is not None else 'translation refused')
    if tt is not None:
        # thorough tier additionally (coq/C15/thorough/): (a) Adm*.v, compiled with the main build: `admissible` of the
        # single-potential theorems holds at two concrete states; (b) Agree*.v + PropsT.v, compiled in a second stage with
        # its own wall budget (agree_stage): the densities / energies of the two formulations agree on stated sub-ranges
        # (69 interval tiles).  If the tiles do not finish in the budget (loaded machine) the _partial theorems are NOT
        # CLAIMED on that run -- the evidence says so -- and the clause stays covered by the sampled oracle only.
        tdir = os.path.join(vf.COQDIR, 'C15', 'thorough')
        extra = sorted(__import__('glob').glob(os.path.join(tdir, 'Adm*.v'))) if ctx.thorough else []
        # coqchk (framework, thorough tier) re-checks Interval/Coquelicot for the Props files that import them and does not
        # finish in the tier's budget: give it 5 minutes per library (a timeout is recorded, not a failure)
        os.environ.setdefault('VERIF_COQCHK_TIMEOUT', '300')
        props = ('Props.v', 'PropsR.v', 'PropsS.v', 'Props2.v', 'Props3.v', 'Props4.v', 'Props5.v', 'Props6.v')
        built = ctx.coq_build(props=props, timeout=1500 if ctx.thorough else 600, extra_files=extra)
        if ctx.thorough and built: agree_stage(ctx, tdir, budget=int(os.environ.get('VERIF_C15_TILE_BUDGET', '1000')))
        ctx.log('coq build done: %d theorem(s)' % len([t for t in ctx.theorems if t[1] is not None]))
        try:
            correspond(ctx, tt[2], scale)
            ctx.log('correspondence done')
            hypotheses_met(ctx, tt[2], 400 * scale)
        except Exception as e:
            import traceback; traceback.print_exc()
            ctx.proof_failures.append({'kind': 'correspondence', 'name': 'correspondence-run', 'detail': repr(e)})
            ctx.log('correspondence crashed', repr(e))
    import t2thermo as T, IAPWS97 as I
    OR.sweep(T, I, ctx, scale)
    ctx.log('oracle sweep done')
    for k, v in ctx.oracle.items():
        for kk, vv in list(v.get('distribution', {}).items()):
            if not isinstance(vv, (dict, str, int)): v['distribution'][kk] = float(vv)
    ctx.extra['input_distribution'] = {k: dict(v.get('distribution', {}), cases=v['cases']) for k, v in ctx.oracle.items()}
    for rec in ctx.new_failures[:3] + list(ctx.findings_seen.values())[:2]: ctx.sample({'key': rec['key'], 'input': rec['input']})
    ctx.sample({'clause': 'ifc67-vs-iapws97:liquid', 't': 20.0, 'p': 1e5, 'cowat67': repr(T.cowat(20.0, 1e5)), 'cowat97': repr(tuple(float(x) for x in I.cowat(20.0, 1e5)))})
    ctx.sample({'clause': 'bounds-flag', 'call': 'cowat(350, 1e8, True) / cowat(nextafter(350), 1e8, True)', 'result': repr((T.cowat(350.0, 1e8, True), T.cowat(OR.up(350.0), 1e8, True)))})

    def deep(broken):
        ctx.log('deep search: %s' % [b['name'] for b in broken][:5])
        ctx.rng = random.Random(ctx.seed + 1515)
        OR.sweep(T, I, ctx, 8 if ctx.thorough else 3)
    return ctx.finish(deep_search=deep)


def replay(ctx, data):
    warnings.simplefilter('ignore')
    import t2thermo as T, IAPWS97 as I
    inp = data.get('input')
    if not inp:
        print('replay: no concrete input recorded (a theorem / correspondence no longer checks); re-run ./check C15')
        return True
    return OR.replay_one(T, I, data.get('finding_key', ''), inp)
