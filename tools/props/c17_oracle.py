"""C17 oracle helpers: the property statement ("in every geometry the library constructs, all
block names are distinct five-character strings ... generated column, layer and node names are
distinct and of the convention's length") evaluated on geometries the library constructs --
directly (rectangular with every `case` option and custom character sets) and by EDITING an
existing geometry (rename_layer / refine_layers / refine / rename_column / add_layers), including
the geometry files shipped with the repository.  Everything here runs on the implementation only.

A scenario is a JSON-able dict:
  {'scenario': 'edit', 'base': {'rect': {...rectangular keyword arguments, n = [nx, ny, nz]...}} | {'file': 'tests/mulgrid/g4.dat'},
   'ops': [[opname, args...], ...]}
`run_scenario` builds the base geometry, applies the operations one by one, checks the geometry
after each, and returns None or (finding_key, observed, required, step)."""
import os, string


def names_failure(geo, expect=None, invert=True):
    """None, or (key, observed, required) for the first clause the geometry breaks.
    expect: optional dict with 'layers', 'columns', 'nodes', 'blocks' counts that must be present."""
    for what, lst, dct, length in (('layer', geo.layerlist, geo.layer, geo.layername_length),
                                   ('column', geo.columnlist, geo.column, geo.colname_length),
                                   ('node', geo.nodelist, geo.node, geo.colname_length)):
        nms = [o.name for o in lst]
        if len(set(nms)) != len(nms):
            dup = sorted(set(n for n in nms if nms.count(n) > 1))[:4]
            return ('%s-names:duplicate' % what, 'duplicates %r among %d names' % (dup, len(nms)), 'distinct %s names' % what)
        if any(len(x) != length for x in nms):
            return ('%s-names:wrong-length' % what, repr([x for x in nms if len(x) != length][:4]), 'names of length %d' % length)
        if len(dct) != len(lst) or any(dct.get(o.name) is not o for o in lst):
            return ('%s-names:dict-list-disagree' % what, '%d in list, %d in dictionary' % (len(lst), len(dct)),
                    'every %s filed under its own name' % what)
        if expect and what + 's' in expect and len(lst) != expect[what + 's']:
            return ('%ss-missing' % what, '%d %ss' % (len(lst), what), '%d %ss' % (expect[what + 's'], what))
    blks = geo.block_name_list
    if len(set(blks)) != len(blks):
        dup = sorted(set(b for b in blks if blks.count(b) > 1))[:4]
        return ('block_name_list:duplicate', 'duplicates %r among %d block names' % (dup, len(blks)), 'distinct block names')
    if any(len(b) != 5 for b in blks):
        return ('block_name_list:malformed', repr([b for b in blks if len(b) != 5][:4]), 'five-character block names')
    # every block the layer/column structure calls for is there
    nblk = 0
    if geo.num_layers > 0:
        nblk = {0: 1, 1: geo.num_columns}.get(geo.atmosphere_type, 0)
        for col in geo.columnlist:
            nblk += sum(1 for lay in geo.layerlist[1:] if col.surface > lay.bottom)
    if expect and 'blocks' in expect: nblk = expect['blocks']
    if len(blks) != nblk:
        return ('block_name_list:blocks-missing', '%d blocks' % len(blks), '%d blocks' % nblk)
    if invert:
        for lay in geo.layerlist:
            for col in geo.columnlist:
                b = geo.block_name(lay.name, col.name)
                if len(b) != 5 or geo.column_name(b) != col.name or geo.layer_name(b) != lay.name:
                    return ('block_name:not-invertible', repr((lay.name, col.name, b, geo.layer_name(b), geo.column_name(b))),
                            'column and layer parts of the block name give back column and layer')
    return None


def build_base(mg, base, repo):
    if 'file' in base:
        return mg.mulgrid(os.path.join(repo, base['file']))
    r = dict(base['rect'])
    nx, ny, nz = r.pop('n')
    return mg.mulgrid().rectangular([10.] * nx, [10.] * ny, [5.] * nz, **r)


def run_scenario(mg, inp, repo):
    """None | (key, observed, required, step).  NamingConventionError at any point ends the scenario quietly
    (the explicit error the property allows)."""
    base = inp['base']
    rect = base.get('rect', {})
    chars = mg.uniqstring(rect.get('chars', string.ascii_lowercase))
    if rect.get('case') is not None: chars = mg.uniqstring([str.upper, str.lower][rect['case'] == 'l'](chars))
    spaces = rect.get('spaces', True)
    generated = 'rect' in base          # names all come from the library's numbering functions
    try:
        geo = build_base(mg, base, repo)
    except mg.NamingConventionError:
        return None
    expect = None
    if generated:
        nx, ny, nz = rect['n']
        atm = rect.get('atmos_type', 2)
        expect = {'layers': nz + 1, 'columns': nx * ny, 'nodes': (nx + 1) * (ny + 1),
                  'blocks': nx * ny * nz + (0 if atm == 2 else (1 if atm == 0 else nx * ny))}
    f = names_failure(geo, expect, invert=generated)
    if f: return f + (0,)
    for step, op in enumerate(inp.get('ops', []), 1):
        kind = op[0]
        expect = None
        try:
            if kind == 'rename_atm':
                # give the atmosphere layer the name the numbering assigns to layer number op[1] (if it is free now)
                jf = str.rjust if geo.right_justified_names else str.ljust
                try: new = geo.layer_name_from_number(op[1], jf, chars, spaces)
                except mg.NamingConventionError: continue
                if new in geo.layer: continue
                geo.rename_layer(geo.layerlist[0].name, new)
            elif kind == 'rename_atm_to':
                if op[1] in geo.layer or len(op[1]) != geo.layername_length: continue
                geo.rename_layer(geo.layerlist[0].name, op[1])
            elif kind == 'refine_layers':
                factor, idx = op[1], op[2]
                lays = [geo.layerlist[i] for i in idx if 0 < i < len(geo.layerlist)]
                n_old = len(geo.layerlist)
                nref = len(lays) if lays else n_old - 1
                geo.refine_layers(lays, factor, chars, spaces)
                expect = {'layers': n_old + nref * (factor - 1)}
            elif kind == 'refine':
                cols = [geo.columnlist[i] for i in op[1] if i < len(geo.columnlist)]
                geo.refine(cols, chars=chars, spaces=spaces)
            elif kind == 'rename_column':
                jf = str.rjust if geo.right_justified_names else str.ljust
                new, _ = geo.new_column_name(0, jf, chars, spaces)
                geo.rename_column(geo.columnlist[op[1] % len(geo.columnlist)].name, new)
            elif kind == 'add_layers':
                n = op[1]
                justify = 'r' if geo.right_justified_names else 'l'
                top = geo.layerlist[0].top if geo.layerlist else 0.
                geo.add_layers([3.0] * n, top, justify, chars, spaces)
                for col in geo.columnlist: geo.set_column_num_layers(col)
                geo.setup_block_name_index()
                geo.setup_block_connection_name_index()
                expect = {'layers': n + 1}
            else:
                raise ValueError(kind)
        except mg.NamingConventionError:
            return None
        except Exception as e:
            return ('%s:unexpected-exception' % kind, '%s: %s' % (type(e).__name__, str(e)[:200]), 'geometry or NamingConventionError', step)
        f = names_failure(geo, expect, invert=generated)
        if f: return (kind + ':' + f[0],) + f[1:] + (step,)
    return None


def scenarios(rng, thorough):
    """the scenario list (deterministic given rng)"""
    lo, up = string.ascii_lowercase, string.ascii_uppercase
    out = []
    # (a) rectangular with every `case` option and custom character sets mixing cases / repeating characters
    for conv in range(4):
        for case in (None, 'l', 'u'):
            for justify in ('r', 'l'):
                for chars, sp in ((lo + up, True), ('abcABC', True), ('aabbccdd', True), (up + lo, False), ('xyzXYZxyz', False)):
                    for n in ((6, 6, 2), (3, 2, 3)):
                        out.append({'scenario': 'edit', 'base': {'rect': {'n': list(n), 'convention': conv, 'atmos_type': 1, 'justify': justify,
                                                                       'case': case, 'chars': chars, 'spaces': sp}}, 'ops': []})
    # (b) editing: atmosphere layer renamed to a name the regenerated layer sequence reaches, then refine_layers; refine; renames; add_layers
    for conv in range(4):
        for atm in (0, 1, 2):
            for justify, chars, sp in (('r', lo, True), ('l', lo, True), ('r', up, True), ('r', 'pqrst', True), ('r', lo, False)):
                base = {'rect': {'n': [3, 3, 3], 'convention': conv, 'atmos_type': atm, 'justify': justify, 'chars': chars, 'spaces': sp}}
                for ops in ([['refine_layers', 2, []]],
                            [['rename_atm', 5], ['refine_layers', 2, []]],
                            [['rename_atm', 4], ['refine_layers', 3, [2]], ['refine_layers', 2, []]],
                            [['rename_atm', 1000], ['refine_layers', 2, [1, 3]]],
                            [['rename_atm_to', {2: '99', 3: 'zzz'}[[2, 3, 2, 2][conv]]], ['refine_layers', 2, []]],
                            [['refine', [0, 4]], ['rename_column', 1], ['refine_layers', 2, []]],
                            [['refine', []], ['rename_atm', 6], ['refine_layers', 2, []]],
                            [['rename_column', 0], ['rename_column', 3], ['add_layers', 5], ['rename_atm', 7], ['add_layers', 8], ['refine_layers', 2, [1]]]):
                    out.append({'scenario': 'edit', 'base': base, 'ops': ops})
    # add_layers on an existing geometry across the skipped layer number (convention 2: 'at' = layer 46)
    out.append({'scenario': 'edit', 'base': {'rect': {'n': [1, 1, 2], 'convention': 2, 'atmos_type': 0}}, 'ops': [['add_layers', 47], ['refine_layers', 2, [1]]]})
    out.append({'scenario': 'edit', 'base': {'rect': {'n': [1, 1, 30], 'convention': 2, 'atmos_type': 1}}, 'ops': [['refine_layers', 2, []]]})
    # (c) the geometry files shipped with the repository
    for f in ('g1', 'g2', 'g3', 'g4', 'g5', 'g6', 'g7'):
        base = {'file': 'tests/mulgrid/%s.dat' % f}
        out.append({'scenario': 'edit', 'base': base, 'ops': [['refine_layers', 2, []]]})
        out.append({'scenario': 'edit', 'base': base, 'ops': [['refine_layers', 2, [1]], ['rename_atm', 3], ['refine_layers', 2, [2]]]})
    if thorough:
        for _ in range(150):
            conv = rng.randrange(4)
            base = {'rect': {'n': [rng.randint(1, 4), rng.randint(1, 4), rng.randint(1, 6)], 'convention': conv, 'atmos_type': rng.randrange(3),
                             'justify': rng.choice('rl'), 'chars': rng.choice([lo, up, 'klmn', lo + up]), 'spaces': rng.random() < 0.8,
                             'case': rng.choice([None, None, 'l', 'u'])}}
            ops = []
            for _k in range(rng.randint(1, 5)):
                ops.append(rng.choice([['rename_atm', rng.randint(1, 14)], ['refine_layers', rng.choice([2, 3]), rng.choice([[], [1], [1, 2]])],
                                       ['refine', rng.choice([[], [0], [0, 1]])], ['rename_column', rng.randrange(8)], ['add_layers', rng.randint(1, 50)]]))
            out.append({'scenario': 'edit', 'base': base, 'ops': ops})
    return out
