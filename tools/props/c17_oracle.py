"""C17 oracle helpers: the property statement ("in every geometry the library constructs, all
block names are distinct five-character strings ... generated column, layer and node names are
distinct and of the convention's length") evaluated on geometries the library constructs --
directly (rectangular with every `case` option and custom character sets) and by EDITING an
existing geometry (rename_layer / refine_layers / refine / rename_column / add_layers), including
the geometry files shipped with the repository.  Everything here runs on the implementation only.

A scenario is a JSON-able dict:
  {'scenario': 'edit', 'base': {'rect': {...rectangular keyword arguments, n = [nx, ny, nz]...}} | {'file': 'tests/mulgrid/g4.dat'},
   'ops': [[opname, args...], ...]}
`run_scenario` builds the base geometry, applies the operations one by one, checks the geometry
after each, and returns None or (finding_key, observed, required, step)."""
import os, string, tempfile, shutil, signal


class DoesNotTerminate(BaseException):
    """raised by the time guard inside a library call that runs away (BaseException: `except Exception` must not swallow it)"""


_DEADLINES = []


def _arm():
    import time
    if not _DEADLINES:
        signal.setitimer(signal.ITIMER_REAL, 0)
        return
    left = min(_DEADLINES) - time.time()
    signal.setitimer(signal.ITIMER_REAL, max(left, 0.001), 1.0)


def _handler(sig, frame):
    raise DoesNotTerminate()


class guard(object):
    """every call into the implementation runs under this: a call that does not return within `seconds` is turned into a
    DoesNotTerminate (re-raised every second in case the library swallows it).  Guards nest (the nearest deadline wins).
    Main thread only."""
    def __init__(self, seconds): self.s = seconds

    def __enter__(self):
        import time
        if not _DEADLINES: self.old = signal.signal(signal.SIGALRM, _handler)
        else: self.old = None
        self.deadline = time.time() + self.s
        _DEADLINES.append(self.deadline)
        _arm()
        return self

    def __exit__(self, *a):
        _DEADLINES.remove(self.deadline)
        _arm()
        if not _DEADLINES and self.old is not None: signal.signal(signal.SIGALRM, self.old)
        return False


OP_SECONDS = 30


def names_failure(geo, expect=None, invert=True):
    """None, or (key, observed, required) for the first clause the geometry breaks.
    expect: optional dict with 'layers', 'columns', 'nodes', 'blocks' counts that must be present."""
    for what, lst, dct, length in (('layer', geo.layerlist, geo.layer, geo.layername_length),
                                   ('column', geo.columnlist, geo.column, geo.colname_length),
                                   ('node', geo.nodelist, geo.node, geo.colname_length)):
        nms = [o.name for o in lst]
        if len(set(nms)) != len(nms):
            dup = sorted(set(n for n in nms if nms.count(n) > 1))[:4]
            return ('%s-names:duplicate' % what, 'duplicates %r among %d names' % (dup, len(nms)), 'distinct %s names' % what)
        if any(len(x) != length for x in nms):
            return ('%s-names:wrong-length' % what, repr([x for x in nms if len(x) != length][:4]), 'names of length %d' % length)
        if len(dct) != len(lst) or any(dct.get(o.name) is not o for o in lst):
            return ('%s-names:dict-list-disagree' % what, '%d in list, %d in dictionary' % (len(lst), len(dct)),
                    'every %s filed under its own name' % what)
        if expect and what + 's' in expect and len(lst) != expect[what + 's']:
            return ('%ss-missing' % what, '%d %ss' % (len(lst), what), '%d %ss' % (expect[what + 's'], what))
    blks = geo.block_name_list
    if len(set(blks)) != len(blks):
        dup = sorted(set(b for b in blks if blks.count(b) > 1))[:4]
        return ('block_name_list:duplicate', 'duplicates %r among %d block names' % (dup, len(blks)), 'distinct block names')
    if any(len(b) != 5 for b in blks):
        return ('block_name_list:malformed', repr([b for b in blks if len(b) != 5][:4]), 'five-character block names')
    # every block the layer/column structure calls for is there
    nblk = 0
    if geo.num_layers > 0:
        nblk = {0: 1, 1: geo.num_columns}.get(geo.atmosphere_type, 0)
        for col in geo.columnlist:
            nblk += sum(1 for lay in geo.layerlist[1:] if col.surface > lay.bottom)
    if expect and 'blocks' in expect: nblk = expect['blocks']
    if len(blks) != nblk:
        return ('block_name_list:blocks-missing', '%d blocks' % len(blks), '%d blocks' % nblk)
    if invert and geo.num_layers > 0 and geo.block_order in (None, 'layer_column'):
        built = []
        if geo.atmosphere_type == 0: built.append(geo.block_name(geo.layerlist[0].name, geo.atmosphere_column_name))
        elif geo.atmosphere_type == 1: built += [geo.block_name(geo.layerlist[0].name, col.name) for col in geo.columnlist]
        built += [geo.block_name(lay.name, col.name) for lay in geo.layerlist[1:] for col in geo.columnlist if col.surface > lay.bottom]
        if built != list(blks):
            diff = [(a, b) for a, b in zip(built, blks) if a != b][:3]
            return ('block_name_list:not-the-names-of-its-layers-and-columns', 'first differences (block_name now, listed) %r' % (diff,),
                    'block_name_list = block_name(layer, column) of the geometry\'s own layers and columns')
    if invert:
        for lay in geo.layerlist:
            for col in geo.columnlist:
                b = geo.block_name(lay.name, col.name)
                if len(b) != 5 or geo.column_name(b) != col.name or geo.layer_name(b) != lay.name:
                    return ('block_name:not-invertible', repr((lay.name, col.name, b, geo.layer_name(b), geo.column_name(b))),
                            'column and layer parts of the block name give back column and layer')
    return None


def build_base(mg, base, repo):
    if 'file' in base:
        return mg.mulgrid(os.path.join(repo, base['file']))
    r = dict(base['rect'])
    nx, ny, nz = r.pop('n')
    return mg.mulgrid().rectangular([10.] * nx, [10.] * ny, [5.] * nz, **r)


def run_scenario(mg, inp, repo):
    """None | (key, observed, required, step).  NamingConventionError at any point ends the scenario quietly
    (the explicit error the property allows)."""
    base = inp['base']
    rect = base.get('rect', {})
    chars = mg.uniqstring(rect.get('chars', string.ascii_lowercase))
    if rect.get('case') is not None: chars = mg.uniqstring([str.upper, str.lower][rect['case'] == 'l'](chars))
    spaces = rect.get('spaces', True)
    generated = 'rect' in base          # names all come from the library's numbering functions
    try:
        with guard(OP_SECONDS): geo = build_base(mg, base, repo)
    except mg.NamingConventionError:
        return None
    except DoesNotTerminate:
        return ('construction:does-not-terminate', 'no result after %d s' % OP_SECONDS, 'a geometry or NamingConventionError', 0)
    expect = None
    if generated:
        nx, ny, nz = rect['n']
        atm = rect.get('atmos_type', 2)
        expect = {'layers': nz + 1, 'columns': nx * ny, 'nodes': (nx + 1) * (ny + 1),
                  'blocks': nx * ny * nz + (0 if atm == 2 else (1 if atm == 0 else nx * ny))}
    f = names_failure(geo, expect, invert=generated)
    if f: return f + (0,)
    for step, op in enumerate(inp.get('ops', []), 1):
        kind = op[0]
        expect = None
        mixed = False
        check = True
        extra = None
        try:
          with guard(OP_SECONDS):
              if kind == 'rename_atm':
                  # give the atmosphere layer the name the numbering assigns to layer number op[1] (if it is free now)
                  jf = str.rjust if geo.right_justified_names else str.ljust
                  try: new = geo.layer_name_from_number(op[1], jf, chars, spaces)
                  except mg.NamingConventionError: continue
                  if new in geo.layer: continue
                  geo.rename_layer(geo.layerlist[0].name, new)
              elif kind == 'rename_atm_to':
                  if op[1] in geo.layer or len(op[1]) != geo.layername_length: continue
                  geo.rename_layer(geo.layerlist[0].name, op[1])
              elif kind == 'refine_layers':
                  factor, idx = op[1], op[2]
                  lays = [geo.layerlist[i] for i in idx if 0 < i < len(geo.layerlist)]
                  n_old = len(geo.layerlist)
                  nref = len(lays) if lays else n_old - 1
                  geo.refine_layers(lays, factor, chars, spaces)
                  expect = {'layers': n_old + nref * (factor - 1)}
              elif kind == 'refine':
                  cols = [geo.columnlist[i] for i in op[1] if i < len(geo.columnlist)]
                  geo.refine(cols, chars=chars, spaces=spaces)
              elif kind in ('rename_column', 'delete_column') and len(geo.columnlist) < 2: continue
              elif kind == 'rename_column':
                  jf = str.rjust if geo.right_justified_names else str.ljust
                  new, _ = geo.new_column_name(0, jf, chars, spaces)
                  geo.rename_column(geo.columnlist[op[1] % len(geo.columnlist)].name, new)
              elif kind == 'add_layers':
                  n = op[1]
                  justify = 'r' if geo.right_justified_names else 'l'
                  top = geo.layerlist[0].top if geo.layerlist else 0.
                  geo.add_layers([3.0] * n, top, justify, chars, spaces)
                  for col in geo.columnlist: geo.set_column_num_layers(col)
                  geo.setup_block_name_index()
                  geo.setup_block_connection_name_index()
                  expect = {'layers': n + 1}
              elif kind == 'write_read':
                  # the library also constructs a geometry by READING a file: write this one, read it back
                  before = {'layers': len(geo.layerlist), 'columns': len(geo.columnlist), 'nodes': len(geo.nodelist), 'blocks': len(geo.block_name_list)}
                  conv, atm = geo.convention, geo.atmosphere_type
                  # names that differ only in justification ('D  ' and '  D') are distinct in memory but the reader
                  # re-justifies every name to the right: see known finding write_read:names-differ-only-in-justification
                  mixed = any(len(set(o.name.strip() for o in lst)) < len(lst) for lst in (geo.columnlist, geo.nodelist, geo.layerlist))
                  tmp = tempfile.mkdtemp(prefix='c17-')
                  try:
                      path = os.path.join(tmp, 'g.dat')
                      geo.write(path)
                      if op[1] == 'fresh': geo = mg.mulgrid(path)
                      else:
                          # read into a USED object that held a geometry of another convention / atmosphere type
                          other = mg.mulgrid().rectangular([7.] * 2, [7.] * 2, [2.] * 2, convention=(conv + op[2]) % 4, atmos_type=(atm + op[3]) % 3)
                          other.block_name(other.layerlist[1].name, other.columnlist[0].name)
                          geo = other.read(path)
                  finally:
                      shutil.rmtree(tmp, ignore_errors=True)
                  if (geo.convention, geo.atmosphere_type) != (conv, atm):
                      return ('write_read:convention-or-atmosphere-type-lost', repr((geo.convention, geo.atmosphere_type)), repr((conv, atm)), step)
                  expect = before
              elif kind == 'mapped_calls':
                  # block_name with a caller's block mapping, then without: later results must not depend on the earlier calls,
                  # and the caller's dictionary must not be changed
                  pairs = [(lay.name, col.name) for lay in geo.layerlist for col in geo.columnlist][:op[1]]
                  plain = [geo.block_name(l, c) for l, c in pairs]
                  if not plain: continue
                  bm = dict((plain[i], plain[(i + 1) % len(plain)]) for i in range(len(plain)))
                  bm0 = dict(bm)
                  for l, c in pairs: geo.block_name(l, c, bm)
                  if bm != bm0:
                      return ('block_name:callers-blockmap-mutated', repr(sorted(bm.items())[:3]), 'block mapping left as passed', step)
                  dflt = mg.mulgrid.block_name.__defaults__
                  if dflt != ({},):
                      return ('block_name:shared-default-blockmap-mutated', repr(dflt)[:200], 'default block mapping stays empty', step)
              elif kind == 'other_objects':
                  # other live geometries of other conventions are built and used; this one must not notice
                  for k in range(1, 4):
                      o = mg.mulgrid().rectangular([4.] * 2, [4.] * 1, [1.] * 3, convention=(geo.convention + k) % 4, atmos_type=(geo.atmosphere_type + k) % 3,
                                                   justify='rl'[k % 2], chars=[string.ascii_uppercase, 'qrs', string.ascii_lowercase][k % 3])
                      for lay in o.layerlist:
                          for col in o.columnlist: o.block_name(lay.name, col.name, {o.block_name(lay.name, col.name): 'zz%3d' % k})
                      o.add_layers([1.] * 4, 0., 'l', 'xyzxyz', True)
                      o.convention = (o.convention + 1) % 4
              elif kind == 'delete_column':
                  # leaves a gap in the column numbering (the block list is re-indexed by the next operation, so no check here)
                  geo.delete_column(geo.columnlist[op[1] % len(geo.columnlist)].name)
                  check = False
              elif kind == 'reduce':
                  keep = [c for i, c in enumerate(geo.columnlist) if i not in op[1]]
                  if not keep: continue
                  ncol = len(keep)
                  geo.reduce(keep)
                  expect = {'columns': ncol}
              elif kind == 'split_column':
                  quads = [c for c in geo.columnlist if c.num_nodes == 4]
                  if not quads: continue
                  col = quads[op[1] % len(quads)]
                  ncol = len(geo.columnlist)
                  ok = geo.split_column(col.name, col.node[op[2] % 4].name, chars)
                  if ok:
                      expect = {'columns': ncol + 1}
                      used = set(id(c) for con in geo.connectionlist for c in con.column)
                      if not used <= set(id(c) for c in geo.columnlist):
                          extra = ('split_column:connection-to-a-column-not-in-the-geometry', 'a connection refers to a column object that is not in columnlist',
                                   'every connected column is a column of the geometry', step)
              else:
                  raise ValueError(kind)
        except mg.NamingConventionError:
            return None
        except DoesNotTerminate:
            return ('%s:does-not-terminate' % kind, 'no result after %d s' % OP_SECONDS, 'a result or NamingConventionError', step)
        except Exception as e:
            if kind == 'refine': return None     # refine() refuses some column shapes / disconnected grids: a geometric limitation, not a naming matter
            return ('%s:unexpected-exception' % kind, '%s: %s' % (type(e).__name__, str(e)[:200]), 'geometry or NamingConventionError', step)
        if not check: continue
        f = names_failure(geo, expect, invert=generated)
        if f:
            if kind == 'write_read' and mixed:
                return ('write_read:names-differ-only-in-justification', f[1] + ' (' + f[0] + ')', f[2], step)
            return (kind + ':' + f[0],) + f[1:] + (step,)
        if extra: return extra
    return None


def scenarios(rng, thorough):
    """the scenario list (deterministic given rng)"""
    lo, up = string.ascii_lowercase, string.ascii_uppercase
    out = []
    # (a) rectangular with every `case` option and custom character sets mixing cases / repeating characters
    for conv in range(4):
        for case in (None, 'l', 'u'):
            for justify in ('r', 'l'):
                for chars, sp in ((lo + up, True), ('abcABC', True), ('aabbccdd', True), (up + lo, False), ('xyzXYZxyz', False)):
                    for n in ((6, 6, 2), (3, 2, 3)):
                        out.append({'scenario': 'edit', 'base': {'rect': {'n': list(n), 'convention': conv, 'atmos_type': 1, 'justify': justify,
                                                                       'case': case, 'chars': chars, 'spaces': sp}}, 'ops': []})
    # (b) editing: atmosphere layer renamed to a name the regenerated layer sequence reaches, then refine_layers; refine; renames; add_layers
    for conv in range(4):
        for atm in (0, 1, 2):
            for justify, chars, sp in (('r', lo, True), ('l', lo, True), ('r', up, True), ('r', 'pqrst', True), ('r', lo, False)):
                base = {'rect': {'n': [3, 3, 3], 'convention': conv, 'atmos_type': atm, 'justify': justify, 'chars': chars, 'spaces': sp}}
                for ops in ([['refine_layers', 2, []]],
                            [['rename_atm', 5], ['refine_layers', 2, []]],
                            [['rename_atm', 4], ['refine_layers', 3, [2]], ['refine_layers', 2, []]],
                            [['rename_atm', 1000], ['refine_layers', 2, [1, 3]]],
                            [['rename_atm_to', {2: '99', 3: 'zzz'}[[2, 3, 2, 2][conv]]], ['refine_layers', 2, []]],
                            [['refine', [0, 4]], ['rename_column', 1], ['refine_layers', 2, []]],
                            [['refine', []], ['rename_atm', 6], ['refine_layers', 2, []]],
                            [['rename_column', 0], ['rename_column', 3], ['add_layers', 5], ['rename_atm', 7], ['add_layers', 8], ['refine_layers', 2, [1]]]):
                    out.append({'scenario': 'edit', 'base': base, 'ops': ops})
    # (d) geometries constructed by READING: write-then-read of constructed (and edited) geometries, into a fresh and into a used object;
    #     state carried between calls / objects: mapped block_name calls, other live geometries
    for conv in range(4):
        for atm in (0, 1, 2):
            for justify, chars, sp in (('r', lo, True), ('l', up, True), ('r', lo, False)):
                base = {'rect': {'n': [3, 2, 3], 'convention': conv, 'atmos_type': atm, 'justify': justify, 'chars': chars, 'spaces': sp}}
                for ops in ([['write_read', 'fresh']],
                            [['write_read', 'reuse', 1, 1], ['refine_layers', 2, []], ['write_read', 'reuse', 2, 0]],
                            [['refine', [1]], ['rename_atm', 5], ['refine_layers', 2, []], ['write_read', 'fresh'], ['rename_column', 2], ['write_read', 'reuse', 3, 2]],
                            [['mapped_calls', 12], ['rename_column', 1], ['write_read', 'fresh'], ['mapped_calls', 5]],
                            [['other_objects'], ['mapped_calls', 30], ['other_objects'], ['refine_layers', 2, [1]]]):
                    out.append({'scenario': 'edit', 'base': base, 'ops': ops})
    for f in ('g1', 'g2', 'g3', 'g4', 'g5', 'g6', 'g7'):
        out.append({'scenario': 'edit', 'base': {'file': 'tests/mulgrid/%s.dat' % f}, 'ops': [['write_read', 'fresh'], ['write_read', 'reuse', 1, 1]]})
    # (e) split_column after operations that leave gaps in the column numbering (delete_column, reduce, partial refine)
    for conv in range(4):
        for justify, chars, sp in (('r', lo, True), ('l', lo, True), ('r', up, True), ('r', lo, False)):
            for atm in (0, 1):
                base = {'rect': {'n': [3, 3, 2], 'convention': conv, 'atmos_type': atm, 'justify': justify, 'chars': chars, 'spaces': sp}}
                for ops in ([['split_column', 0, 0]],
                            [['delete_column', 0], ['split_column', 0, 0]],
                            [['delete_column', 4], ['split_column', 2, 1], ['split_column', 1, 2], ['write_read', 'fresh']],
                            [['reduce', [0, 1]], ['split_column', 0, 3], ['refine_layers', 2, []]],
                            [['refine', [0]], ['split_column', 0, 0], ['split_column', 3, 1]],
                            [['rename_column', 0], ['split_column', 1, 0], ['delete_column', 2], ['split_column', 0, 2]]):
                    out.append({'scenario': 'edit', 'base': base, 'ops': ops})
    # add_layers on an existing geometry across the skipped layer number (convention 2: 'at' = layer 46)
    out.append({'scenario': 'edit', 'base': {'rect': {'n': [1, 1, 2], 'convention': 2, 'atmos_type': 0}}, 'ops': [['add_layers', 47], ['refine_layers', 2, [1]]]})
    out.append({'scenario': 'edit', 'base': {'rect': {'n': [1, 1, 30], 'convention': 2, 'atmos_type': 1}}, 'ops': [['refine_layers', 2, []]]})
    # (c) the geometry files shipped with the repository
    for f in ('g1', 'g2', 'g3', 'g4', 'g5', 'g6', 'g7'):
        base = {'file': 'tests/mulgrid/%s.dat' % f}
        out.append({'scenario': 'edit', 'base': base, 'ops': [['refine_layers', 2, []]]})
        out.append({'scenario': 'edit', 'base': base, 'ops': [['refine_layers', 2, [1]], ['rename_atm', 3], ['refine_layers', 2, [2]]]})
    if thorough:
        for _ in range(150):
            conv = rng.randrange(4)
            base = {'rect': {'n': [rng.randint(1, 4), rng.randint(1, 4), rng.randint(1, 6)], 'convention': conv, 'atmos_type': rng.randrange(3),
                             'justify': rng.choice('rl'), 'chars': rng.choice([lo, up, 'klmn', lo + up]), 'spaces': rng.random() < 0.8,
                             'case': rng.choice([None, None, 'l', 'u'])}}
            ops = []
            for _k in range(rng.randint(1, 5)):
                ops.append(rng.choice([['write_read', 'fresh'], ['write_read', 'reuse', rng.randrange(4), rng.randrange(3)], ['mapped_calls', rng.randint(1, 20)], ['other_objects'],
                                       ['split_column', rng.randrange(6), rng.randrange(4)], ['reduce', [rng.randrange(4)]],
                                       ['rename_atm', rng.randint(1, 14)], ['refine_layers', rng.choice([2, 3]), rng.choice([[], [1], [1, 2]])],
                                       ['refine', rng.choice([[], [0], [0, 1]])], ['rename_column', rng.randrange(8)], ['add_layers', rng.randint(1, 50)]]))
            out.append({'scenario': 'edit', 'base': base, 'ops': ops})
    rng.shuffle(out)            # the verdict of a scenario must not depend on what ran before it
    return out


# ----------------------------------------------------------------------
# results must not depend on earlier calls or other live objects; caller-owned arguments and the
# functions' default arguments must be left alone
DEFAULT_HOLDERS = ['int_to_chars', 'new_dict_key', 'mulgrid.block_name', 'mulgrid.add_layers', 'mulgrid.rectangular', 'mulgrid.refine',
                   'mulgrid.refine_layers', 'mulgrid.column_name_from_number', 'mulgrid.node_name_from_number', 'mulgrid.layer_name_from_number',
                   'mulgrid.new_column_name', 'mulgrid.new_node_name']


def defaults_snapshot(mg):
    out = {}
    for nm in DEFAULT_HOLDERS:
        o = mg
        for part in nm.split('.'): o = getattr(o, part, None)
        if o is not None: out[nm] = repr(getattr(o, '__defaults__', None))
    return out


def _call(mg, geo, what, num, jf, chars, sp):
    fn = {'column': geo.column_name_from_number, 'node': geo.node_name_from_number, 'layer': geo.layer_name_from_number}[what]
    try: return fn(num, str.ljust if jf == 'l' else str.rjust, chars, sp)
    except mg.NamingConventionError: return 'NamingConventionError'


def purity_checks(mg, rng, which=None):
    """yields (check name, key, input, observed, required) for every clause that fails"""
    lo, up = string.ascii_lowercase, string.ascii_uppercase
    snap0 = defaults_snapshot(mg)
    # 1. the numbering functions: same answer whatever was called before, on a used or a fresh object, in any order
    if which in (None, 'numbering-order'):
        for conv in range(4):
            geo = mg.mulgrid(convention=conv)
            ins = [(rng.choice(['column', 'node', 'layer']), rng.choice([1, 2, 26, 27, 99, 100, 702, 703, 999, 1000, rng.randint(1, 20000)]),
                    rng.choice('rl'), rng.choice([lo, up, 'klmn']), rng.random() < 0.7) for _ in range(150)]
            first = [_call(mg, geo, *a) for a in ins]
            others = [mg.mulgrid(convention=(conv + k) % 4, atmos_type=k % 3) for k in range(1, 4)]
            for o in others:
                for a in ins[:40]: _call(mg, o, *a)
            order = list(range(len(ins))); rng.shuffle(order)
            fresh = mg.mulgrid(convention=conv)
            for i in order:
                again, new = _call(mg, geo, *ins[i]), _call(mg, fresh, *ins[i])
                if again != first[i] or new != first[i]:
                    yield ('numbering-order', '%s_name_from_number:result-depends-on-earlier-calls' % ins[i][0],
                           {'purity': 'numbering-order', 'convention': conv, 'call': list(ins[i])}, repr((first[i], again, new)), 'the same name every time')
                    break
    # 2. caller-owned arguments are not changed
    if which in (None, 'arguments'):
        d = dict.fromkeys(['  a', '  b', '  d']); d0 = dict(d)
        mg.new_dict_key(d, 0, str.rjust, 3, lo, True)
        if d != d0: yield ('arguments', 'new_dict_key:callers-dictionary-mutated', {'purity': 'arguments'}, repr(d), repr(d0))
        th = [1., 2., 3.]; xb = [10.] * 3; yb = [10.] * 2; zb = [5.] * 3
        g = mg.mulgrid().rectangular(xb, yb, zb, convention=1, atmos_type=1)
        g.add_layers(th, 0., 'r', lo, True)
        if (th, xb, yb, zb) != ([1., 2., 3.], [10.] * 3, [10.] * 2, [5.] * 3):
            yield ('arguments', 'add_layers:callers-list-mutated', {'purity': 'arguments'}, repr((th, xb, yb, zb)), 'lists left as passed')
        for col in g.columnlist: g.set_column_num_layers(col)
        g.setup_block_name_index()
        lays = [g.layerlist[1]]; cols = [g.columnlist[0]]
        g.refine_layers(lays, 2); g.refine(cols)
        if len(lays) != 1 or len(cols) != 1:
            yield ('arguments', 'refine:callers-list-mutated', {'purity': 'arguments'}, repr((len(lays), len(cols))), 'lists left as passed')
    # 3. default arguments (shared between all calls) are not changed by any of the above
    if which in (None, 'defaults'):
        if which == 'defaults':
            for _ in purity_checks(mg, rng, 'numbering-order'): pass
            for _ in purity_checks(mg, rng, 'arguments'): pass
            g = mg.mulgrid().rectangular([1.] * 2, [1.] * 2, [1.] * 2, atmos_type=1)
            for lay in g.layerlist:
                for col in g.columnlist: g.block_name(lay.name, col.name)
        snap1 = defaults_snapshot(mg)
        for nm in snap0:
            if snap1.get(nm) != snap0[nm]:
                yield ('defaults', nm.split('.')[-1] + ':default-argument-mutated', {'purity': 'defaults', 'function': nm}, snap1.get(nm), snap0[nm])
